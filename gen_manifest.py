#!/usr/bin/env python3
"""Generates MANIFEST.json from the registry (so the two cannot drift)."""
import json, sys, os
sys.path.insert(0, os.path.dirname(os.path.abspath(__file__)))
from sa import registry, manifest_text as MT

checks = []
for pid in sorted(registry.PROPERTIES):
    t = MT.TEXT[pid]
    checks.append(dict(
        property_id=pid,
        quick_cmd=f'./check {pid} --tier quick',
        thorough_cmd=f'./check {pid} --tier thorough',
        evidence_file=f'/verif/evidence/{pid}.json',
        replay_cmd_template=f'./check {pid} --replay {{path}}',
        engine='samfacts+sa',
        level_claimed=dict(category='other', text=t['level'], design_ref=t['design_ref']),
        level_note=t['note'],
        technique=t['technique']))
na = [dict(property_id=p, reason=r) for p, r in sorted(MT.NOT_APPLICABLE.items()) if p not in registry.PROPERTIES]
m = dict(
    version=1,
    setup_cmd='cd /verif/samfacts && CARGO_NET_OFFLINE=true cargo build --offline',
    hooks=dict(guard='samlang_verif', enable='none needed: the analysis reads the unmodified build (no hooks in /repo)',
               baseline_off_cmd='cd /repo && cargo test --workspace --no-fail-fast --offline',
               source_commits=[], add_only=True),
    engines=[
        dict(name='samfacts', path='/verif/samfacts', serves_properties=sorted(registry.PROPERTIES),
             kind_free_text='rustc_private driver (nightly) injected via RUSTC_WORKSPACE_WRAPPER under cargo check: dumps mir_built bodies, resolved callees and the ADT table of every workspace crate'),
        dict(name='sa', path='/verif/sa', serves_properties=sorted(registry.PROPERTIES),
             kind_free_text='Python rule library over the facts: type-directed traversal completeness, dominance / who-may-call rules, discriminant-switch table extraction, typestate and taint dataflow, zone abstract interpretation'),
    ],
    checks=checks,
    notes=MT.NOTES,
    not_applicable=na)
json.dump(m, open(os.path.join(os.path.dirname(os.path.abspath(__file__)), 'MANIFEST.json'), 'w'), indent=1)
print('claimed', [c['property_id'] for c in checks], 'n/a', [x['property_id'] for x in na])
