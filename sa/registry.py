"""Property -> rules table. Each rule callable: (prog, tier, repo) -> [RuleResult]."""
from .rules import traversal_instances as TI
from .rules import traversal, printer_rules, parser_progress, loc_enclose, order_taint, node_comments, par_isolation
from .rules import gate, lookup_unwrap, heap, witness, incremental, optimizer, const_arith, shape, backend, printer_rules, comment_linear, enum_evidence, ssa_shared, lex_bounds, gc_rules, scope, eval_order, guard_table, relation, type_walker, str_slice, loc_guard, sweep_window

PROPERTIES = {}


def prop(pid, explanation, rules, assumptions=()):
    PROPERTIES[pid] = dict(explanation=explanation, rules=rules, assumptions=list(assumptions))


_VIEW = {}


def _inlined(prog):
    from . import inline
    v = _VIEW.get(id(prog))
    if v is None:
        v = inline.inlined_view(prog)
        _VIEW.clear()
        _VIEW[id(prog)] = v
    return v


def _with_time_limit(fn, seconds):
    """the second opinion must not turn a check into an endless one: give up (and keep the first verdict) after a while"""
    import signal

    class _Timeout(Exception):
        pass

    def _h(_s, _f):
        raise _Timeout()
    try:
        old = signal.signal(signal.SIGALRM, _h)
    except Exception:
        return fn()
    signal.alarm(seconds)
    try:
        return fn()
    finally:
        signal.alarm(0)
        signal.signal(signal.SIGALRM, old)


def _norm_key(k):
    import re
    return re.sub(r"samlang_\w+(::(<[^>]*>|\{[^}]*\}|[\w']+))+", 'F', k)


def _known_keys():
    import json, os
    try:
        d = json.load(open(os.path.join(os.path.dirname(os.path.dirname(os.path.abspath(__file__))), 'known_findings.json')))
        return {f['key'] for f in d.get('findings', []) if f.get('status') == 'known'}
    except Exception:
        return set()


def run_property(prog, pid, tier, repo, static_only=False):
    """Each rule is decided on the program as written. If it reports something there, it is decided once more on the view of
    the program in which small private helper functions are inlined into their callers (sa/inline.py): inlining preserves
    behaviour, so a structural condition that holds on the inlined view holds for the code - the first verdict was an artefact
    of how the code is split into functions. The second verdict is used only when it is clean."""
    out = []
    known = None
    for r in PROPERTIES[pid]['rules']:
        if static_only and getattr(r, 'needs_repo_build', False):
            continue
        results = list(r(prog, tier, repo))
        if not getattr(r, 'needs_repo_build', False):
            if known is None:
                known = _known_keys()
            bad = [i for res in results for i in res.instances if i.status == 'violation' and i.full_key() not in known]
            if bad:
                try:
                    again = _with_time_limit(lambda: list(r(_inlined(prog), tier, repo)), 150)
                    bad2 = [i for res in again for i in res.instances if i.status == 'violation' and i.full_key() not in known]
                    # the second verdict must decide at least as many obligations as the first one looked at: an obligation
                    # that merely disappears from the inlined view (a rule that reasons about the functions themselves, like
                    # the grammar productions) is not discharged by it
                    n1 = sum(1 for res in results for i in res.instances
                             if i.status == 'ok' or (i.status == 'violation' and not i.key.startswith(('cannot-decide:', 'floor:'))))
                    n2 = sum(1 for res in again for i in res.instances if i.status == 'ok')
                    # ... and every report of the first verdict must have a positively decided counterpart: the same key up to
                    # the names of the functions involved (an obligation that is classified differently on the inlined view -
                    # a pass-through token that looks freshly built after inlining - is not the same obligation)
                    ok2 = {_norm_key(i.full_key()) for res in again for i in res.instances if i.status == 'ok'}
                    unmatched = [i for i in bad if not i.key.startswith(('cannot-decide:', 'floor:')) and _norm_key(i.full_key()) not in ok2]
                    if not bad2 and again and n2 >= n1 and not unmatched:
                        for res in again:
                            res.analysed['decided_on'] = 'the view with private helper functions inlined (the code as written splits the shape across functions)'
                        results = again
                except Exception:
                    pass
        out.extend(results)
    return out


COMMON = ('Static analysis only: the deciding step reads the MIR (mir_built) and ADT table that rustc nightly builds for '
          "/repo's current working tree; samlang is never executed. What is decided is a structural necessary condition "
          'of the property, not the behaviour itself. ')

prop('C01', COMMON +
     'TRAVERSAL/DISPATCH/SIBLING: every operand-bearing field of every HIR/MIR/LIR statement and every sub-expression, '
     'block, pattern and literal of the typed source AST is read by each lowering pass that walks it (source->HIR, '
     'generics specialisation, type deduplication, constant-parameter elimination, MIR->LIR, LIR unused-name '
     'elimination, LIR->WASM). ENUM-EVIDENCE: every construction of an unboxed enum variant is guarded by the layout '
     'predicate, and every possibly-true answer of that predicate is dominated by the Some edge of a lookup of the payload '
     'type\'s completed definition. EVAL-ORDER: on no path of the source->HIR lowering is a later child (arguments, right '
     'operand, match arms, branches) lowered before the earlier one (callee, left operand, scrutinee, condition). '
     'RESOLVED-ORDINAL: every ordinal the checker resolves into the typed tree (field index, variant tag) is read by the '
     'source->HIR lowering. GUARDED-OPERAND: the statements of an operand the lowering guards by another operand\'s value (`&&`, `||`) reach the output only inside the guarded branch or behind a literal test of the guard. TYPE-WALKER: type rewriters of the compiler visit every child position. Does '
     'not decide that a visited operand is lowered correctly.',
     [enum_evidence.run, eval_order.run, eval_order.run_resolved_ordinal, eval_order.run_guarded_operand, backend.run_str_predicates, backend.run_entry_output_fresh, type_walker.make(('samlang_compiler',), 3), TI.make(['T-hir', 'T-mir_generics_specialization', 'T-mir_type_deduplication', 'T-mir_constant_param_elimination',
               'T-lir_lowering', 'T-lune', 'T-wasm'])])

prop('C02', COMMON +
     'TRAVERSAL/DISPATCH/SIBLING: every optimisation pass that walks mid-level statements reads every operand field of '
     'every statement kind (use collectors, rewriters, escape analysis). CONST-ARITH: field-based interprocedural '
     'taint from user integer-literal payloads of the IRs to Assert(Overflow/DivisionByZero/...) terminators - no '
     'panicking operator is applied to a program constant at compile time. DCE-KEEP: the DCE dispatcher always keeps '
     'calls, breaks and loops, and removes a Binary only after operator != DIV and != MOD. FOLD-TABLE: per operator, the '
     'constant folder uses the MIR operation, operand order, signedness and zero guard of the wasm opcode the wasm '
     'printer emits for the same operator (both tables read out of MIR discriminant switches). SWAP-TABLE: operand '
     'swapping <=> mirror operator, never for non-commutative operators; `x - n` -> `x + (-n)` only behind n != i32::MIN. '
     'SCOPE-BRACKET: push_scope/pop_scope of every stacked fact context are balanced on all paths, and every recursive '
     'descent into a nested statement list is bracketed by the same contexts as its sibling descents. COUNTER-SYNC: '
     'every temp-name counter is synchronised back into the heap on every path before the next one is created. GUARD-TABLE: '
     'the loop optimiser\'s operator tables (guard extraction, negation, rebuild) are evaluated from MIR for every input and '
     'compared with integer order logic. BRANCH-PAIR-EMPTY: an emptiness test of one branch list of an IfElse comes with a test of the sibling list. INLINE-REWRITES-ALL: every expression operand of a statement rebuilt by the inliner\'s renaming function comes out of the renaming. '
     'PEEK-THEN-VISIT: where a function of the walker family inspects the variant of a child node it reaches through a slot of its parent, the variants it does not name are still handed to the family\'s visitor for that node type on every path (they are not treated as leaves). PEEK-THEN-VISIT: where a function of the walker family inspects the variant of a child node it reaches through a slot of its parent, the variants it does not name are still handed to the family\'s visitor for that node type on every path (they are not treated as leaves). LICM-KEPT-IS-VARIANT: for every statement variant that defines a name, every path of loop-invariant code motion from its match arm back to the loop head hoists the statement or records the name as loop-variant (only an empty optional / repeated defining field excuses a path). Does not decide loop closed forms, LICM legality, inlining capture-avoidance or escape analysis.',
     [const_arith.run, optimizer.run_dce_keep, optimizer.run_fold_table, optimizer.run_swap_table, optimizer.run_branch_pair, optimizer.run_inline_rewrites_all, optimizer.run_licm_kept_is_variant, guard_table.run, traversal.run_tuple_components, scope.run_bracket, scope.run_counter_sync,
      TI.make(['T-dce', 'T-conditional_constant_propagation', 'T-inlining', 'T-local_value_numbering',
               'T-scalar_replacement', 'T-unused_name_elimination', 'T-loop_induction_variable_elimination'])])

prop('C06', COMMON +
     'TRAVERSAL/SIBLING: the type checker and the scope analysis visit every sub-expression, block, pattern and '
     'annotation of a module (a child that is never visited cannot be rejected). GATE: every lowering step in the '
     'compile entry point is dominated by the no-errors edge of ErrorSet::has_errors(), tested after parsing and '
     'checking on the same ErrorSet, and nobody else calls lowering. ERRSET-SINK: every public report method '
     'unconditionally inserts into the set has_errors() tests. INT-RANGE-REPORT: zone abstract interpretation of the '
     'lexer\'s integer-literal post-processing - an integer token is produced only on paths that reported an error or '
     'where the parsed value is proven to fit (checked per incoming path, because the join loses the disjunction). '
     'ASSIGN-ALL-PATHS: the checker functions typing a binary operator, a unary operator and an if-else perform an '
     'assignability check on every path. SCOPE-IFLET-ELSE: the scope analysis visits the else-branch of an if-let at the scope depth of the whole '
     'expression (pattern bindings are not visible there). REENTRANT-RESTORE: a typing-context field overridden around a '
     're-entrant call (synthesis mode) is restored on every path. EXHAUSTIVE-GATE: every typed Match / declaration statement is built only after the exhaustiveness procedure ran and every '
     'counterexample is reported. REL-FIELDS: every checker function relating two types '
     '(same-type, assignable, meet, subtype) reads every identity field of the payload structs it compares from both sides. TYPE-WALKER: every structural recursion '
     'over the checker\'s Type (validation of instantiations, substitution, placeholder search) reads every child position '
     '(type arguments, parameter types, return type).',
     [gate.run_gate, gate.run_errset, gate.run_row_by_field_index, gate.run_assign_all_paths, lex_bounds.run_int_range, scope.run_iflet_else,
      lambda prog, tier, repo: scope.run_reentrant_restore(prog, tier, repo, crates=('samlang_checker',)), relation.run, relation.run_pairwise, gate.run_exhaustive_gate, gate.run_placeholder_ordinal, gate.run_private_guard, type_walker.make(('samlang_checker',), 6), TI.make(['T-chk', 'T-ssa'])])

prop('C08', COMMON +
     'TRAVERSAL/SIBLING: the pretty-printer reads every expression, pattern, annotation, identifier and literal slot of '
     'the syntax tree (a slot never read is missing from the output). PREC-ISO: the parser precedence ranking (derived '
     'from the chain of productions that build Binary nodes) and the printer precedence table (read from its '
     'discriminant switch) are compared on all 91 operator pairs. LITERAL-PARITY: every content transformation on the '
     'parser\'s string-literal path has its inverse on the printer\'s. PAREN-ASSOC: every parenthesis decision for the '
     'right operand of a Binary node parenthesises at equal precedence (the parser is left-associative). PAREN-SINK: every '
     'child printed in an undelimited position (unary operand, binary operands, lambda body, chain base) reaches the '
     'precedence decider; the plain printer may take a left operand only behind an equal-precedence test and a right operand '
     'only behind same-operator + associative-operator tests (reported as the known regrouping finding). TYPE-WALKER: the '
     'annotation printer visits every child position. PLAIN-POSITION: a child the printer emits without a parenthesis decision is parsed with the top production of the expression grammar (productions ordered by fall-through). CONTINUATION-LEVELS: the look-ahead path that continues a parsed expression applies the continuation of every operator level. PAREN-UNARY-LEVEL, LIST-END-TOKEN, LITERAL-SOURCE as described in DESIGN.md. PEEK-THEN-VISIT: where a function of the walker family inspects the variant of a child node it reaches through a slot of its parent, the variants it does not name are still handed to the family\'s visitor for that node type on every path (they are not treated as leaves). PEEK-THEN-VISIT: where a function of the walker family inspects the variant of a child node it reaches through a slot of its parent, the variants it does not name are still handed to the family\'s visitor for that node type on every path (they are not treated as leaves). ROW-BY-FIELD-INDEX: the abstract pattern of an object-pattern element is stored in the exhaustiveness row at the index of its field (`field_order`), and nothing is appended to that row inside the loop over the elements (rows keep one column per field). Does not decide layout.',
     [printer_rules.run_prec_iso, printer_rules.run_literal_parity, printer_rules.run_paren_assoc, printer_rules.run_paren_sink, printer_rules.run_paren_unary_level, printer_rules.run_plain_position, printer_rules.run_continuation_levels, printer_rules.run_pattern_parens, shape.run_literal_source, parser_progress.run_list_end_token, type_walker.make(('samlang_printer',), 1), TI.make(['T-prt'])])

prop('C09', COMMON +
     'Clause "every comment is kept". COMMENT-LINEAR: linear-resource typestate dataflow over the parser MIR (Vec<Comment> '
     'places Moved/Empty/MaybeNonEmpty; L1 no drop of a possibly non-empty comment vector, L2 no discarded '
     'create_comment_reference result, L3 no whole drop of a comment-carrying node) except on paths that report a syntax '
     'error. ID-COMMENT-PAIR: an identifier the printer prints by name only is provably built with the constant empty '
     'comment reference. FRESH-REFERENCE: every non-constant CommentReference is the index of a store entry pushed for it '
     '(unique ownership; entries are rewritten in place). COMMENT-ORDER: at each of the 53 concatenations of comment vectors '
     'in the parser the receiver holds comments lexed no later than the appended ones (ages compared by dominance of the '
     'producing lexer calls; parameters are oldest, pending_comments newest). ELEMENT-COMMENTS: every loop / per-element closure of the printer over comment-carrying nodes reads the element\'s '
     'comment reference or delegates the element on every path (lazy closures do not count). LINE-COMMENT-BREAK: a line-comment document is immediately followed '
     'by the constant hard line break in the sequence it is emitted into. TRAVERSAL/SIBLING(T-prc): the printer reads every comment-reference slot. '
     'COMMENT-REF-UNIQUE: a comment reference read out of a node is not stored in a second node while the first is kept. '
     'NODE-LEADING-COMMENTS: a node handed to a printer function that does not print the node\'s leading comments has that slot read by the function handing it over, '
     'the functions it calls or its callers (per hand-over, not only once per slot). CHILD-EXPR-COMMENTS: a sub-expression handed to a printer that does not cover its argument on every path has its leading comments read by the function handing it over. COMMENT-TOKEN-KEPT: in the token pump of the parser every comment token received from the lexer is pushed as a pending comment on every path back to the next token request. SORT-KEY-LOSSY (clause "format --check is stable"): the merged import groups, kept in a hash map, are ordered by a key that is not a lossy function of the module path, so two groups never tie and fall back to hash order. Does not decide '
     'idempotence of the layout nor that a stored comment is printed in the right place.',
     [comment_linear.run, comment_linear.run_fresh_reference, comment_linear.run_comment_order, comment_linear.run_comment_ref_unique, printer_rules.run_id_comment_pair, printer_rules.run_line_comment_break, printer_rules.run_element_comments, node_comments.run, node_comments.run_child_expr, order_taint.run_sort_key_lossy_printer, comment_linear.run_comment_token_kept, TI.make(['T-prc'])])

prop('C11', COMMON +
     'TRAVERSAL/SIBLING(T-gc): the PStr-bearing fields reachable from Module<Arc<Type>> (type walk over the ADT table) '
     'are all projected by the GC marker family. Decides only that every string slot is visited by the marker; '
     'use-after-reclaim across GC schedules and root-set completeness are not decided. LOOKUP-UNWRAP: every '
     'unwrap of a lookup into a ServerState map is dominated by a successful lookup of the same key in a map whose key '
     'set is included (helper summaries computed to a fixpoint; no inclusion for `errors`). STATE-WRITERS: only the '
     'server_state module mutates those maps, and UPDATE-ORDER (shared with C10) checks that the mutators insert/remove '
     'all per-module maps under the same keys. POP-MUST-MARK: in the GC driver every module reference popped from the '
     'unmarked set is looked up and marked on every path before the next pop or return.',
     [TI.make(['T-gc']), gc_rules.run, gc_rules.run_gc_roots, gc_rules.run_store_pairing, lookup_unwrap.run, lookup_unwrap.run_find_unwrap, lookup_unwrap.run_writers, incremental.run_order, incremental.run_errors,
      witness.run_for(['WState'], 'C11: outside samlang-services the state maps cannot be written (compile-fail witnesses)')],
     ['A-11.1: a field read by the marker family is actually passed to Heap::mark (read, not checked)',
      'A-11.2: every PStr held in parsed_modules/global_cx/errors also occurs in some checked module'])

prop('C15', COMMON +
     'TRAVERSAL/SIBLING: the renamer and the scope analysis visit every identifier-, expression- and pattern-bearing '
     'child of every node. SSA-SHARED: the definition/uses records of the services crate are built only from the '
     'fields of the checker\'s SsaAnalysisResult, which is only obtained from perform_ssa_analysis_on_module (no second '
     'scope resolver). NAV-VIA-SSA: every path of a navigation query that handles a local-name hit passes through the SSA '
     'lookup. LOC-GUARD: a cursor-position test gating the descent into a child tests a location of that child or of a node '
     'containing it (sibling locations only where the parser provably widens them). RENAME-RELEVANCE: the unconditional rewrite of a variable occurrence is reached only behind a range test of the expression (or for the single child of a binder-free node). IDENT-ALPHABET keyword-gate: the new name is read back by the parser before a renaming is applied. PEEK-THEN-VISIT: where a function of the walker family inspects the variant of a child node it reaches through a slot of its parent, the variants it does not name are still handed to the family\'s visitor for that node type on every path (they are not treated as leaves). FIND-UNWRAP: a search result (`find` / `position`) that a request handler unwraps comes from a search whose predicate is the bare location-containment test that the preceding position lookup established - an added conjunct is not covered by that lookup. SEARCH-NO-EARLY-NONE: the cursor search (location_cover) uses `?` only on the results of child searches (or where no child search can follow), never to turn the absence of an unrelated value into "nothing under the cursor" before the remaining children were searched. RENAME-RELEVANCE containment clause: the relevance test of the renamer asks Location::contains (a weaker relation makes every expression relevant for the definition of `this`, located at the whole class). RENAME-KEEPS-COMMENTS: a node with a comment slot that the renamer rebuilds from an existing node takes the slot from that node. Does not decide capture-freedom of the new name or behavioural identity after rename.',
     [ssa_shared.run, ssa_shared.run_nav_via_ssa, ssa_shared.run_ident_alphabet, printer_rules.run_pattern_parens, loc_guard.run, loc_guard.run_rename_relevance, loc_guard.run_search_no_early_none, loc_guard.run_rename_keeps_comments, scope.run_iflet_else, TI.make(['T-ren', 'T-ssa'])])

# properties whose reports on the unchanged tree are not yet triaged are not claimed
import os as _os
for _p in _os.environ.get('SA_UNCLAIMED', 'C09,C11').split(','):
    pass

prop('C12', COMMON +
     'Clause "the same rendered diagnostics whatever the hash seeds": the error set is an ordered set, so the sequence of '
     'diagnostics is stable; ORDER-TAINT decides their content - an interprocedural taint analysis from every iteration of a '
     'HashMap/HashSet (15 sites in checker, parser and errors crates) through iterator adapters, next() elements, pushes '
     'into vectors/strings, aggregates and function results to the arguments of the 87 ErrorSet::report_* / '
     'StackableError::add_* call sites; sorting, min/max/count/any/all and collecting into a hash or B-tree collection '
     'remove the taint. COUNTER-SYNC (shared with C02): every temp-name counter handed to the parallel optimiser is '
     'synchronised back on every path. INTERN-ORDER: before the diagnostics of a compilation are rendered no string is interned in hash-iteration order (long identifiers are ordered by interning index). PAR-ISOLATION (clause "whatever the number of worker threads"): in the code reachable from the closures handed to the rayon adapters no branch depends on a value read from state shared between workers (atomics, locks, channels); the shared temporary-name counter only hands out names. SORT-KEY-LOSSY: a stable keyed sort over hash-collection entries does not compute its key from the unique part of the entry through a lossy function (case folding, length, prefix), which would leave ties in hash order. ERRSET-SINK merge clause: the method that folds one error set into another is a plain union (no branch except on the end of the elements), so the order in which the parallel checker delivers the per-module sets cannot change the result. Does not decide that programs emitted under different module enumeration orders or '
     'thread counts behave the same (synthetic numbering follows hash order by design).',
     [order_taint.run, order_taint.run_intern_order, scope.run_counter_sync, par_isolation.run, order_taint.run_sort_key_lossy_compiler, gate.run_errset],
     ['ErrorSet keeps its errors in an ordered set (BTreeSet) and renders them in that order'])

prop('C14', COMMON +
     'Clause "a position encloses the positions of its sub-parts": LOC-ENCLOSES traces every Location the parser stores in a '
     'syntax node back to its sources (locations of peeked/consumed tokens, of child nodes, parser.last_location, parameters; '
     'through copies, references, Location::union and re-assigned locals, tuple components kept apart) and requires, for each '
     'child of each of the 65 location-carrying node constructions, one source obtained on every path before the child and '
     'one obtained on every path between the child and the construction - union takes min start / max end and tokens are '
     'consumed in source order. Clause "for a name the position covers exactly its characters": NAME-LOC-PAIR - every Id '
     'node takes loc and name from the same token; RESULT-LOC-IS-NAME - name-carrying results of the cursor search report Id.loc; '
     'CURSOR-LOC-FRESH - the parser cursor\'s last_location (moved over skipped comments by every peek) is read for a node '
     'location only directly after a token was consumed; POSITION-FROM-TOKENS - above the character-level lexer no position is built by arithmetic; LOC-ENCLOSES siblings - a child built in the constructing function does not enclose a sibling. Does not decide the lexer\'s line/column bookkeeping, that positions lie '
     'inside the document, or that siblings do not overlap.',
     [loc_enclose.run, loc_enclose.run_name_loc_pair, loc_enclose.run_result_loc, loc_enclose.run_cursor_loc_fresh, loc_enclose.run_position_from_tokens, loc_enclose.run_loc_module],
     ['tokens are consumed in source order and the lexer assigns increasing positions (C05 LEX-BOUNDS side)'])

prop('C17', COMMON +
     'Rules over the MIR of samlang-heap, anchors resolved by role: PSTR-TAG (only the union\'s own impls touch its '
     'fields; the single encoder and every decoder use the same shift and tag byte, the tag is the top byte and is not a '
     'UTF-8 byte; every inline construction has size <= capacity), DEALLOC-OWNER (only the sweeper produces reclaimed '
     'slots, dominated by the unmarked-module gate, the temporary arm and the not-marked edge; permanent slots are never '
     'overwritten; mark bit set only to true by markers and cleared only by the sweeper), UNINTERN-BEFORE-OVERWRITE, '
     'TABLE-MONOTONE (tables only grow), INTERN-DISCIPLINE (push only after both intern maps missed, paired with an '
     'insert); a marker sets the bit for every heap handle whose slot is Temporary (mark-total). SWEEP-WINDOW: zone abstract '
     'interpretation of the sweeper with variables for the cursor field and the table length: the swept range starts at the '
     'cursor found on entry and the cursor is left at its end (or 0 at the table end), so consecutive windows tile the table. '
     'PER-ELEMENT-TOTAL: loops that make strings permanent or mark them walk their whole collection. PSTR-TAG discriminator: no decision from the raw handle word other than the tag comparison. INTERN-DISCIPLINE permanent-entry: a text entered into the permanent intern map has its slot made permanent on every path. MODREF-PARTS-PERMANENT: every push onto the module-reference table is preceded - in the pushing function or in every caller - by the loop that promotes the parts to permanent strings. Does not decide the interleaving argument itself (that marking completes between cursor wraps).',
     [heap.run_tag, heap.run_dealloc, heap.run_unintern, heap.run_monotone, heap.run_intern, heap.run_unmarked_set, heap.run_per_element_total, heap.run_modref_parts_permanent, sweep_window.run,
      witness.run_for(['WHeap'], 'C17: handles cannot be forged and heap internals cannot be touched outside the crate (compile-fail witnesses)')],
     ['the marker marks every live string before the unmarked-module set becomes empty (C11 side, T-gc)'])

prop('C10', COMMON +
     'From-scratch analysis is build_module_signature + type_check_module per key; the incremental path calls the same '
     'two functions, so equality reduces to invariants of the three mutators, decided on their MIR: SIG-KEY (the '
     'signature stored under k is built for k from the module stored under k), UPDATE-ORDER (dep_graph rebuilt from '
     'parsed_modules after the last source mutation and before recheck; recheck post-dominates entry; parsed_modules and '
     'global_cx mutated under the same keys), ERRORS-OVERWRITE (recheck re-reports the previous syntax errors before '
     'overwriting errors[m]), DIRTY-COVERS (the dirty set handed to affected_set is built from every request component '
     'under which parsed_modules is mutated; every module announced to recheck as re-parsed is parsed on every path). '
     'UPDATE-ORDER affected-set: a mutator that never removes sources computes the re-check set on the rebuilt graph. ERRORS-OVERWRITE clear: every rechecked module gets its errors entry overwritten. GC-ROOTS gc-requeue: the module list is queued for marking on every path. AFFECTED-CLOSURE: the recheck set returned by the dependency graph is the closure over the import edges of the closure over the imported-by edges of the changed modules (recheck rewrites the stored diagnostics of every module of the set, and checking a module can produce diagnostics located in its dependencies). Does not decide that the affected set is large enough (graph semantics).',
     [incremental.run_sigkey, incremental.run_order, incremental.run_errors, incremental.run_dirty, incremental.run_sig_all, incremental.run_affected_closure, gc_rules.run_gc_roots],
     ['affected_set (forward closure of the reverse closure of the dirty set) contains every module whose diagnostics can change'])

prop('C03', COMMON +
     'Clause "compilation finishes without crashing": CONST-ARITH (no panicking arithmetic on constants of the compiled '
     'program anywhere in parser/checker/compiler/optimizer; taint from integer-literal payloads to Assert terminators), '
     'SHAPE-PRODUCER (the parser never constructs a raw MethodAccess node and every Tuple node it builds is dominated by '
     'truncate(16) and by a test excluding the one-element case - the shapes the checker panics on), TS-SPLICE (no '
     'unsanitised string content between the backticks of an emitted template literal), REENTRANT-RESTORE (a lowering-manager '
     'field overwritten before the lowering re-enters itself - the current loop context - is put back from a saved copy '
     'on every path, so a break lowered after a nested loop still finds its loop), REL-FIELDS (type relations of the checker compare every '
     'identity field, e.g. class-statics vs instance types - the accepted-but-unlowerable programs). Does not decide '
     'type soundness of the checker or validity of the emitted module.',
     [const_arith.run, shape.run_shape, backend.run_ts_splice, gate.run_assign_all_paths,
      lambda prog, tier, repo: scope.run_reentrant_restore(prog, tier, repo, crates=('samlang_compiler',)), relation.run, relation.run_pairwise,
      scope.run_iflet_else, gate.run_exhaustive_gate, gate.run_placeholder_ordinal],
     ['A-05.1: parenthesised lists reaching a Tuple construction are non-empty (the first element is parsed before)'])

prop('C04', COMMON +
     'BACKEND-OP-TABLE: three tables are read out of MIR discriminant switches - operator -> wasm mnemonic (wasm printer), '
     'operator -> JS symbol (BinaryOperator::as_str) and operator -> JS wrapper calls (LIR TypeScript printer) - and each '
     'row is checked against a semantic equivalence table of JS forms and i32 opcodes (one reason per row). TS-SPLICE: '
     'non-constant text pushed between the backticks of a template literal must come through a sanitising callee. '
     'Sibling operators of one family must be emitted through the same TypeScript shape. DATA-SEGMENT-UNITS: no '
     'character count flows into the offset/length of a string constant in the wasm data segment. Does not '
     'decide agreement of the two runtime libraries (libsam.wat vs the TS prolog).',
     [backend.run_op_table, backend.run_ts_splice, backend.run_segment_units, backend.run_str_predicates, backend.run_entry_output_fresh, backend.run_call_always_emitted])

prop('C05', COMMON +
     'Clause "none of them panics" for the hand-written byte scanning: LEX-BOUNDS is a zone (difference-bound) abstract '
     'interpretation of the lexer wrapper over integer locals, slice lengths and iterator ghost counters, with widening at '
     'loop heads and one narrowing pass; obligations are every BoundsCheck assert, usize subtraction, range slice and '
     'Lexer::bump in scope, and an unproved obligation or unsupported construct is reported (fail closed). Clause "a '
     'syntax error is always reported when the parser had to invent tokens": FABRICATE-REPORTS (every placeholder '
     'identifier / dummy literal / `any` annotation is dominated or post-dominated by a report) and INT-RANGE-REPORT. '
     'SHAPE-PRODUCER: parser never builds a tree the checker aborts on. STR-SLICE: outside the lexer every byte-offset '
     'slice/truncate/split of a string takes its offsets from that same string (len/find/...), never from a Location column '
     'or a parameter. BINDER-WRITE: every typed identifier pattern the checker produces - also on its recover-as-any paths - is '
     'dominated by recording a type for the identifier (get_captured unwraps it). PARSER-PROGRESS: clause "loops forever" for the '
     'parser - an interprocedural must-consume analysis over 75 token classes (summaries per production, specialised on constant '
     'keyword/operator arguments) shows that every trip through each of the parser\'s token-driven loops consumes a token. GATE: '
     'parse errors land in the error set the compile entry point tests. SAVE-CALL-RESTORE: the parser\'s type-parameter scope saved before a member is restored on every path after it. LOC-MODULE: the parser builds no location of the dummy module (union with a real one asserts). ROW-BY-FIELD-INDEX: the abstract pattern of an object-pattern element is stored in the exhaustiveness row at the index of its field (`field_order`), and nothing is appended to that row inside the loop over the elements (rows keep one column per field). Does not decide unbounded recursion or stack depth.',
     [lex_bounds.run, lex_bounds.run_int_range, shape.run_fabricate, shape.run_shape, gate.run_row_by_field_index, str_slice.run, gate.run_binder_write, parser_progress.run, gate.run_gate, scope.run_save_call_restore, loc_enclose.run_loc_module],
     ['lengths of in-memory slices are < 2^63 (usize additions on lengths do not overflow)',
      'A-05.1: parenthesised lists reaching a Tuple construction are non-empty'])
