"""Type-directed walks over the ADT table: which (ADT, variant, field) slots are reachable from an
instantiated root type, and which of them can hold a value of a target type."""
from .facts import Ty


def subst(t, env):
    """Substitute generic params (by param index) in t using env {index: Ty}."""
    if t.k == 'param':
        return env.get(t.extra, t)
    if not t.args:
        return t
    na = tuple(subst(a, env) for a in t.args)
    if na == t.args:
        return t
    return Ty(t.k, t.id, t.name, na, t.s, t.extra)


def adt_env(prog, adt, args):
    env = {}
    for pos, (name, idx) in enumerate(adt.generics):
        if pos < len(args):
            env[idx] = args[pos]
    return env


def tykey(t):
    """Hashable key ignoring printed strings (which differ after substitution)."""
    if t.k == 'adt':
        return ('adt', t.id, tuple(tykey(a) for a in t.args))
    if t.k == 'param':
        return ('param', t.extra)
    if t.k in ('prim', 'other', 'fndef', 'closure'):
        return (t.k, t.s if t.k != 'closure' else t.id)
    return (t.k, tuple(tykey(a) for a in t.args))


class Walk:
    def __init__(self, prog, is_target, stop=lambda t: False):
        self.prog = prog
        self.is_target = is_target
        self.stop = stop
        self._reach_memo = {}

    def reaches_target(self, t, _stack=None):
        """Can a value of type t contain (transitively) a value of a target type?"""
        k = tykey(t)
        if k in self._reach_memo:
            return self._reach_memo[k]
        if _stack is None:
            _stack = set()
        if k in _stack:
            return False
        if self.is_target(t):
            self._reach_memo[k] = True
            return True
        if self.stop(t):
            self._reach_memo[k] = False
            return False
        _stack.add(k)
        res = False
        if t.k == 'adt' and t.id in self.prog.adts:
            adt = self.prog.adts[t.id]
            env = adt_env(self.prog, adt, t.args)
            for v in adt.variants:
                for f in v.fields:
                    if self.reaches_target(subst(f.ty, env), _stack):
                        res = True
                        break
                if res:
                    break
        else:
            for a in t.args:
                if self.reaches_target(a, _stack):
                    res = True
                    break
        _stack.discard(k)
        # only memoise definitive answers computed at top level of recursion to stay sound with cycles
        if res or not _stack:
            self._reach_memo[k] = res
        return res

    def required_slots(self, root):
        """All (adt_id, variant_idx, field_idx) slots reachable from root whose type reaches a target.
        Returns dict slot -> info(field name, variant name, substituted type string, path example)."""
        out = {}
        seen = set()
        stack = [(root, '<root>')]
        while stack:
            t, via = stack.pop()
            k = tykey(t)
            if k in seen:
                continue
            seen.add(k)
            if self.stop(t):
                continue
            if t.k == 'adt' and t.id in self.prog.adts:
                adt = self.prog.adts[t.id]
                env = adt_env(self.prog, adt, t.args)
                for vi, v in enumerate(adt.variants):
                    for fi, f in enumerate(v.fields):
                        ft = subst(f.ty, env)
                        if self.is_target(t) and False:
                            continue
                        if self.reaches_target(ft):
                            slot = (adt.id, vi, fi)
                            if slot not in out:
                                out[slot] = dict(adt=adt.name, variant=v.name, field=f.name, ty=ft.s,
                                                 via=via, leaf=self.is_target(strip_containers(ft)))
                            stack.append((ft, f'{adt.name}::{v.name}.{f.name}'))
            else:
                for a in t.args:
                    stack.append((a, via))
        return out


def strip_containers(t):
    """Peel references and single-argument foreign containers (Vec, Option, Box, Arc, Rc)."""
    while True:
        if t.k in ('ref', 'ptr', 'slice', 'arr'):
            t = t.args[0]
            continue
        if t.k == 'adt' and t.name.split('<')[0] in (
                'std::vec::Vec', 'std::option::Option', 'std::boxed::Box', 'std::sync::Arc', 'std::rc::Rc') and t.args:
            t = t.args[0]
            continue
        return t
