"""Rule result records and shared MIR iteration helpers."""
from .callgraph import iter_operands_rvalue


class Instance:
    """One decided obligation. `key` identifies it without line numbers."""
    __slots__ = ('rule', 'key', 'status', 'where', 'msg', 'detail')

    def __init__(self, rule, key, status, where, msg, detail=None):
        assert status in ('ok', 'violation')
        self.rule = rule
        self.key = key
        self.status = status
        self.where = where
        self.msg = msg
        self.detail = detail

    def full_key(self):
        return f'{self.rule}|{self.key}'

    def to_json(self):
        return dict(rule=self.rule, key=self.key, status=self.status, where=self.where, msg=self.msg,
                    detail=self.detail)


class RuleResult:
    def __init__(self, rule, clause):
        self.rule = rule
        self.clause = clause
        self.instances = []
        self.analysed = {}      # what was looked at: counts and names
        self.samples = []

    def ok(self, key, where, msg, detail=None):
        self.instances.append(Instance(self.rule, key, 'ok', where, msg, detail))

    def violation(self, key, where, msg, detail=None):
        self.instances.append(Instance(self.rule, key, 'violation', where, msg, detail))

    def cannot_decide(self, what, where='-'):
        """Fail closed: an anchor or idiom the rule depends on is missing."""
        self.violation(f'cannot-decide:{what}', where,
                       f'cannot decide {self.rule}: {what} (anchor missing, ambiguous or unsupported construct)')

    def floor(self, what, got, minimum):
        """Vacuity guard. `minimum` is the number of instances counted by hand on the pinned tree. Refactors that merge
        duplicated code legitimately lower such counts, so the rule only fails closed when fewer than a third of them
        (at least one) are left: then it no longer looks at the code it was written for."""
        self.analysed[what] = got
        threshold = max(1, (minimum + 2) // 3)
        if got < threshold:
            self.violation(f'floor:{what}', '-',
                           f'{self.rule}: analysed only {got} {what}, fewer than a third of the {minimum} confirmed by hand; '
                           f'the rule would pass vacuously')


def places_read(body, include_cleanup=False):
    """Yield (place, bb, line) for every place mentioned on a rvalue/operand/terminator side, and
    assignment destinations with projections (field writes go through the field too)."""
    for bi, bl in enumerate(body.blocks):
        if bl.cleanup and not include_cleanup:
            continue
        for st in bl.stmts:
            k = st[0]
            if k == 'a':
                if st[1].proj:
                    yield st[1], bi, st[3]
                rv = st[2]
                if rv[0] == 'ref':
                    yield rv[2], bi, st[3]
                elif rv[0] in ('rawptr', 'disc', 'copyderef'):
                    yield rv[1], bi, st[3]
                for o in iter_operands_rvalue(rv):
                    if o[0] in ('c', 'm'):
                        yield o[1], bi, st[3]
            elif k in ('fr', 'sd'):
                yield st[1], bi, st[3]
            elif k == 'pm':
                yield st[1], bi, st[2]
        t = bl.term
        if t[0] == 'call':
            for o in t[3]:
                if o[0] in ('c', 'm'):
                    yield o[1], bi, t[7]
            if t[1][0] in ('c', 'm'):
                yield t[1][1], bi, t[7]
        elif t[0] == 'switch':
            if t[1][0] in ('c', 'm'):
                yield t[1][1], bi, t[4]
        elif t[0] == 'assert':
            if t[1][0] in ('c', 'm'):
                yield t[1][1], bi, t[5]


def field_reads(body):
    """Set of (adt_id, variant, field_idx) projected anywhere in non-cleanup code of body.
    PlaceMention / FakeRead of a *whole* matched value do not count as field reads, and wildcard
    patterns produce no projection at all, so `field: _` is not a read."""
    r = body._cache.get('freads')
    if r is not None:
        return r
    r = {}
    for pl, bi, line in places_read(body):
        for e in pl.proj:
            if e[0] == 'f':
                r.setdefault((e[1], e[2], e[3]), line)
    body._cache['freads'] = r
    return r


def calls_in(body, include_cleanup=False):
    from .facts import callee, callee_decl
    for bi, bl in enumerate(body.blocks):
        if bl.cleanup and not include_cleanup:
            continue
        t = bl.term
        if t[0] == 'call':
            yield bi, t, callee(t), callee_decl(t)


def short(name):
    """Readable short form of a def path for messages."""
    return name
