"""CFG utilities over decoded bodies. Cleanup (unwind) blocks and imaginary edges are excluded."""
from collections import deque


def succs(body, bb):
    t = body.blocks[bb].term
    k = t[0]
    if k == 'goto':
        return [t[1]]
    if k == 'switch':
        out = [x[1] for x in t[2]]
        out.append(t[3])
        return out
    if k == 'drop':
        return [t[3]]
    if k == 'call':
        return [t[5]] if t[5] is not None else []
    if k == 'assert':
        return [t[4]]
    if k == 'false_edge':
        return [t[1]]
    if k == 'false_unwind':
        return [t[1]]
    return []


def switch_edges(body, bb):
    """[(value or None for otherwise, target)] for a switch terminator."""
    t = body.blocks[bb].term
    assert t[0] == 'switch'
    out = [(v, tg) for v, tg in t[2]]
    out.append((None, t[3]))
    return out


class Cfg:
    def __init__(self, body):
        self.body = body
        n = len(body.blocks)
        self.n = n
        self.succ = [succs(body, i) for i in range(n)]
        self.pred = [[] for _ in range(n)]
        for i in range(n):
            for s in self.succ[i]:
                self.pred[s].append(i)
        self.reach = self._reach_from(0, set(), set())
        self.exits = [i for i in self.reach if body.blocks[i].term[0] == 'ret']

    def _reach_from(self, start, removed_nodes, removed_edges):
        if start in removed_nodes:
            return set()
        seen = {start}
        dq = deque([start])
        while dq:
            x = dq.popleft()
            for s in self.succ[x]:
                if s in seen or s in removed_nodes or (x, s) in removed_edges:
                    continue
                seen.add(s)
                dq.append(s)
        return seen

    def reachable(self, start=0, removed_nodes=(), removed_edges=()):
        return self._reach_from(start, set(removed_nodes), set(removed_edges))

    def nodes_dominate(self, doms, x):
        """Every path entry -> x passes through a node of doms (x itself counts)."""
        doms = set(doms)
        if x in doms:
            return True
        return x not in self._reach_from(0, doms, set())

    def edges_dominate(self, edges, x):
        """Every path entry -> x uses at least one of the edges."""
        return x not in self._reach_from(0, set(), set(edges))

    def nodes_postdominate(self, pdoms, x, exits=None):
        """Every path x -> return passes through a node of pdoms."""
        pdoms = set(pdoms)
        if x in pdoms:
            return True
        r = self._reach_from(x, pdoms, set())
        ex = self.exits if exits is None else exits
        return not any(e in r for e in ex)

    def can_reach(self, a, b, removed_nodes=()):
        return b in self._reach_from(a, set(removed_nodes), set())

    def dominators(self):
        """Classic iterative dominator sets (for small bodies)."""
        if hasattr(self, '_dom'):
            return self._dom
        nodes = sorted(self.reach)
        allset = set(nodes)
        dom = {x: set(allset) for x in nodes}
        dom[0] = {0}
        changed = True
        order = self.rpo()
        while changed:
            changed = False
            for x in order:
                if x == 0:
                    continue
                ps = [p for p in self.pred[x] if p in dom]
                new = set(allset)
                for p in ps:
                    new &= dom[p]
                new.add(x)
                if new != dom[x]:
                    dom[x] = new
                    changed = True
        self._dom = dom
        return dom

    def rpo(self):
        seen = set()
        order = []
        stack = [(0, iter(self.succ[0]))]
        seen.add(0)
        while stack:
            x, it = stack[-1]
            adv = False
            for s in it:
                if s not in seen:
                    seen.add(s)
                    stack.append((s, iter(self.succ[s])))
                    adv = True
                    break
            if not adv:
                order.append(x)
                stack.pop()
        order.reverse()
        return order

    def back_edges(self):
        dom = self.dominators()
        out = []
        for x in self.reach:
            for s in self.succ[x]:
                if s in dom.get(x, ()):  # s dominates x
                    out.append((x, s))
        return out


def cfg_of(body):
    c = body._cache.get('cfg')
    if c is None:
        c = Cfg(body)
        body._cache['cfg'] = c
    return c


def def_sites(body):
    """local -> list of (bb, stmt_index or 'term', rvalue-or-term) for whole-local assignments."""
    d = body._cache.get('defs')
    if d is not None:
        return d
    d = {}
    for bi, bl in enumerate(body.blocks):
        for si, st in enumerate(bl.stmts):
            if st[0] == 'a' and not st[1].proj:
                d.setdefault(st[1].local, []).append((bi, si, st[2]))
        t = bl.term
        if t[0] == 'call' and not t[4].proj:
            d.setdefault(t[4].local, []).append((bi, 'term', t))
    body._cache['defs'] = d
    return d


def single_def(body, local):
    ds = def_sites(body).get(local, [])
    nc = [x for x in ds if not body.blocks[x[0]].cleanup]
    if len(nc) == 1:
        return nc[0]
    return None


def reach_known_variants(body, start, blocked=(), dead_edges=(), cap=20000):
    """Blocks reachable from `start` without entering `blocked`, following at each discriminant switch only the edge that agrees
    with what the path itself established: a local assigned an enum aggregate (`x = Some(..)`, `x = None`) on the way has a known
    variant, carried through plain copies / moves, and a later `switch discriminant(x)` on the same path cannot take another arm.
    (Path-sensitive only in this one respect; everything else is plain reachability. Gives up - plain reachability - beyond `cap`
    states.)"""
    from .dataflow import root_local
    blocked = set(blocked)
    dead_edges = set(dead_edges)
    if start in blocked:
        return set()
    seen_states = set()
    reached = set()
    stack = [(start, frozenset())]
    while stack:
        bb, env = stack.pop()
        if (bb, env) in seen_states:
            continue
        seen_states.add((bb, env))
        if len(seen_states) > cap:
            c = cfg_of(body)
            return c._reach_from(start, blocked, dead_edges)
        reached.add(bb)
        e = dict(env)
        bl = body.blocks[bb]
        for st in bl.stmts:
            if st[0] != 'a':
                continue
            dst, rv = st[1], st[2]
            if dst.proj:
                e.pop(dst.local, None) if not any(p[0] in ('f', 't') for p in dst.proj) else None
                continue
            if rv[0] == 'agg' and rv[1][0] == 'adt':
                e[dst.local] = rv[1][2]
            elif rv[0] == 'use' and rv[1][0] in ('c', 'm') and not rv[1][1].proj and rv[1][1].local in e:
                e[dst.local] = e[rv[1][1].local]
            else:
                e.pop(dst.local, None)
        t = bl.term
        if t[0] == 'call' and t[4] is not None and not t[4].proj:
            e.pop(t[4].local, None)
        nxt = succs(body, bb)
        if t[0] == 'switch' and t[1][0] in ('c', 'm'):
            sd = single_def(body, t[1][1].local)
            if sd and sd[1] != 'term' and sd[2][0] == 'disc':
                pl = sd[2][1]
                key = pl.local if not any(p[0] in ('f', 't', 'v') for p in pl.proj) else None
                if key is not None and key not in e:
                    r, path = root_local(body, key)
                    key = r if not path else None
                if key is not None and key in e:
                    v = e[key]
                    tg = [x[1] for x in t[2] if x[0] == v]
                    nxt = tg if tg else [t[3]]
        fe = frozenset(e.items())
        for s in nxt:
            if s is None or s in blocked or (bb, s) in dead_edges or body.blocks[s].cleanup:
                continue
            stack.append((s, fe))
    return reached
