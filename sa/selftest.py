"""Thorough-tier self-test of the checker (analysis of mutated *source*; samlang itself is never run):
each prepared source edit is applied to a scratch copy of /repo outside /repo and /verif, facts are
extracted from the copy, and the property's rules must report exactly the expected instance (breaking
edits) or nothing new (behaviour-preserving edits)."""
import json, os, shutil, subprocess, sys, tempfile, time
from concurrent.futures import ThreadPoolExecutor

VERIF = os.path.dirname(os.path.dirname(os.path.abspath(__file__)))
REPO = os.environ.get('SAMLANG_REPO', '/repo')
MUT_DIR = os.path.join(VERIF, 'selftest', 'mutants')


def load_mutants(prop):
    idx = os.path.join(MUT_DIR, 'index.json')
    if not os.path.exists(idx):
        return []
    with open(idx) as f:
        return [m for m in json.load(f)['mutants'] if prop in m['properties']]


def extract_facts(repo_copy, out_dir, log):
    drv = os.path.join(VERIF, 'samfacts', 'target', 'debug', 'samfacts')
    sysroot = subprocess.check_output(['rustc', '+nightly', '--print', 'sysroot'], text=True).strip()
    target = os.path.join(os.path.dirname(out_dir), 'target')
    env = dict(os.environ)
    env.update(CARGO_NET_OFFLINE='true', RUSTFLAGS='-Zmir-opt-level=0 -Awarnings', RUSTC_WORKSPACE_WRAPPER=drv,
               SAMFACTS_OUT=out_dir, CARGO_TARGET_DIR=target, LD_LIBRARY_PATH=os.path.join(sysroot, 'lib'))
    env.pop('RUSTC_WRAPPER', None)
    r = subprocess.run(['cargo', '+nightly', 'check', '--offline', '--workspace', '-j', '6'], cwd=repo_copy, env=env,
                       stdout=subprocess.PIPE, stderr=subprocess.STDOUT, text=True)
    shutil.rmtree(target, ignore_errors=True)
    return r.returncode == 0, r.stdout[-1500:]


def run_one(m, prop, baseline_keys):
    from sa.facts import load_program
    from sa import registry
    t0 = time.time()
    scratch = tempfile.mkdtemp(prefix='samlang-selftest-')
    try:
        copy = os.path.join(scratch, 'repo')
        subprocess.run(['rsync', '-a', '--exclude', 'target', '--exclude', '.git', '--exclude', 'node_modules',
                        REPO + '/', copy + '/'], check=True)
        patch = os.path.join(MUT_DIR, m['patch'])
        r = subprocess.run(['patch', '-p1', '--no-backup-if-mismatch', '-s', '-f', '-i', patch], cwd=copy,
                           stdout=subprocess.PIPE, stderr=subprocess.STDOUT, text=True)
        if r.returncode != 0:
            return dict(name=m['name'], status='skipped', why='patch does not apply to the current tree: ' + r.stdout[-200:])
        facts = os.path.join(scratch, 'facts')
        os.makedirs(facts)
        ok, out = extract_facts(copy, facts, None)
        if not ok:
            return dict(name=m['name'], status='failed', why='mutant does not compile: ' + out[-300:])
        prog = load_program(facts)
        results = registry.run_property(prog, prop, 'quick', copy, static_only=True)
        viol = {i.full_key() for res in results for i in res.instances if i.status == 'violation'}
        new = viol - baseline_keys
        if m['kind'] == 'break':
            missing = [e for e in m['expect'] if not any(e in k for k in new)]
            if missing:
                return dict(name=m['name'], status='failed', why=f'expected instance(s) {missing} not reported; new violations: {sorted(new)[:5]}')
            return dict(name=m['name'], status='ok', fired=sorted(new)[:6], wall_s=round(time.time() - t0, 1))
        else:
            if new:
                return dict(name=m['name'], status='failed', why=f'behaviour-preserving edit raised {sorted(new)[:5]}')
            return dict(name=m['name'], status='ok', fired=[], wall_s=round(time.time() - t0, 1))
    finally:
        shutil.rmtree(scratch, ignore_errors=True)


def run(prop, log, baseline_keys=frozenset()):
    muts = load_mutants(prop)
    out = dict(mutants=len(muts), ok=0, skipped=0, failures=[], details=[])
    if not muts:
        return out
    with ThreadPoolExecutor(max_workers=3) as ex:
        rs = list(ex.map(lambda m: run_one(m, prop, set(baseline_keys)), muts))
    for r in rs:
        out['details'].append(r)
        if r['status'] == 'ok':
            out['ok'] += 1
        elif r['status'] == 'skipped':
            out['skipped'] += 1
        else:
            out['failures'].append(f"{r['name']}: {r['why']}")
        log(f"  selftest {r['name']}: {r['status']} {r.get('why', '')} {r.get('fired', '')}")
    return out
