"""Small def-use helpers over decoded MIR (flow-insensitive, based on single definitions of temporaries)."""
from .cfg import def_sites, single_def
from .facts import callee


def root_local(body, local, depth=0):
    """Follow `_t = &_x`, `_t = &mut (*_y)`, `_t = move _z`, `_t = copy _z` chains of single-def
    temporaries back to the local that owns the storage. Returns (local, field_path_tuple)."""
    path = ()
    seen = set()
    while depth < 64:
        depth += 1
        if local in seen:
            break
        seen.add(local)
        if 1 <= local <= body.nargs:
            break
        sd = single_def(body, local)
        if sd is None or sd[1] == 'term':
            break
        rv = sd[2]
        if rv[0] == 'ref' or rv[0] == 'copyderef' or rv[0] == 'rawptr':
            pl = rv[2] if rv[0] == 'ref' else rv[1]
        elif rv[0] == 'use' and rv[1][0] in ('c', 'm'):
            pl = rv[1][1]
        elif rv[0] == 'cast' and rv[2][0] in ('c', 'm'):
            pl = rv[2][1]
        else:
            break
        fields = tuple(e for e in pl.proj if e[0] in ('f', 't', 'v'))
        path = fields + path
        local = pl.local
    return local, path


def operand_root(body, op):
    if op[0] not in ('c', 'm'):
        return None, ()
    pl = op[1]
    loc, path = root_local(body, pl.local)
    fields = tuple(e for e in pl.proj if e[0] in ('f', 't', 'v'))
    return loc, path + fields


def field_names(path):
    out = []
    for e in path:
        if e[0] == 'f':
            out.append(e[4])
        elif e[0] == 't':
            out.append(str(e[1]))
        elif e[0] == 'v':
            out.append(f'<{e[2]}>')
    return tuple(out)


def call_sites(body, pred, include_cleanup=False):
    """[(bb, term)] for calls whose resolved-or-declared callee name satisfies pred."""
    from .facts import callee_decl
    out = []
    for bi, bl in enumerate(body.blocks):
        if bl.cleanup and not include_cleanup:
            continue
        t = bl.term
        if t[0] == 'call':
            n1 = callee(t)[1]
            n2 = callee_decl(t)[1]
            if (n1 and pred(n1)) or (n2 and pred(n2)):
                out.append((bi, t))
    return out


def switch_on_call_result(body, cfg, bb):
    """For a call block bb whose bool/enum result is switched on right after (possibly via moves and
    discriminant reads), return (switch_bb, term) or None."""
    t = body.blocks[bb].term
    if t[0] != 'call' or t[5] is None:
        return None
    dest = t[4].local
    cur = t[5]
    aliases = {dest}
    for _ in range(6):
        bl = body.blocks[cur]
        for st in bl.stmts:
            if st[0] == 'a' and not st[1].proj:
                rv = st[2]
                if rv[0] == 'use' and rv[1][0] in ('c', 'm') and rv[1][1].local in aliases and not rv[1][1].proj:
                    aliases.add(st[1].local)
                elif rv[0] == 'disc' and rv[1].local in aliases:
                    aliases.add(st[1].local)
                elif rv[0] == 'un' and rv[1] == 'Not' and rv[2][0] in ('c', 'm') and rv[2][1].local in aliases:
                    aliases.add(('not', st[1].local))
        tt = bl.term
        if tt[0] == 'switch' and tt[1][0] in ('c', 'm') and tt[1][1].local in aliases:
            return cur, tt
        if tt[0] in ('goto', 'false_edge', 'false_unwind'):
            cur = tt[1]
            continue
        return None
    return None


def through_capture(prog, b, r, path):
    """A place rooted in the environment of a closure (`(*_1).k ...`) is the k-th operand of the closure construction in the
    parent body: returns (parent body, root local there, parent path + rest of the path), or (b, r, path) unchanged."""
    if b.kind != 'closure' or r != 1 or not b.parent or b.parent not in prog.bodies:
        return b, r, path
    fs = [i for i, e in enumerate(path) if e[0] in ('f', 't')]
    if not fs:
        return b, r, path
    first = path[fs[0]]
    k = first[3] if first[0] == 'f' else first[1]
    pb = prog.bodies[b.parent]
    for bl in pb.blocks:
        if bl.cleanup:
            continue
        for st in bl.stmts:
            if st[0] == 'a' and st[2][0] == 'agg' and st[2][1][0] == 'closure' and st[2][1][1] == b.id and k < len(st[2][2]):
                o = st[2][2][k]
                if o[0] in ('c', 'm'):
                    r2, p2 = operand_root(pb, o)
                    return pb, r2, tuple(p2) + tuple(path[fs[0] + 1:])
    return b, r, path
