"""MIR-like text rendering of decoded bodies (for reports, replay files and debugging)."""


def place(pl):
    s = f'_{pl.local}'
    for e in pl.proj:
        k = e[0]
        if k == 'd':
            s = f'(*{s})'
        elif k == 'f':
            s = f'{s}.{e[4]}'
        elif k == 't':
            s = f'{s}.{e[1]}'
        elif k == 'v':
            s = f'({s} as {e[2]})'
        elif k == 'i':
            s = f'{s}[_{e[1]}]'
        elif k == 'c':
            s = f'{s}[{"-" if e[3] else ""}{e[1]} of {e[2]}]'
        elif k == 's':
            s = f'{s}[{e[1]}..{"-" if e[3] else ""}{e[2]}]'
        else:
            s = f'{s}.?'
    return s


def operand(o):
    if o[0] == 'c':
        return place(o[1])
    if o[0] == 'm':
        return 'move ' + place(o[1])
    if o[0] == 'k':
        c = o[1]
        return f'const {c.v}'
    return '?'


def rvalue(rv):
    k = rv[0]
    if k == 'use':
        return operand(rv[1])
    if k == 'repeat':
        return f'[{operand(rv[1])}; n]'
    if k == 'ref':
        return ('&', '&mut ', '&fake ')[rv[1]] + place(rv[2])
    if k == 'rawptr':
        return '&raw ' + place(rv[1])
    if k == 'disc':
        return f'discriminant({place(rv[1])})'
    if k == 'copyderef':
        return f'deref_copy {place(rv[1])}'
    if k == 'cast':
        return f'{operand(rv[2])} as {rv[3].s} ({rv[1]})'
    if k == 'bin':
        return f'{rv[1]}({operand(rv[2])}, {operand(rv[3])})'
    if k == 'un':
        return f'{rv[1]}({operand(rv[2])})'
    if k == 'agg':
        ak = rv[1]
        ops = ', '.join(operand(o) for o in rv[2])
        if ak[0] == 'adt':
            return f'{ak[1].split("::")[-1]}::{ak[3]} {{ {ops} }}'
        if ak[0] == 'closure':
            return f'closure {ak[1]} [{ops}]'
        return f'{ak[0]}({ops})'
    return str(rv[1])


def stmt(s):
    k = s[0]
    if k == 'a':
        return f'{place(s[1])} = {rvalue(s[2])}'
    if k == 'sd':
        return f'discriminant({place(s[1])}) = {s[2]}'
    if k == 'fr':
        return f'FakeRead({s[2]}, {place(s[1])})'
    if k == 'pm':
        return f'PlaceMention({place(s[1])})'
    return None


def term(t):
    k = t[0]
    if k == 'goto':
        return f'goto -> bb{t[1]}'
    if k == 'switch':
        arms = ', '.join(f'{v}: bb{b}' for v, b in t[2])
        return f'switchInt({operand(t[1])}) -> [{arms}, otherwise: bb{t[3]}]'
    if k == 'ret':
        return 'return'
    if k == 'drop':
        return f'drop({place(t[1])}: {t[2].s}) -> bb{t[3]}'
    if k == 'call':
        from .facts import callee
        name = callee(t)[1] or operand(t[1])
        args = ', '.join(operand(o) for o in t[3])
        tgt = f'bb{t[5]}' if t[5] is not None else '!'
        return f'{place(t[4])} = {name}({args}) -> {tgt}'
    if k == 'assert':
        m = t[3]
        if m[0] == 'bounds':
            md = f'bounds(len={operand(m[1])}, index={operand(m[2])})'
        elif m[0] == 'overflow':
            md = f'overflow {m[1]}({operand(m[2])}, {operand(m[3])})'
        elif m[0] in ('overflow_neg', 'div_zero', 'rem_zero'):
            md = f'{m[0]}({operand(m[1])})'
        else:
            md = m[1]
        return f'assert({"" if t[2] else "!"}{operand(t[1])}, {md}) -> bb{t[4]}'
    if k == 'false_edge':
        return f'falseEdge -> [real: bb{t[1]}, imaginary: bb{t[2]}]'
    if k == 'false_unwind':
        return f'falseUnwind -> bb{t[1]}'
    return k


def body(b, show_cleanup=False, show_types=True):
    out = [f'fn {b.name}  [{b.id}] {b.kind}{" pub" if b.pub else ""}  {b.loc()}  args={b.nargs}']
    if show_types:
        for i, t in enumerate(b.locals):
            n = b.var_name(i)
            out.append(f'    let _{i}: {t.s};' + (f'  // {n}' if n else ''))
    for i, bl in enumerate(b.blocks):
        if bl.cleanup and not show_cleanup:
            continue
        out.append(f'  bb{i}{" (cleanup)" if bl.cleanup else ""}:')
        for s in bl.stmts:
            r = stmt(s)
            if r:
                line = s[3] if s[0] in ('a', 'sd', 'fr') else s[2]
                out.append(f'      {r};  // L{line}')
        t = bl.term
        out.append(f'      {term(t)}')
    return '\n'.join(out)
