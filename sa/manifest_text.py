"""Per-property manifest wording (level, trusted base, technique) and not-applicable reasons."""

NOTES = ('Static analysis only. Every check rebuilds MIR facts from /repo\'s working tree (cargo +nightly check with the '
         'samfacts rustc driver, fresh target dir, cached per source hash under /verif/.work) and decides structural '
         'necessary conditions of the property. Known genuine defects are listed in /verif/known_findings.json by '
         'instance key; see DESIGN.md.')

_L = ('Structural necessary condition decided on the type-checked program (rustc MIR + ADT layouts), reporting a '
      'specific function/field/call site. Not a behavioural proof: if a clause is broken the property is broken for some '
      'input; if all clauses hold the property may still fail for value-level reasons. ')
_N = ('Trusted: rustc nightly MIR construction and type information; the frozen exemption / semantic tables in sa/rules '
      '(one reason per row). Assumes dev-profile MIR (overflow checks on).')

TEXT = {
    'C01': dict(level=_L + 'Clauses: traversal completeness of every lowering pass over HIR/MIR/LIR statements and the typed source AST.',
                design_ref='DESIGN.md §3.1, §3.11', note=_N,
                technique='type-directed visitor-completeness analysis over rustc MIR (field-projection sets vs ADT type walk)'),
    'C02': dict(level=_L + 'Clauses: traversal completeness of every optimisation pass over mid-level statements.',
                design_ref='DESIGN.md §3.1, §3.7', note=_N,
                technique='type-directed visitor-completeness analysis over rustc MIR; discriminant-switch table extraction; taint dataflow'),
    'C03': dict(level=_L, design_ref='DESIGN.md §3.5, §3.7', note=_N, technique='taint dataflow to Assert terminators; who-may-construct rules over MIR aggregates'),
    'C04': dict(level=_L, design_ref='DESIGN.md §3.8', note=_N, technique='discriminant-switch table extraction from two sibling emitters and comparison against a semantic equivalence table'),
    'C05': dict(level=_L, design_ref='DESIGN.md §3.5, §3.6', note=_N, technique='zone abstract interpretation of the byte-level lexer; dominance rules for fabricated tokens'),
    'C06': dict(level=_L + 'Clauses: checker and scope analysis visit every child; lowering is gated by the error-set test.',
                design_ref='DESIGN.md §3.1, §3.10', note=_N,
                technique='dominance / who-may-call analysis over rustc MIR; visitor-completeness analysis'),
    'C08': dict(level=_L + 'Clauses: printer visits every syntax slot; parser and printer precedence tables are order-isomorphic; literal escaping parity.',
                design_ref='DESIGN.md §3.1, §3.9', note=_N,
                technique='visitor-completeness analysis; table extraction from MIR discriminant switches and call-chain ranking'),
    'C09': dict(level=_L + 'Clauses: printer reads every comment slot; parser never drops a possibly non-empty comment vector on a non-error path.',
                design_ref='DESIGN.md §3.1, §3.5', note=_N,
                technique='visitor-completeness analysis; linear-resource typestate dataflow over MIR drops; must-pass-through (all paths) rule for comment tokens in the token pump; key-closure provenance for the import sort'),
    'C10': dict(level=_L, design_ref='DESIGN.md §3.4', note=_N, technique='dominance and def-use rules over the three state mutators'),
    'C11': dict(level=_L + 'Clauses: GC marker visits every string slot; request-path map lookups are justified by a dominating lookup.',
                design_ref='DESIGN.md §3.1, §3.2', note=_N,
                technique='type-directed visitor-completeness analysis; dominance analysis of unwrap sites; predicate-shape rule for unwrapped searches; compile-fail witnesses'),
    'C15': dict(level=_L + 'Clauses: renamer and scope analysis visit every identifier/expression/pattern child; navigation uses the checker\'s own SSA result.',
                design_ref='DESIGN.md §3.1, §3.12', note=_N,
                technique='visitor-completeness analysis; who-computes call-graph rule; path rule on discriminant switches of child nodes (unnamed variants must reach the visitor); who-may-propagate rule for `?` in the cursor search'),
    'C12': dict(level=_L + 'Clause decided: the content of rendered diagnostics does not depend on hash seeds (no hash-iteration order reaches an error report argument); temp-name counters are synchronised on every path; no branch of the code reachable from the closures given to the rayon adapters depends on state shared between workers; no stable keyed sort over hash entries uses a lossy key. Not decided: equivalence of the programs emitted under different module enumeration orders or thread counts.',
                design_ref='DESIGN.md §3 (ORDER-TAINT, COUNTER-SYNC)', note=_N,
                technique='interprocedural order-taint dataflow from HashMap/HashSet iteration to error-report arguments over rustc MIR; path rule for counter synchronisation; taint dataflow from atomic / lock reads to branch conditions inside the call-graph region of the parallel closures; key-closure provenance for sorts over hash entries'),
    'C14': dict(level=_L + 'Clauses decided: a node location built by the parser encloses its sub-parts; an identifier takes location and name from one token. Not decided: the lexer\'s line/column bookkeeping, positions inside the document, sibling overlap.',
                design_ref='DESIGN.md §3 (LOC-ENCLOSES, NAME-LOC-PAIR)', note=_N,
                technique='provenance dataflow of Location values (token / child / union sources with their program points) over the parser MIR, checked by set dominance at each node construction'),
    'C17': dict(level=_L, design_ref='DESIGN.md §3.3', note=_N, technique='who-writes / dominance rules over the heap crate MIR; constant agreement between sibling encoders/decoders; compile-fail witnesses'),
}

NOT_APPLICABLE = {
    'C07': 'exactness of the pattern usefulness algorithm is algorithmic correctness over an infinite data domain; no clause of it is visible in the shape of the code beyond what rustc\'s exhaustive match already enforces (DESIGN.md §5)',
    'C13': 'metamorphic relation between two checker runs on two programs; the decisions are value dependent (hint flow, first solution wins); no structural necessary condition in reach (DESIGN.md §5)',
    'C16': 'property of strings obtained by splicing pretty-printed fragments into arbitrary text at AST-derived ranges; not a property of code shape (DESIGN.md §5)',
    'C18': 'functional correctness of samlang-source AVL collections over all operation sequences; outside what a structural analysis of the Rust toolchain can establish (DESIGN.md §5)',
}
