"""Zone (difference-bound matrix) abstract domain: constraints v_i - v_j <= c over integer variables,
with v_0 the constant 0. Used only by LEX-BOUNDS."""

INF = float('inf')


class Zone:
    __slots__ = ('n', 'm', 'bottom')

    def __init__(self, n, m=None, bottom=False):
        self.n = n
        self.bottom = bottom
        if m is None:
            m = [[INF] * n for _ in range(n)]
            for i in range(n):
                m[i][i] = 0
        self.m = m

    def copy(self):
        return Zone(self.n, [row[:] for row in self.m], self.bottom)

    @staticmethod
    def make_bottom(n):
        z = Zone(n)
        z.bottom = True
        return z

    # ---- constraints -------------------------------------------------------------------------
    def add(self, i, j, c):
        """v_i - v_j <= c, with incremental closure."""
        if self.bottom:
            return
        m = self.m
        if c >= m[i][j]:
            return
        if m[j][i] + c < 0:
            self.bottom = True
            return
        m[i][j] = c
        n = self.n
        # incremental closure: paths through the new edge i -> j
        col_i = [m[k][i] for k in range(n)]
        row_j = m[j]
        for k in range(n):
            a = col_i[k]
            if a == INF:
                continue
            ac = a + c
            mk = m[k]
            for l in range(n):
                b = row_j[l]
                if b == INF:
                    continue
                v = ac + b
                if v < mk[l]:
                    mk[l] = v
        for k in range(n):
            if m[k][k] < 0:
                self.bottom = True
                return

    def close(self):
        if self.bottom:
            return
        n, m = self.n, self.m
        for k in range(n):
            mk = m[k]
            for i in range(n):
                a = m[i][k]
                if a == INF:
                    continue
                mi = m[i]
                for j in range(n):
                    b = mk[j]
                    if b == INF:
                        continue
                    v = a + b
                    if v < mi[j]:
                        mi[j] = v
        for i in range(n):
            if m[i][i] < 0:
                self.bottom = True
                return

    def forget(self, x):
        if self.bottom:
            return
        m = self.m
        for k in range(self.n):
            if k != x:
                m[x][k] = INF
                m[k][x] = INF

    def assign_var(self, x, y, c=0):
        """v_x := v_y + c"""
        if self.bottom:
            return
        if x == y:
            self.shift(x, c)
            return
        self.forget(x)
        self.add(x, y, c)
        self.add(y, x, -c)

    def assign_const(self, x, c):
        self.assign_var(x, 0, c)

    def shift(self, x, c):
        """v_x := v_x + c"""
        if self.bottom or c == 0:
            return
        m = self.m
        for k in range(self.n):
            if k != x:
                if m[x][k] != INF:
                    m[x][k] += c
                if m[k][x] != INF:
                    m[k][x] -= c

    # ---- lattice -----------------------------------------------------------------------------
    def join(self, o):
        if self.bottom:
            return o.copy()
        if o.bottom:
            return self.copy()
        n = self.n
        m = [[max(self.m[i][j], o.m[i][j]) for j in range(n)] for i in range(n)]
        return Zone(n, m)

    def widen(self, o):
        """self widened by o (o is the newer, larger state)."""
        if self.bottom:
            return o.copy()
        if o.bottom:
            return self.copy()
        n = self.n
        m = [[(self.m[i][j] if o.m[i][j] <= self.m[i][j] else INF) for j in range(n)] for i in range(n)]
        return Zone(n, m)

    def leq(self, o):
        if self.bottom:
            return True
        if o.bottom:
            return False
        n = self.n
        for i in range(n):
            a, b = self.m[i], o.m[i]
            for j in range(n):
                if a[j] > b[j]:
                    return False
        return True

    # ---- queries -----------------------------------------------------------------------------
    def entails(self, i, j, c):
        """Does the zone imply v_i - v_j <= c ?"""
        return self.bottom or self.m[i][j] <= c

    def bounds(self, x):
        """(lo, hi) of v_x."""
        if self.bottom:
            return (INF, -INF)
        return (-self.m[0][x], self.m[x][0])
