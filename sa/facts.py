"""Loading and decoding of samfacts JSON into Python tuples.

All ids are canonical strings `<crate>::<verbose def path>`; types are hashable `Ty` tuples.
Nothing here matches on source text or line numbers; lines are carried for reporting only.
"""
import json, os, pickle, sys
from collections import namedtuple

sys.setrecursionlimit(10000)

Ty = namedtuple('Ty', 'k id name args s extra')
# k: adt|ref|ptr|tup|slice|arr|param|prim|fndef|closure|other
Place = namedtuple('Place', 'local proj')
Const = namedtuple('Const', 'ty v i fn ga u')
Adt = namedtuple('Adt', 'id name kind pub generics file line variants crate')
Variant = namedtuple('Variant', 'name fields')
Field = namedtuple('Field', 'name ty pub')


class Body:
    __slots__ = ('id', 'name', 'kind', 'parent', 'pub', 'self_ty', 'trait', 'file', 'line', 'nargs',
                 'locals', 'vars', 'blocks', 'crate', '_cache')

    def __init__(self):
        self._cache = {}

    def __repr__(self):
        return f'<Body {self.name}>'

    def loc(self, line=None):
        return f'{self.file}:{line if line is not None else self.line}'

    def var_name(self, local):
        for n, pl in self.vars:
            if pl.local == local and not pl.proj:
                return n
        return None

    def local_desc(self, local):
        n = self.var_name(local)
        return f'_{local}' + (f'({n})' if n else '')


class Block:
    __slots__ = ('cleanup', 'stmts', 'term')


class CrateDecoder:
    def __init__(self, raw):
        self.raw = raw
        self.S = raw['strs']
        self.T = raw['types']
        self.tcache = {}
        self.crate = raw['crate']

    def ty(self, i):
        t = self.tcache.get(i)
        if t is not None:
            return t
        r = self.T[i]
        k = r[0]
        S = self.S
        if k == 'adt':
            t = Ty('adt', S[r[1]], S[r[2]], tuple(self.ty(a) for a in r[3]), S[r[4]], None)
        elif k in ('ref', 'ptr'):
            t = Ty(k, None, None, (self.ty(r[1]),), S[r[3]], r[2])
        elif k == 'tup':
            t = Ty('tup', None, None, tuple(self.ty(a) for a in r[1]), S[r[2]], None)
        elif k in ('slice', 'arr'):
            t = Ty(k, None, None, (self.ty(r[1]),), S[r[2]], None)
        elif k == 'param':
            t = Ty('param', None, S[r[1]], (), S[r[3]], r[2])
        elif k == 'prim':
            t = Ty('prim', None, S[r[1]], (), S[r[1]], None)
        elif k in ('fndef', 'closure'):
            t = Ty(k, S[r[1]], None, (), S[r[2]], None)
        else:
            t = Ty('other', None, None, (), S[r[1]], None)
        self.tcache[i] = t
        return t

    def place(self, r):
        S = self.S
        proj = []
        for e in r[1]:
            k = e[0]
            if k == 'f':
                proj.append(('f', S[e[1]], e[2], e[3], S[e[4]], self.ty(e[5])))
            elif k == 't':
                proj.append(('t', e[1], self.ty(e[2])))
            elif k == 'v':
                proj.append(('v', e[1], S[e[2]]))
            else:
                proj.append(tuple(e))
        return Place(r[0], tuple(proj))

    def const(self, r):
        S = self.S
        fn = (S[r['fn'][0]], S[r['fn'][1]]) if r['fn'] is not None else None
        return Const(self.ty(r['t']), S[r['v']], int(r['i']) if r['i'] is not None else None, fn,
                     S[r['ga']] if r['ga'] is not None else None,
                     S[r['u']] if r['u'] is not None else None)

    def operand(self, r):
        k = r[0]
        if k in ('c', 'm'):
            return (k, self.place(r[1]))
        if k == 'k':
            return ('k', self.const(r[1]))
        return ('o',)

    def rvalue(self, r):
        k = r[0]
        S = self.S
        if k in ('use', 'repeat'):
            return (k, self.operand(r[1]))
        if k == 'ref':
            return ('ref', r[1], self.place(r[2]))
        if k in ('rawptr', 'disc', 'copyderef'):
            return (k, self.place(r[1]))
        if k == 'cast':
            return ('cast', S[r[1]], self.operand(r[2]), self.ty(r[3]))
        if k == 'bin':
            return ('bin', S[r[1]], self.operand(r[2]), self.operand(r[3]))
        if k == 'un':
            return ('un', S[r[1]], self.operand(r[2]))
        if k == 'agg':
            ak = r[1]
            if ak[0] == 'adt':
                akd = ('adt', S[ak[1]], ak[2], S[ak[3]], ak[4])
            elif ak[0] == 'closure':
                akd = ('closure', S[ak[1]])
            else:
                akd = (ak[0],)
            return ('agg', akd, tuple(self.operand(o) for o in r[2]))
        return ('other', S[r[1]])

    def stmt(self, r):
        k = r[0]
        if k == 'a':
            return ('a', self.place(r[1]), self.rvalue(r[2]), r[3], r[4])
        if k == 'sd':
            return ('sd', self.place(r[1]), r[2], r[3], r[4])
        if k == 'fr':
            return ('fr', self.place(r[1]), self.S[r[2]], r[3], r[4])
        if k == 'pm':
            return ('pm', self.place(r[1]), r[2], r[3])
        return tuple(r)

    def term(self, r):
        k = r[0]
        S = self.S
        if k == 'switch':
            return ('switch', self.operand(r[1]), tuple((int(v), bb) for v, bb in r[2]), r[3], r[4], r[5])
        if k == 'drop':
            return ('drop', self.place(r[1]), self.ty(r[2]), r[3], r[4], r[5], r[6])
        if k == 'call':
            res = (S[r[2][0]], S[r[2][1]], r[2][2]) if r[2] is not None else None
            return ('call', self.operand(r[1]), res, tuple(self.operand(o) for o in r[3]), self.place(r[4]),
                    r[5], r[6], r[7], r[8], r[9])
        if k == 'assert':
            m = r[3]
            mk = m[0]
            if mk == 'bounds':
                md = ('bounds', self.operand(m[1]), self.operand(m[2]))
            elif mk == 'overflow':
                md = ('overflow', S[m[1]], self.operand(m[2]), self.operand(m[3]))
            elif mk in ('overflow_neg', 'div_zero', 'rem_zero'):
                md = (mk, self.operand(m[1]))
            else:
                md = ('other', S[m[1]])
            return ('assert', self.operand(r[1]), r[2], md, r[4], r[5], r[6])
        if k == 'other':
            return ('other', S[r[1]])
        return tuple(r)

    def body(self, r):
        S = self.S
        b = Body()
        b.id = S[r['id']]
        b.name = S[r['p']]
        b.kind = r['k']
        b.parent = S[r['parent']] if r['parent'] is not None else None
        b.pub = r['pub']
        b.self_ty = self.ty(r['self']) if r['self'] is not None else None
        b.trait = S[r['trait']] if r['trait'] is not None else None
        b.file = S[r['file']]
        b.line = r['line']
        b.nargs = r['nargs']
        b.locals = [self.ty(t) for t in r['locals']]
        b.vars = [(S[n], self.place(p)) for n, p in r['vars']]
        b.crate = self.crate
        blocks = []
        for rb in r['blocks']:
            bl = Block()
            bl.cleanup = bool(rb['c'])
            bl.stmts = [self.stmt(s) for s in rb['s']]
            bl.term = self.term(rb['t'])
            blocks.append(bl)
        b.blocks = blocks
        return b

    def adt(self, r):
        S = self.S
        variants = []
        for vn, fields in r['vars']:
            variants.append(Variant(S[vn], tuple(Field(S[f[0]], self.ty(f[1]), f[2]) for f in fields)))
        return Adt(S[r['id']], S[r['p']], r['k'], r['pub'], tuple((S[g[0]], g[1]) for g in r['g']),
                   S[r['file']], r['line'], tuple(variants), self.crate)


class Program:
    def __init__(self):
        self.bodies = {}
        self.adts = {}
        self.crates = []
        self.closures_of = {}

    def add_crate(self, raw):
        d = CrateDecoder(raw)
        self.crates.append(d.crate)
        for r in raw['adts']:
            a = d.adt(r)
            self.adts[a.id] = a
        for r in raw['bodies']:
            b = d.body(r)
            self.bodies[b.id] = b
            if b.parent:
                self.closures_of.setdefault(b.parent, []).append(b.id)

    def bodies_in(self, prefix):
        return [b for b in self.bodies.values() if b.name.startswith(prefix)]

    def find_bodies(self, pred):
        return [b for b in self.bodies.values() if pred(b)]

    def body_by_name(self, name):
        r = [b for b in self.bodies.values() if b.name == name]
        return r

    def adt_by_name(self, name):
        r = [a for a in self.adts.values() if a.name == name]
        return r[0] if len(r) == 1 else None


def load_program(facts_dir):
    cache = os.path.join(facts_dir, 'program.pkl')
    if os.path.exists(cache):
        try:
            with open(cache, 'rb') as f:
                return pickle.load(f)
        except Exception:
            pass
    prog = Program()
    for fn in sorted(os.listdir(facts_dir)):
        if fn.endswith('.json'):
            with open(os.path.join(facts_dir, fn)) as f:
                prog.add_crate(json.load(f))
    tmp = cache + f'.tmp{os.getpid()}'
    with open(tmp, 'wb') as f:
        pickle.dump(prog, f, protocol=pickle.HIGHEST_PROTOCOL)
    os.replace(tmp, cache)
    return prog


# ---- small helpers over decoded tuples ----

def callee(term):
    """(id, name) of the resolved callee of a call terminator, or (None, None)."""
    if term[0] != 'call':
        return (None, None)
    if term[2] is not None:
        return (term[2][0], term[2][1])
    f = term[1]
    if f[0] == 'k' and f[1].fn is not None:
        return f[1].fn
    return (None, None)


def callee_decl(term):
    """(id, name) of the *declared* callee (trait method before resolution)."""
    f = term[1]
    if f[0] == 'k' and f[1].fn is not None:
        return f[1].fn
    return (None, None)


def op_place(op):
    return op[1] if op[0] in ('c', 'm') else None


def op_const(op):
    return op[1] if op[0] == 'k' else None


def ty_mentions(t, pred, seen=None):
    """True if type t (structurally, through generic args) contains a Ty satisfying pred."""
    if pred(t):
        return True
    return any(ty_mentions(a, pred) for a in t.args)


def strip_refs(t):
    while t.k in ('ref', 'ptr'):
        t = t.args[0]
    return t
