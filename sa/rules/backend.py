"""C04 rules: BACKEND-OP-TABLE and TS-SPLICE (DESIGN.md §3.8)."""
import re
from ..core import RuleResult
from ..cfg import cfg_of, single_def
from ..dataflow import operand_root, root_local, call_sites
from ..facts import callee
from ..tables import enum_switches, arm_regions
from .optimizer import wasm_op_table, _adt, BINOP, WASM_SEM

# JavaScript forms that compute, on int32-range operands, what the wasm opcode computes (one reason per row)
JS_SYMBOL = {
    'mul': {'*'}, 'div_s': {'/'}, 'rem_s': {'%'},     # JS % is a truncated remainder with the sign of the dividend = rem_s
    'add': {'+'}, 'sub': {'-'}, 'and': {'&'}, 'or': {'|'}, 'xor': {'^'}, 'shl': {'<<'},
    'shr_u': {'>>>'}, 'shr_s': {'>>'},
    'lt_s': {'<'}, 'le_s': {'<='}, 'gt_s': {'>'}, 'ge_s': {'>='},   # JS compares int32-range numbers like signed ints
    'eq': {'==', '==='}, 'ne': {'!=', '!=='},
}
TRUNCATING_WRAPPERS = {'Math.trunc('}          # Math.trunc(a / b) == i32.div_s for all non-overflowing operands
BOOL_TO_INT_WRAPPERS = {'Number('}             # Number(true) == 1, Number(false) == 0, as the i32 comparison results
WRAPPER_RE = re.compile(r'^[A-Za-z_][A-Za-z0-9_.]*\($')


def _js_tables(prog):
    binop = _adt(prog, BINOP)
    sym = None
    wrappers = None
    emitter = None
    for b in prog.bodies.values():
        if b.crate != 'samlang_ast':
            continue
        for tb in enum_switches(prog, b, binop.id):
            if len(tb.arms) < len(binop.variants):
                continue
            regions, _ = arm_regions(b, tb)
            per = {}
            for v in range(len(binop.variants)):
                consts = []
                for bi in sorted(regions[v]):
                    bl = b.blocks[bi]
                    for st in bl.stmts:
                        if st[0] == 'a' and st[2][0] == 'use' and st[2][1][0] == 'k' and st[2][1][1].ty.s == '&str':
                            consts.append(st[2][1][1].v.strip('"'))
                    t = bl.term
                    if t[0] == 'call':
                        for o in t[3][1:]:
                            if o[0] == 'k' and o[1].ty.s == '&str':
                                consts.append(o[1].v.strip('"'))
                per[v] = consts
            if '::hir::' in b.name and b.locals[0].s.endswith('str') and all(len(per[v]) == 1 for v in per):
                sym = ({v: per[v][0] for v in per}, b)
            elif '::lir::' in b.name and any(per[v] for v in per) and b.locals[0].s == '()':
                wrappers = ({v: [c for c in per[v] if WRAPPER_RE.match(c)] for v in per}, b)
                extra = {v: per[v] for v in per}
                emitter = (b, extra)
    return sym, wrappers, emitter


def run_op_table(prog, tier, repo):
    res = RuleResult('BACKEND-OP-TABLE', 'C04: per operator, the TypeScript form and the WebAssembly opcode compute the same '
                     'value on every pair of 32-bit operands')
    binop = _adt(prog, BINOP)
    if binop is None:
        res.cannot_decide('hir::BinaryOperator')
        return [res]
    wtable, wbody = wasm_op_table(prog, res)
    sym, wrappers, emitter = _js_tables(prog)
    if wtable is None or sym is None or wrappers is None:
        res.cannot_decide('operator tables (wasm mnemonic / JS symbol / JS wrapper) in samlang_ast')
        return [res]
    symt, symb = sym
    wrapt, wrapb = wrappers
    for v, var in enumerate(binop.variants):
        key = f'op:{var.name}'
        mn = wtable[v]
        js = symt[v]
        ws = set(wrapt[v])
        extra = emitter[1][v]
        if mn not in JS_SYMBOL:
            res.cannot_decide(f'no semantic row for wasm mnemonic {mn}')
            continue
        problems = []
        # string comparison path appends "=" to the symbol: "==" + "= " -> "==="
        if js not in JS_SYMBOL[mn]:
            problems.append(f'JS operator `{js}` is not the JavaScript counterpart of i32.{mn} {sorted(JS_SYMBOL[mn])}')
        if mn in ('div_s', 'div_u'):
            if not (ws & TRUNCATING_WRAPPERS) and not any('| 0' in c or '|0' in c or '~~' in c for c in extra):
                problems.append(f'JS emits {"".join(sorted(ws)) or "a bare `/`"}a {js} b) but i32.{mn} truncates toward zero: '
                                f'Math.floor differs for every inexact quotient with operands of opposite sign (-7 / 2: -4 vs -3)')
            bad = ws - TRUNCATING_WRAPPERS
            if bad and not problems:
                problems.append(f'unexpected wrapper(s) {sorted(bad)} around a division')
        elif mn in ('lt_s', 'le_s', 'gt_s', 'ge_s', 'eq', 'ne'):
            bad = ws - BOOL_TO_INT_WRAPPERS
            if bad:
                problems.append(f'wrapper(s) {sorted(bad)} change the comparison result')
        else:
            if ws:
                problems.append(f'wrapper(s) {sorted(ws)} around `{js}` change the value i32.{mn} computes')
        if problems:
            res.violation(key, wrapb.loc(), f'{var.name}: wasm emits i32.{mn}, TypeScript emits {"".join(sorted(ws))}a {js} b'
                          f'{")" if ws else ""}: ' + '; '.join(problems))
        else:
            res.ok(key, wrapb.loc(), f'i32.{mn} <=> {"".join(sorted(ws))}a {js} b{")" if ws else ""}')
    # sibling operators of one family are emitted through the same JS shape (they only differ in the operator symbol):
    # e.g. the by-value string comparison `a[1] === b[1]` must exist for `!=` exactly as for `==`, since the wasm side
    # routes both through the same string-equality routine
    names = [v.name for v in binop.variants]
    extra = emitter[1]
    for family in (('EQ', 'NE'), ('LT', 'LE', 'GT', 'GE'), ('PLUS', 'MINUS', 'MUL', 'LAND', 'LOR', 'XOR', 'SHL', 'SHR', 'MOD')):
        idx = [names.index(n) for n in family if n in names]
        sigs = {names[i]: tuple(sorted(extra[i])) for i in idx}
        ref = max(set(sigs.values()), key=lambda s_: list(sigs.values()).count(s_))
        for n in sorted(sigs):
            key = f'sibling-shape:{n}'
            if sigs[n] == ref:
                res.ok(key, wrapb.loc(), f'{n} is emitted through the same TypeScript shape as its siblings {family}')
            else:
                missing = sorted(set(ref) - set(sigs[n]))
                added = sorted(set(sigs[n]) - set(ref))
                res.violation(key, wrapb.loc(), f'{n} is emitted through a different TypeScript shape than its siblings {family} '
                              f'(missing fragments {missing}, extra {added}) although WebAssembly lowers the whole family the same '
                              f'way: e.g. a by-value string comparison that exists for `==` but not for `!=` compares object '
                              f'identity in TypeScript and contents in WebAssembly')
    res.analysed['tables_from'] = [wbody.name, symb.name, wrapb.name]
    return [res]


def run_ts_splice(prog, tier, repo):
    res = RuleResult('TS-SPLICE', 'C03/C04: the emitted TypeScript is syntactically valid and denotes the same string constants '
                     'as the WebAssembly data segment - user string bytes never reach a JS template literal unsanitised')
    n = 0
    for b in prog.bodies.values():
        if b.crate != 'samlang_ast' or '::lir::' not in b.name:
            continue
        pushes = []   # (bb, const string or None, term)
        for bi, t in call_sites(b, lambda nm: nm.endswith('String::push_str')):
            o = t[3][1]
            c = o[1].v.strip('"') if o[0] == 'k' else None
            if o[0] in ('c', 'm'):
                # constant passed through a temporary
                r, p = operand_root(b, o)
                sd = single_def(b, r)
                if sd and sd[1] != 'term' and sd[2][0] == 'use' and sd[2][1][0] == 'k':
                    c = sd[2][1][1].v.strip('"')
            pushes.append((bi, c, t))
        opens = [bi for bi, c, t in pushes if c is not None and c.endswith('`') and c.count('`') % 2 == 1]
        closes = [bi for bi, c, t in pushes if c is not None and c.startswith('`') and c.count('`') % 2 == 1]
        if not opens or not closes:
            continue
        cfg = cfg_of(b)
        for bi, c, t in pushes:
            if c is not None:
                continue
            if not (cfg.nodes_dominate(opens, bi) and any(cfg.can_reach(bi, cl) for cl in closes)
                    and not cfg.nodes_dominate(closes, bi)):
                continue
            n += 1
            r, p = operand_root(b, t[3][1])
            sd = single_def(b, r)
            src = callee(sd[2])[1] if sd and sd[1] == 'term' else None
            key = f'template-literal:{b.name}'
            if src and re.search(r'escape|sanitiz|quote|replace', src, re.I):
                res.ok(key, b.loc(t[7]), f'content passes through {src} before the template literal')
            else:
                res.violation(key, b.loc(t[7]), f'{b.name} splices the raw text of a string constant ({src or "unsanitised value"}) '
                              f'between backticks: a literal containing a backtick or `${{` yields invalid or interpolating '
                              f'TypeScript, and `\\n` is two characters in the WASM data segment but a newline in the template '
                              f'literal')
    res.floor('non-constant pushes inside a template literal', n, 1)
    return [res]


def run_segment_units(prog, tier, repo):
    """DATA-SEGMENT-UNITS (C04/C01): offsets and lengths of string constants in the wasm data segment are byte
    quantities (the segment holds the UTF-8 bytes and the loader decodes byte-wise); a character count must never
    flow into them."""
    from ..callgraph import iter_operands_rvalue
    res = RuleResult('DATA-SEGMENT-UNITS', 'C04: both back ends denote the same string constants - positions in the wasm data '
                     'segment are counted in bytes, never in characters')
    target = [a for a in prog.adts.values() if a.name == 'samlang_ast::wasm::GlobalGcString']
    if len(target) != 1:
        res.cannot_decide('wasm::GlobalGcString')
        return [res]
    target = target[0]
    n = 0
    for b in prog.bodies.values():
        if b.crate != 'samlang_compiler':
            continue
        aggs = [(bi, st) for bi, bl in enumerate(b.blocks) if not bl.cleanup for st in bl.stmts
                if st[0] == 'a' and st[2][0] == 'agg' and st[2][1][0] == 'adt' and st[2][1][1] == target.id]
        if not aggs:
            continue
        # character-count taint inside this body
        chars = set()
        for bl in b.blocks:
            t = bl.term
            if t[0] == 'call' and not t[4].proj:
                nm = callee(t)[1] or ''
                if nm.endswith(('Iterator::count', '::count')) and t[3]:
                    at = b.locals[t[3][0][1].local] if t[3][0][0] in ('c', 'm') else None
                    if at is not None and ('Chars' in at.s or 'CharIndices' in at.s):
                        chars.add(t[4].local)
        changed = True
        while changed:
            changed = False
            for bl in b.blocks:
                for st in bl.stmts:
                    if st[0] == 'a':
                        if any(o[0] in ('c', 'm') and o[1].local in chars for o in iter_operands_rvalue(st[2])):
                            if st[1].local not in chars:
                                chars.add(st[1].local)
                                changed = True
                t = bl.term
                if t[0] == 'call' and not t[4].proj and t[4].local not in chars:
                    nm = (callee(t)[1] or '').split('::')[-1]
                    if nm in ('wrapping_add', 'checked_add', 'saturating_add', 'max', 'min', 'unwrap', 'into', 'try_into', 'from') \
                            and any(o[0] in ('c', 'm') and o[1].local in chars for o in t[3]):
                        chars.add(t[4].local)
                        changed = True
        fields = [f.name for f in target.variants[0].fields]
        for bi, st in aggs:
            for fi, o in enumerate(st[2][2]):
                if fields[fi] not in ('offset', 'length'):
                    continue
                n += 1
                key = f'segment-units:{b.name}:{fields[fi]}'
                if o[0] in ('c', 'm') and (o[1].local in chars or root_local(b, o[1].local)[0] in chars):
                    res.violation(key, b.loc(st[3]), f'{b.name}: the `{fields[fi]}` of a string constant in the data segment is derived '
                                  f'from a character count (str::chars().count()), but the segment stores UTF-8 bytes: every '
                                  f'constant after a non-ASCII literal is read from the wrong position in WebAssembly while '
                                  f'TypeScript is unaffected')
                else:
                    res.ok(key, b.loc(st[3]), f'{fields[fi]} is not derived from a character count')
    res.floor('data-segment position operands', n, 2)
    return [res]
