"""C04 rules: BACKEND-OP-TABLE and TS-SPLICE (DESIGN.md §3.8)."""
import re
from ..core import RuleResult
from ..cfg import cfg_of, single_def
from ..dataflow import operand_root, root_local, call_sites
from ..facts import callee
from ..tables import enum_switches, arm_regions
from .optimizer import wasm_op_table, _adt, BINOP, WASM_SEM

# JavaScript forms that compute, on int32-range operands, what the wasm opcode computes (one reason per row)
JS_SYMBOL = {
    'mul': {'*'}, 'div_s': {'/'}, 'rem_s': {'%'},     # JS % is a truncated remainder with the sign of the dividend = rem_s
    'add': {'+'}, 'sub': {'-'}, 'and': {'&'}, 'or': {'|'}, 'xor': {'^'}, 'shl': {'<<'},
    'shr_u': {'>>>'}, 'shr_s': {'>>'},
    'lt_s': {'<'}, 'le_s': {'<='}, 'gt_s': {'>'}, 'ge_s': {'>='},   # JS compares int32-range numbers like signed ints
    'eq': {'==', '==='}, 'ne': {'!=', '!=='},
}
TRUNCATING_WRAPPERS = {'Math.trunc('}          # Math.trunc(a / b) == i32.div_s for all non-overflowing operands
BOOL_TO_INT_WRAPPERS = {'Number('}             # Number(true) == 1, Number(false) == 0, as the i32 comparison results
WRAPPER_RE = re.compile(r'^[A-Za-z_][A-Za-z0-9_.]*\($')


def _js_tables(prog):
    binop = _adt(prog, BINOP)
    sym = None
    wrappers = None
    emitter = None
    for b in prog.bodies.values():
        if b.crate != 'samlang_ast':
            continue
        for tb in enum_switches(prog, b, binop.id):
            if len(tb.arms) < len(binop.variants):
                continue
            regions, _ = arm_regions(b, tb)
            per = {}
            for v in range(len(binop.variants)):
                consts = []
                for bi in sorted(regions[v]):
                    bl = b.blocks[bi]
                    for st in bl.stmts:
                        if st[0] == 'a' and st[2][0] == 'use' and st[2][1][0] == 'k' and st[2][1][1].ty.s == '&str':
                            consts.append(st[2][1][1].v.strip('"'))
                    t = bl.term
                    if t[0] == 'call':
                        for o in t[3][1:]:
                            if o[0] == 'k' and o[1].ty.s == '&str':
                                consts.append(o[1].v.strip('"'))
                per[v] = consts
            if '::hir::' in b.name and b.locals[0].s.endswith('str') and all(len(per[v]) == 1 for v in per):
                sym = ({v: per[v][0] for v in per}, b)
            elif '::lir::' in b.name and any(per[v] for v in per) and b.locals[0].s == '()':
                wrappers = ({v: [c for c in per[v] if WRAPPER_RE.match(c)] for v in per}, b)
                extra = {v: per[v] for v in per}
                emitter = (b, extra)
    return sym, wrappers, emitter


def run_op_table(prog, tier, repo):
    res = RuleResult('BACKEND-OP-TABLE', 'C04: per operator, the TypeScript form and the WebAssembly opcode compute the same '
                     'value on every pair of 32-bit operands')
    binop = _adt(prog, BINOP)
    if binop is None:
        res.cannot_decide('hir::BinaryOperator')
        return [res]
    wtable, wbody = wasm_op_table(prog, res)
    sym, wrappers, emitter = _js_tables(prog)
    # single source: every i32 arithmetic / comparison instruction the wasm printer can spell comes from that table. An
    # instruction name written out elsewhere in the printer is an alternative lowering of some operator that the row-by-row
    # comparison below never sees (e.g. `x % 8` emitted as `i32.and x 7`, which differs from TypeScript's `%` for negative x).
    if wbody is not None:
        allowed = {'(i32.': 'prefix completed with the table\'s mnemonic', '(i32.const ': 'integer constants',
                   '(i32.xor (ref.eq ': '`!=` on references: negated ref.eq',
                   ') (i32.const 1))': 'closing part of the negated ref.eq'}
        spelled = {}
        for bl in wbody.blocks:
            if bl.cleanup:
                continue
            ops = [st[2][1] for st in bl.stmts if st[0] == 'a' and st[2][0] == 'use'] + \
                  ([o for o in bl.term[3]] if bl.term[0] == 'call' else [])
            line = bl.term[7] if bl.term[0] == 'call' else (bl.stmts[0][3] if bl.stmts and bl.stmts[0][0] == 'a' else None)
            for o in ops:
                if o[0] == 'k' and o[1].v.startswith('"') and '(i32.' in o[1].v:
                    spelled.setdefault(o[1].v.strip('"'), line)
        for txt, line in sorted(spelled.items()):
            key = f'wasm-spelling:{txt.strip()}'
            if txt in allowed:
                res.ok(key, wbody.loc(line), allowed[txt])
            else:
                res.violation(key, wbody.loc(line), f'{wbody.name} spells the instruction `{txt.strip()}` outside the operator table: some '
                              f'operator is lowered to it on some path, and that lowering is not compared with the TypeScript form '
                              f'(a mask instead of `rem_s`, for instance, differs from `%` on negative operands)')
    if wtable is None or sym is None or wrappers is None:
        res.cannot_decide('operator tables (wasm mnemonic / JS symbol / JS wrapper) in samlang_ast')
        return [res]
    symt, symb = sym
    wrapt, wrapb = wrappers
    for v, var in enumerate(binop.variants):
        key = f'op:{var.name}'
        mn = wtable[v]
        js = symt[v]
        ws = set(wrapt[v])
        extra = emitter[1][v]
        if mn not in JS_SYMBOL:
            res.cannot_decide(f'no semantic row for wasm mnemonic {mn}')
            continue
        problems = []
        # string comparison path appends "=" to the symbol: "==" + "= " -> "==="
        if js not in JS_SYMBOL[mn]:
            problems.append(f'JS operator `{js}` is not the JavaScript counterpart of i32.{mn} {sorted(JS_SYMBOL[mn])}')
        if mn in ('div_s', 'div_u'):
            if not (ws & TRUNCATING_WRAPPERS) and not any('| 0' in c or '|0' in c or '~~' in c for c in extra):
                problems.append(f'JS emits {"".join(sorted(ws)) or "a bare `/`"}a {js} b) but i32.{mn} truncates toward zero: '
                                f'Math.floor differs for every inexact quotient with operands of opposite sign (-7 / 2: -4 vs -3)')
            bad = ws - TRUNCATING_WRAPPERS
            if bad and not problems:
                problems.append(f'unexpected wrapper(s) {sorted(bad)} around a division')
        elif mn in ('lt_s', 'le_s', 'gt_s', 'ge_s', 'eq', 'ne'):
            bad = ws - BOOL_TO_INT_WRAPPERS
            if bad:
                problems.append(f'wrapper(s) {sorted(bad)} change the comparison result')
        else:
            if ws:
                problems.append(f'wrapper(s) {sorted(ws)} around `{js}` change the value i32.{mn} computes')
        if problems:
            res.violation(key, wrapb.loc(), f'{var.name}: wasm emits i32.{mn}, TypeScript emits {"".join(sorted(ws))}a {js} b'
                          f'{")" if ws else ""}: ' + '; '.join(problems))
        else:
            res.ok(key, wrapb.loc(), f'i32.{mn} <=> {"".join(sorted(ws))}a {js} b{")" if ws else ""}')
    # sibling operators of one family are emitted through the same JS shape (they only differ in the operator symbol):
    # e.g. the by-value string comparison `a[1] === b[1]` must exist for `!=` exactly as for `==`, since the wasm side
    # routes both through the same string-equality routine
    names = [v.name for v in binop.variants]
    extra = emitter[1]
    for family in (('EQ', 'NE'), ('LT', 'LE', 'GT', 'GE'), ('PLUS', 'MINUS', 'MUL', 'LAND', 'LOR', 'XOR', 'SHL', 'SHR', 'MOD')):
        idx = [names.index(n) for n in family if n in names]
        sigs = {names[i]: tuple(sorted(extra[i])) for i in idx}
        ref = max(set(sigs.values()), key=lambda s_: list(sigs.values()).count(s_))
        for n in sorted(sigs):
            key = f'sibling-shape:{n}'
            if sigs[n] == ref:
                res.ok(key, wrapb.loc(), f'{n} is emitted through the same TypeScript shape as its siblings {family}')
            else:
                missing = sorted(set(ref) - set(sigs[n]))
                added = sorted(set(sigs[n]) - set(ref))
                res.violation(key, wrapb.loc(), f'{n} is emitted through a different TypeScript shape than its siblings {family} '
                              f'(missing fragments {missing}, extra {added}) although WebAssembly lowers the whole family the same '
                              f'way: e.g. a by-value string comparison that exists for `==` but not for `!=` compares object '
                              f'identity in TypeScript and contents in WebAssembly')
    res.analysed['tables_from'] = [wbody.name, symb.name, wrapb.name]
    return [res]


def run_ts_splice(prog, tier, repo):
    res = RuleResult('TS-SPLICE', 'C03/C04: the emitted TypeScript is syntactically valid and denotes the same string constants '
                     'as the WebAssembly data segment - user string bytes never reach a JS template literal unsanitised')
    n = 0
    for b in prog.bodies.values():
        if b.crate != 'samlang_ast' or '::lir::' not in b.name:
            continue
        pushes = []   # (bb, const string or None, term)
        for bi, t in call_sites(b, lambda nm: nm.endswith('String::push_str')):
            o = t[3][1]
            c = o[1].v.strip('"') if o[0] == 'k' else None
            if o[0] in ('c', 'm'):
                # constant passed through a temporary
                r, p = operand_root(b, o)
                sd = single_def(b, r)
                if sd and sd[1] != 'term' and sd[2][0] == 'use' and sd[2][1][0] == 'k':
                    c = sd[2][1][1].v.strip('"')
            pushes.append((bi, c, t))
        opens = [bi for bi, c, t in pushes if c is not None and c.endswith('`') and c.count('`') % 2 == 1]
        closes = [bi for bi, c, t in pushes if c is not None and c.startswith('`') and c.count('`') % 2 == 1]
        if not opens or not closes:
            continue
        cfg = cfg_of(b)
        for bi, c, t in pushes:
            if c is not None:
                continue
            if not (cfg.nodes_dominate(opens, bi) and any(cfg.can_reach(bi, cl) for cl in closes)
                    and not cfg.nodes_dominate(closes, bi)):
                continue
            n += 1
            r, p = operand_root(b, t[3][1])
            sd = single_def(b, r)
            src = callee(sd[2])[1] if sd and sd[1] == 'term' else None
            # keyed by where the spliced text comes from, not by the function that happens to do the splice today
            what_ = '::'.join((src or 'value').split('::')[-2:])
            kth = sum(1 for i in res.instances if i.key.startswith(f'template-literal:{what_}#')) + 1
            key = f'template-literal:{what_}#{kth}'
            if src and re.search(r'escape|sanitiz|quote|replace', src, re.I):
                res.ok(key, b.loc(t[7]), f'content passes through {src} before the template literal')
            else:
                res.violation(key, b.loc(t[7]), f'{b.name} splices the raw text of a string constant ({src or "unsanitised value"}) '
                              f'between backticks: a literal containing a backtick or `${{` yields invalid or interpolating '
                              f'TypeScript, and `\\n` is two characters in the WASM data segment but a newline in the template '
                              f'literal')
    res.floor('non-constant pushes inside a template literal', n, 1)
    return [res]


def run_segment_units(prog, tier, repo):
    """DATA-SEGMENT-UNITS (C04/C01): offsets and lengths of string constants in the wasm data segment are byte
    quantities (the segment holds the UTF-8 bytes and the loader decodes byte-wise); a character count must never
    flow into them."""
    from ..callgraph import iter_operands_rvalue
    res = RuleResult('DATA-SEGMENT-UNITS', 'C04: both back ends denote the same string constants - positions in the wasm data '
                     'segment are counted in bytes, never in characters')
    target = [a for a in prog.adts.values() if a.name == 'samlang_ast::wasm::GlobalGcString']
    if len(target) != 1:
        res.cannot_decide('wasm::GlobalGcString')
        return [res]
    target = target[0]
    n = 0
    for b in prog.bodies.values():
        if b.crate != 'samlang_compiler':
            continue
        aggs = [(bi, st) for bi, bl in enumerate(b.blocks) if not bl.cleanup for st in bl.stmts
                if st[0] == 'a' and st[2][0] == 'agg' and st[2][1][0] == 'adt' and st[2][1][1] == target.id]
        if not aggs:
            continue
        # character-count taint inside this body
        chars = set()
        for bl in b.blocks:
            t = bl.term
            if t[0] == 'call' and not t[4].proj:
                nm = callee(t)[1] or ''
                if nm.endswith(('Iterator::count', '::count')) and t[3]:
                    at = b.locals[t[3][0][1].local] if t[3][0][0] in ('c', 'm') else None
                    if at is not None and ('Chars' in at.s or 'CharIndices' in at.s):
                        chars.add(t[4].local)
        changed = True
        while changed:
            changed = False
            for bl in b.blocks:
                for st in bl.stmts:
                    if st[0] == 'a':
                        if any(o[0] in ('c', 'm') and o[1].local in chars for o in iter_operands_rvalue(st[2])):
                            if st[1].local not in chars:
                                chars.add(st[1].local)
                                changed = True
                t = bl.term
                if t[0] == 'call' and not t[4].proj and t[4].local not in chars:
                    nm = (callee(t)[1] or '').split('::')[-1]
                    if nm in ('wrapping_add', 'checked_add', 'saturating_add', 'max', 'min', 'unwrap', 'into', 'try_into', 'from') \
                            and any(o[0] in ('c', 'm') and o[1].local in chars for o in t[3]):
                        chars.add(t[4].local)
                        changed = True
        fields = [f.name for f in target.variants[0].fields]
        for bi, st in aggs:
            for fi, o in enumerate(st[2][2]):
                if fields[fi] not in ('offset', 'length'):
                    continue
                n += 1
                key = f'segment-units:{b.name}:{fields[fi]}'
                if o[0] in ('c', 'm') and (o[1].local in chars or root_local(b, o[1].local)[0] in chars):
                    res.violation(key, b.loc(st[3]), f'{b.name}: the `{fields[fi]}` of a string constant in the data segment is derived '
                                  f'from a character count (str::chars().count()), but the segment stores UTF-8 bytes: every '
                                  f'constant after a non-ASCII literal is read from the wrong position in WebAssembly while '
                                  f'TypeScript is unaffected')
                else:
                    res.ok(key, b.loc(st[3]), f'{fields[fi]} is not derived from a character count')
    res.floor('data-segment position operands', n, 2)
    return [res]


# ---------------------------------------------------------------------------------------------------------------------
# STR-PREDICATE-SIBLINGS (C04, C01): both back ends must compare strings by content. Each decides "is this operand a string"
# with its own predicate over the low-level expression: the TypeScript printer with a method of the expression type, the
# WebAssembly lowering with a local helper. The two are sibling implementations of one question and must look at the same
# things: the string-constant variant and the declared type of a variable. A predicate that ignores variables makes the
# wasm back end compare two string variables by reference while TypeScript compares them by content.

def run_str_predicates(prog, tier, repo):
    from ..core import field_reads
    from ..facts import strip_refs
    from ..tables import enum_switches
    res = RuleResult('STR-PREDICATE-SIBLINGS', 'C04: the "operand is a string" predicates of the TypeScript printer and of the '
                     'WebAssembly lowering inspect the same parts of an expression (string constants and the type of variables)')
    expr = [a for a in prog.adts.values() if a.name == 'samlang_ast::lir::Expression']
    if len(expr) != 1:
        res.cannot_decide('lir::Expression')
        return [res]
    expr = expr[0]
    sname = [i for i, v in enumerate(expr.variants) if v.name == 'StringName']
    var = [i for i, v in enumerate(expr.variants) if v.name == 'Variable']
    if not sname or not var:
        res.cannot_decide('the string-constant and variable variants of lir::Expression')
        return [res]

    def preds(crate_pred):
        out = []
        for b in prog.bodies.values():
            if b.kind == 'closure' or b.nargs != 1 or b.locals[0].s != 'bool' or not crate_pred(b):
                continue
            t = strip_refs(b.locals[1])
            if not (t.k == 'adt' and t.id == expr.id):
                continue
            tests_sname = any(sname[0] in tb.arms and tb.arms[sname[0]] != tb.otherwise for tb in enum_switches(prog, b, expr.id))
            if not tests_sname:
                continue
            # ... and answers "yes" for a string constant (evaluated on the MIR with a StringName argument)
            from ..enummap import evaluate, enum_val, Abort, UNKNOWN

            class _P:
                local = 0
                proj = ()
            try:
                v = evaluate(prog, b, [('ref', {0: enum_val(expr.id, sname[0], [UNKNOWN])}, _P())])
            except Abort:
                v = UNKNOWN
            if v == ('int', 1):
                out.append(b)
        return out
    ts = preds(lambda b: b.crate == 'samlang_ast' and '::lir::' in b.name and not b.name.endswith('is_string_name'))
    wa = preds(lambda b: b.crate == 'samlang_compiler' and '::wasm_lowering::' in b.name + '::')
    # the TS-side predicate is the one that also looks into the variable's type
    ts = [b for b in ts if any(k[0] == expr.id and k[1] == var[0] for k in field_reads(b))]
    if len(ts) != 1 or len(wa) != 1:
        res.cannot_decide(f'exactly one string predicate per back end (TypeScript: {len(ts)}, WebAssembly: {len(wa)})')
        return [res]
    tsb, wab = ts[0], wa[0]

    def slots(b):
        return {(k[1], k[2]) for k in field_reads(b) if k[0] == expr.id}
    st, sw = slots(tsb), slots(wab)
    for (vi, fi) in sorted(st | sw):
        key = f'slot:{expr.variants[vi].name}.{fi}'
        if (vi, fi) in st and (vi, fi) in sw:
            res.ok(key, wab.loc(), f'both predicates inspect {expr.variants[vi].name}.{fi}')
        else:
            who = wab if (vi, fi) not in sw else tsb
            res.violation(key, who.loc(), f'{who.name} does not look at `{expr.variants[vi].name}.{fi}` although its sibling '
                          f'{(tsb if who is wab else wab).name} does: for such operands one back end compares strings by content '
                          f'and the other by reference (or as numbers), so the two emitted programs print different results')
    res.floor('expression slots inspected by the string predicates', len(st | sw), 1)
    res.analysed['predicates'] = [tsb.name, wab.name]
    return [res]


# ---------------------------------------------------------------------------------------------------------------------
# ENTRY-OUTPUT-FRESH (C04): the compiler emits one TypeScript file and one WebAssembly launcher per entry module, in a loop.
# Each emitted text must be a function of that iteration's entry point only. A string buffer that lives across iterations,
# is appended to inside the loop and is (cloned and) stored as an output accumulates the earlier entries' invocations:
# `<Second>.ts` then also runs First's main, while `<Second>.wasm.js` runs only its own.

def run_entry_output_fresh(prog, tier, repo):
    from ..cfg import cfg_of, single_def, def_sites
    res = RuleResult('ENTRY-OUTPUT-FRESH', 'C04: every per-entry-point output text is built afresh in its loop iteration - no buffer '
                     'that is appended to in the loop and stored as an output is carried over from the previous iteration')
    bodies = [b for b in prog.bodies.values() if b.crate == 'samlang_compiler' and b.kind != 'closure' and b.name.endswith('::compile_sources')]
    if len(bodies) != 1:
        res.cannot_decide('samlang_compiler::compile_sources')
        return [res]
    b = bodies[0]
    cfg = cfg_of(b)
    heads = {h for (_, h) in cfg.back_edges()}
    n = 0
    inserts = [(bi, bl.term) for bi, bl in enumerate(b.blocks) if not bl.cleanup and bl.term[0] == 'call'
               and (callee(bl.term)[1] or '').endswith('::insert') and 'BTreeMap' in (callee(bl.term)[1] or '') and len(bl.term[3]) == 3]
    for bi, t in inserts:
        in_loop = [h for h in heads if cfg.can_reach(h, bi) and cfg.can_reach(bi, h)]
        if not in_loop:
            continue
        n += 1
        nb = sum(1 for i in res.instances if i.key.startswith('output#')) + 1
        key = f'output#{nb}'
        # the stored value: follow clone()/to_string()/moves back to a String local
        op = t[3][2]
        r, _ = operand_root(b, op)
        hops = 0
        while r is not None and hops < 6:
            hops += 1
            sd = single_def(b, r)
            if sd and sd[1] == 'term' and (callee(sd[2])[1] or '').split('::')[-1] in ('clone', 'to_string', 'to_owned') and sd[2][3]:
                r, _ = operand_root(b, sd[2][3][0])
                continue
            break
        problem = None
        # (b) the stored text is *built from* (format!/to_string/concat of) a buffer that is created before the loop and
        # written to inside it through a `&mut` (e.g. an encoder appending a name) without being cleared in the loop
        acc_bufs = {}
        for l, ty in enumerate(b.locals):
            if not (ty.k == 'adt' and ty.name.startswith('std::string::String')):
                continue
            defs_l = [d for d in def_sites(b).get(l, []) if not b.blocks[d[0]].cleanup]
            if not defs_l or any(any(cfg.can_reach(h, d[0]) and cfg.can_reach(d[0], h) for h in in_loop) for d in defs_l):
                continue
            writes, cleared = None, False
            for bj, bl in enumerate(b.blocks):
                tt = bl.term
                if bl.cleanup or tt[0] != 'call' or not any(cfg.can_reach(h, bj) and cfg.can_reach(bj, h) for h in in_loop):
                    continue
                for o in tt[3]:
                    if o[0] in ('c', 'm') and operand_root(b, o)[0] == l and b.locals[o[1].local].k == 'ref' and b.locals[o[1].local].extra == 1:
                        if (callee(tt)[1] or '').split('::')[-1] in ('clear', 'truncate'):
                            cleared = True
                        else:
                            writes = tt[7]
            if writes and not cleared:
                acc_bufs[l] = writes
        if acc_bufs and r is not None:
            seen_l = set()
            stack = [r]
            while stack and len(seen_l) < 200:
                x = stack.pop()
                if x in seen_l:
                    continue
                seen_l.add(x)
                if x in acc_bufs:
                    problem = acc_bufs[x]
                    break
                for d in def_sites(b).get(x, []):
                    if b.blocks[d[0]].cleanup:
                        continue
                    ops_ = list(d[2][3]) if d[1] == 'term' else ([d[2][1]] if d[2][0] == 'use' else (list(d[2][2]) if d[2][0] == 'agg' else []))
                    if d[1] != 'term' and d[2][0] == 'ref':
                        stack.append(root_local(b, d[2][2].local)[0])
                    for o in ops_:
                        if isinstance(o, tuple) and o and o[0] in ('c', 'm'):
                            stack.append(root_local(b, o[1].local)[0])
                # values written into x through a projection (`(*box).0 = [args]`)
                for bl in b.blocks:
                    for st in bl.stmts:
                        if st[0] == 'a' and st[1].proj and st[1].local == x and not bl.cleanup:
                            rv = st[2]
                            for o in ([rv[1]] if rv[0] == 'use' else (list(rv[2]) if rv[0] == 'agg' else [])):
                                if o[0] in ('c', 'm'):
                                    stack.append(root_local(b, o[1].local)[0])
        if problem is None and r is not None:
            defs = [d for d in def_sites(b).get(r, []) if not b.blocks[d[0]].cleanup]
            outside = [d for d in defs if not any(cfg.can_reach(h, d[0]) and cfg.can_reach(d[0], h) for h in in_loop)]
            if outside and len(outside) == len(defs):
                # defined only outside the loop: is it appended to inside the loop?
                for bj, bl in enumerate(b.blocks):
                    tt = bl.term
                    if bl.cleanup or tt[0] != 'call' or not tt[3]:
                        continue
                    nm = (callee(tt)[1] or '')
                    if nm.split('::')[-1] in ('push_str', 'push', 'extend', 'insert_str', 'write_str', 'write_fmt') and \
                            operand_root(b, tt[3][0])[0] == r and any(cfg.can_reach(h, bj) and cfg.can_reach(bj, h) for h in in_loop):
                        problem = tt[7]
        if problem:
            res.violation(key, b.loc(t[7]), f'{b.name}: the text stored for an entry point at line {t[7]} comes from a buffer that is '
                          f'created before the loop over the entry points and appended to inside it (line {problem}): the output of '
                          f'every later entry point also contains what was appended for the earlier ones')
        else:
            res.ok(key, b.loc(t[7]), 'stored text is built inside the iteration or not appended to in the loop')
    res.floor('per-entry outputs stored in the loop', n, 2)
    return [res]


# ---------------------------------------------------------------------------------------------------------------------
# CALL-ALWAYS-EMITTED (C04, C01): a call statement has effects (runtime functions mutate vectors, print, trap), whether or
# not its result is used. Both back ends must therefore emit a call for every `Call` statement. For the WebAssembly
# lowering: every path through the `Call` arm of the statement lowering builds a call instruction.

def run_call_always_emitted(prog, tier, repo):
    from ..tables import enum_switches
    from ..cfg import cfg_of
    from ..facts import strip_refs
    res = RuleResult('CALL-ALWAYS-EMITTED', 'C04: the WebAssembly lowering emits a call instruction for every call statement, on every '
                     'path (a call whose result is discarded still has its effects)')
    stmt = [a for a in prog.adts.values() if a.name == 'samlang_ast::lir::Statement']
    if len(stmt) != 1:
        res.cannot_decide('lir::Statement')
        return [res]
    stmt = stmt[0]
    call_v = [i for i, v in enumerate(stmt.variants) if v.name == 'Call']
    if not call_v:
        res.cannot_decide('the Call variant of lir::Statement')
        return [res]
    call_v = call_v[0]
    n = 0
    for b in prog.bodies.values():
        if b.crate != 'samlang_compiler' or '::wasm_lowering::' not in b.name + '::' or b.kind == 'closure':
            continue
        if not any(strip_refs(b.locals[i]).k == 'adt' and strip_refs(b.locals[i]).id == stmt.id for i in range(1, b.nargs + 1)):
            continue
        cfg = cfg_of(b)
        for tb in enum_switches(prog, b, stmt.id):
            if call_v not in tb.arms:
                continue
            n += 1
            emit = set()
            for bi, bl in enumerate(b.blocks):
                if bl.cleanup:
                    continue
                for st in bl.stmts:
                    if st[0] == 'a' and st[2][0] == 'agg' and st[2][1][0] == 'adt' and st[2][1][1].endswith('wasm::InlineInstruction') \
                            and st[2][1][3] in ('DirectCall', 'IndirectCall'):
                        emit.add(bi)
                # closures built here that construct the call (map over arguments etc.) count at their construction site
                for st in bl.stmts:
                    if st[0] == 'a' and st[2][0] == 'agg' and st[2][1][0] == 'closure':
                        cb = prog.bodies.get(st[2][1][1])
                        if cb and any(s2[0] == 'a' and s2[2][0] == 'agg' and s2[2][1][0] == 'adt' and s2[2][1][1].endswith('wasm::InlineInstruction')
                                      and s2[2][1][3] in ('DirectCall', 'IndirectCall') for bl2 in cb.blocks for s2 in bl2.stmts):
                            pass
            key = f'call-arm:{b.name}'
            # ... and what the arm returns is built from such an instruction: every definition of the return value inside the
            # arm derives (through wrappers, vec!, set(..)) from a call-instruction local
            from ..cfg import def_sites
            call_locals = set()
            for bi in emit:
                for st in b.blocks[bi].stmts:
                    if st[0] == 'a' and st[2][0] == 'agg' and st[2][1][0] == 'adt' and st[2][1][1].endswith('wasm::InlineInstruction') \
                            and st[2][1][3] in ('DirectCall', 'IndirectCall'):
                        call_locals.add(st[1].local)
            region = cfg.reachable(tb.arms[call_v])
            others = set()
            for v2, tg in tb.arms.items():
                if v2 != call_v and tg is not None:
                    others |= cfg.reachable(tg)
            region = region - others

            def derives(l, seen):
                if l in call_locals:
                    return True
                if l in seen or len(seen) > 300:
                    return False
                seen.add(l)
                for d in def_sites(b).get(l, []):
                    if b.blocks[d[0]].cleanup:
                        continue
                    ops_ = list(d[2][3]) if d[1] == 'term' else ([d[2][1]] if d[2][0] in ('use',) else ([d[2][2]] if d[2][0] == 'cast' else (list(d[2][2]) if d[2][0] == 'agg' else [])))
                    if d[1] != 'term' and d[2][0] == 'ref' and derives(d[2][2].local, seen):
                        return True
                    for o in ops_:
                        if isinstance(o, tuple) and o and o[0] in ('c', 'm') and derives(o[1].local, seen):
                            return True
                for bl in b.blocks:
                    if bl.cleanup:
                        continue
                    for st in bl.stmts:
                        if st[0] == 'a' and st[1].proj and st[1].local == l:
                            rv = st[2]
                            for o in ([rv[1]] if rv[0] == 'use' else (list(rv[2]) if rv[0] == 'agg' else [])):
                                if o[0] in ('c', 'm') and derives(o[1].local, seen):
                                    return True
                    t = bl.term
                    if t[0] == 'call' and (callee(t)[1] or '').split('::')[-1] in ('push', 'extend', 'append', 'insert') and t[3] \
                            and operand_root(b, t[3][0])[0] == l:
                        for o in t[3][1:]:
                            if o[0] in ('c', 'm') and derives(o[1].local, seen):
                                return True
                return False
            empty_returns = []
            for d in def_sites(b).get(0, []):
                if d[0] not in region or b.blocks[d[0]].cleanup:
                    continue
                ok_def = False
                if d[1] == 'term':
                    ok_def = any(o[0] in ('c', 'm') and derives(o[1].local, set()) for o in d[2][3])
                    line = d[2][7]
                else:
                    rv = d[2]
                    ops_ = [rv[1]] if rv[0] == 'use' else (list(rv[2]) if rv[0] == 'agg' else [])
                    ok_def = any(o[0] in ('c', 'm') and derives(o[1].local, set()) for o in ops_)
                    line = None
                if not ok_def:
                    empty_returns.append(line)
            if empty_returns:
                res.violation(key, b.loc(empty_returns[0]), f'{b.name}: inside the `Call` arm the lowering returns instructions that do not '
                              f'contain the call instruction it built (line {empty_returns[0]}): the call (e.g. a discarded `Vec.pop`) '
                              f'disappears from the WebAssembly program while the TypeScript program still performs it')
            elif emit and cfg.nodes_postdominate(emit, tb.arms[call_v]):
                res.ok(key, b.loc(), 'every path through the Call arm builds a DirectCall / IndirectCall instruction and returns it')
            else:
                res.violation(key, b.loc(), f'{b.name}: some path through the `Call` arm returns without building a call instruction: the '
                              f'call (e.g. a discarded `Vec.pop`) disappears from the WebAssembly program while the TypeScript '
                              f'program still performs it')
    res.floor('Call arms of the wasm statement lowering', n, 1)
    return [res]
