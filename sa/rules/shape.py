"""SHAPE-PRODUCER (C03/C05): AST-shape assumptions that downstream `panic!`s rely on are established at every
producer in the parser (DESIGN.md §3.5). FABRICATE-REPORTS (C05): every invented token is on an error path."""
from ..core import RuleResult
from ..cfg import cfg_of, single_def
from ..dataflow import operand_root, root_local, field_names, call_sites
from ..facts import callee

E = 'samlang_ast::source::expr::E'
PLIST = 'samlang_ast::source::expr::ParenthesizedExpressionList'


def _adt(prog, name):
    r = [a for a in prog.adts.values() if a.name == name]
    return r[0] if len(r) == 1 else None


def _vec_key(b, op):
    r, p = operand_root(b, op)
    return (r, field_names(p))


def _len_edges(b, veckey, exclude_one=True):
    """Edges on which len(vec) != 1 (or >= 2) is known."""
    edges = []
    for bi, t in call_sites(b, lambda n: n.endswith('Vec::<T, A>::len')):
        if _vec_key(b, t[3][0]) != veckey:
            continue
        d = t[4].local
        for bj, bl in enumerate(b.blocks):
            tt = bl.term
            if tt[0] != 'switch' or tt[1][0] not in ('c', 'm'):
                continue
            sd = single_def(b, tt[1][1].local)
            if not sd or sd[1] == 'term' or sd[2][0] != 'bin':
                continue
            op, x, y = sd[2][1], sd[2][2], sd[2][3]
            if not (x[0] in ('c', 'm') and root_local(b, x[1].local)[0] == d and y[0] == 'k' and y[1].i is not None):
                continue
            c = y[1].i
            true_e = [(bj, tt[3])] + [(bj, tg) for v, tg in tt[2] if v != 0]
            false_e = [(bj, tg) for v, tg in tt[2] if v == 0]
            if op == 'Eq' and c == 1:
                edges += false_e
            elif op == 'Ne' and c == 1:
                edges += true_e
            elif (op == 'Gt' and c >= 1) or (op == 'Ge' and c >= 2):
                edges += true_e
            elif (op == 'Lt' and c <= 2 and c >= 2) or (op == 'Le' and c == 1):
                edges += false_e
    return edges


def _truncates(b, veckey, limit=16):
    out = []
    for bi, t in call_sites(b, lambda n: n.endswith('Vec::<T, A>::truncate')):
        if _vec_key(b, t[3][0]) == veckey:
            out.append(bi)
    return out


def _vec_bounded(b, cfg, vec_op, at_bb, depth=0):
    """Is the vector operand known to be truncated (or empty) on every path reaching at_bb?"""
    from ..cfg import def_sites
    if depth > 4 or vec_op[0] not in ('c', 'm'):
        return False
    vk = _vec_key(b, vec_op)
    tr = _truncates(b, vk)
    if tr and cfg.nodes_dominate(tr, at_bb):
        return True
    if vk[1]:
        return False
    defs = [d for d in def_sites(b).get(vk[0], []) if not b.blocks[d[0]].cleanup]
    if len(defs) < 2:
        return False
    for dbb, si, rv in defs:
        if si == 'term':
            nm = callee(rv)[1] or ''
            if nm.endswith(('Vec::<T>::new', 'Vec::<T>::with_capacity')):
                continue
            return False
        if rv[0] == 'use' and _vec_bounded(b, cfg, rv[1], dbb, depth + 1):
            continue
        return False
    return True


def _returned_list_is_truncated(prog, fn, plist):
    """Summary: does fn return a ParenthesizedExpressionList whose vector is truncated (or empty) on every path?"""
    cfg = cfg_of(fn)
    aggs = []
    for bi, bl in enumerate(fn.blocks):
        if bl.cleanup:
            continue
        for st in bl.stmts:
            if st[0] == 'a' and st[2][0] == 'agg' and st[2][1][0] == 'adt' and st[2][1][1] == plist.id:
                aggs.append((bi, st))
    if not aggs:
        # thin wrapper: returns the result of another list parser
        for bi, bl in enumerate(fn.blocks):
            t = bl.term
            if t[0] == 'call' and t[4].local == 0 and not bl.cleanup:
                inner = prog.bodies.get(callee(t)[0])
                return inner is not None and inner.id != fn.id and _returned_list_is_truncated(prog, inner, plist)
        return False
    return all(_vec_bounded(fn, cfg, st[2][2][-1], bi) for bi, st in aggs)


def run_shape(prog, tier, repo):
    res = RuleResult('SHAPE-PRODUCER', 'C03/C05: the parser never produces a syntax tree the checker aborts on - no raw '
                     'MethodAccess node, and every Tuple node has between 2 and 16 elements')
    e = _adt(prog, E)
    plist = _adt(prog, PLIST)
    if e is None or plist is None:
        res.cannot_decide('expr::E / ParenthesizedExpressionList')
        return [res]
    vidx = {v.name: i for i, v in enumerate(e.variants)}
    parser = [b for b in prog.bodies.values() if b.crate == 'samlang_parser']
    n_tuple = 0
    n_ma = 0
    for b in sorted(parser, key=lambda x: x.name):
        cfg = None
        ordinal = 0
        for bi, bl in enumerate(b.blocks):
            if bl.cleanup:
                continue
            for st in bl.stmts:
                if not (st[0] == 'a' and st[2][0] == 'agg' and st[2][1][0] == 'adt' and st[2][1][1] == e.id):
                    continue
                if st[2][1][2] == vidx.get('MethodAccess'):
                    n_ma += 1
                    res.violation(f'method-access:{b.name}', b.loc(st[3]), f'{b.name} constructs expr::E::MethodAccess: the checker '
                                  f'aborts on it ("Raw parsed expression does not contain MethodAccess")')
                if st[2][1][2] != vidx.get('Tuple'):
                    continue
                n_tuple += 1
                ordinal += 1
                cfg = cfg or cfg_of(b)
                key = f'tuple:{b.name}#{ordinal}'
                lst = st[2][2][1]
                lr, lp = operand_root(b, lst)
                sd = single_def(b, lr) if lr is not None else None
                veckey = None
                upper = False
                if sd and sd[1] != 'term' and sd[2][0] == 'agg' and sd[2][1][0] == 'adt' and sd[2][1][1] == plist.id:
                    veckey = _vec_key(b, sd[2][2][-1])
                    upper = _vec_bounded(b, cfg, sd[2][2][-1], sd[0])
                elif sd and sd[1] == 'term':
                    fn = prog.bodies.get(callee(sd[2])[0])
                    veckey = (lr, tuple(lp_n for lp_n in field_names(lp)) + ('expressions',))
                    upper = fn is not None and _returned_list_is_truncated(prog, fn, plist)
                if veckey is None:
                    res.cannot_decide(f'origin of the element list of a Tuple built in {b.name}', b.loc(st[3]))
                    continue
                le = _len_edges(b, veckey)
                lower = bool(le) and cfg.edges_dominate(le, bi)
                problems = []
                if not upper:
                    problems.append('no dominating truncate(16) of its element vector (more than 16 elements abort the checker '
                                    'with "Invalid tuple length")')
                if not lower:
                    problems.append('no dominating test that the element vector does not have exactly one element (a '
                                    'one-element tuple aborts the checker with "Invalid tuple length 1")')
                if problems:
                    res.violation(key, b.loc(st[3]), f'{b.name} builds expr::E::Tuple with ' + ' and '.join(problems))
                else:
                    res.ok(key, b.loc(st[3]), 'Tuple built after truncate(max) and after excluding the one-element case')
    res.floor('Tuple constructions in the parser', n_tuple, 3)
    res.analysed['method_access_constructions'] = n_ma
    return [res]


def run_fabricate(prog, tier, repo):
    res = RuleResult('FABRICATE-REPORTS', 'C05: a syntax error is always reported when the parser had to invent tokens - every '
                     'fabricated placeholder (missing identifier, dummy literal, `any` annotation) is on an error-reporting path')
    from ..callgraph import iter_operands_rvalue
    is_report = lambda n: n.endswith("SourceParser::<'a>::report") or ('ErrorSet::report_' in n)
    n = 0
    for b in sorted(prog.bodies.values(), key=lambda x: x.name):
        if b.crate != 'samlang_parser' or '::source_parser::' not in b.name:
            continue
        cfg = cfg_of(b)
        reports = [bi for bi, bl in enumerate(b.blocks) if not bl.cleanup and bl.term[0] == 'call'
                   and is_report(callee(bl.term)[1] or '')]
        sites = []
        for bi, bl in enumerate(b.blocks):
            if bl.cleanup:
                continue
            for st in bl.stmts:
                if st[0] != 'a':
                    continue
                for o in iter_operands_rvalue(st[2]):
                    if o[0] == 'k' and (o[1].u or '').endswith('::MISSING'):
                        sites.append((bi, st[3], 'placeholder identifier `missing`'))
                if st[2][0] == 'agg' and st[2][1][0] == 'adt':
                    ak = st[2][1]
                    if ak[3] == 'Any' and ak[1].endswith('PrimitiveTypeKind'):
                        sites.append((bi, st[3], '`any` type annotation'))
                    if ak[3] == 'Int' and ak[1].endswith('source::Literal') and st[2][2] and st[2][2][0][0] == 'k':
                        sites.append((bi, st[3], f'dummy integer literal {st[2][2][0][1].v}'))
            t = bl.term
            if t[0] == 'call':
                for o in t[3]:
                    if o[0] == 'k' and (o[1].u or '').endswith('::MISSING'):
                        sites.append((bi, t[7], 'placeholder identifier `missing`'))
        seen = {}
        for bi, line, what in sites:
            n += 1
            base = f'fabricate:{b.name}:{what}'
            seen[base] = seen.get(base, 0) + 1
            key = base if seen[base] == 1 else f'{base}#{seen[base]}'
            if reports and (cfg.nodes_dominate(reports, bi) or cfg.nodes_postdominate(reports, bi)):
                res.ok(key, b.loc(line), 'fabrication is dominated or post-dominated by a syntax-error report')
            else:
                res.violation(key, b.loc(line), f'{b.name} fabricates a {what} on a path that reports no syntax error: malformed '
                              f'input is silently accepted and reaches the checker/compiler as if it were written that way')
    res.floor('fabrication sites', n, 5)
    return [res]


# ---------------------------------------------------------------------------------------------------------------------
# LITERAL-SOURCE (C08): the printer writes an integer literal node as its decimal text and treats it as an atom (no
# parentheses around it anywhere). That only round-trips if every integer literal node of the untyped tree is the image of one
# lexer token: its value is the parse of the token text (or the constant of a reported placeholder). A literal computed by
# the parser (e.g. a folded `-1`) has no token of its own; printed as an atom in `(-1).abs()` it re-parses as `-(1.abs())`.

def run_literal_source(prog, tier, repo):
    from ..cfg import single_def
    res = RuleResult('LITERAL-SOURCE', 'C08: every integer literal node the parser builds carries the parsed text of one lexer token '
                     '(or a constant placeholder), never a value the parser computed')
    n = 0
    for b in prog.bodies.values():
        if b.crate != 'samlang_parser' or '::tests' in b.name:
            continue
        for bl in b.blocks:
            if bl.cleanup:
                continue
            for st in bl.stmts:
                if st[0] != 'a' or st[2][0] != 'agg' or st[2][1][0] != 'adt' or not st[2][1][1].endswith('source::Literal') \
                        or st[2][1][3] != 'Int' or not st[2][2]:
                    continue
                n += 1
                nb = sum(1 for i in res.instances if i.key.startswith(f'int-literal:{b.name}#')) + 1
                key = f'int-literal:{b.name}#{nb}'
                o = st[2][2][0]
                ok = o[0] == 'k'
                src = 'a constant'
                if not ok and o[0] in ('c', 'm'):
                    cur = o[1].local
                    for _ in range(8):
                        sd = single_def(b, cur)
                        if not sd:
                            src = 'an untraceable value'
                            break
                        if sd[1] == 'term':
                            nm = (callee(sd[2])[1] or '')
                            short = nm.split('::')[-1]
                            if short in ('unwrap_or', 'unwrap', 'unwrap_or_default', 'expect', 'ok', 'map_err', 'or', 'unwrap_or_else') and sd[2][3]:
                                r, _p = operand_root(b, sd[2][3][0])
                                if r is None:
                                    break
                                cur = r
                                continue
                            if short == 'parse' or nm.endswith('FromStr>::from_str') or short == 'from_str':
                                ok = True
                                src = 'str::parse of the token text'
                            else:
                                src = f'the result of `{short}`'
                            break
                        rv = sd[2]
                        if rv[0] == 'use' and rv[1][0] in ('c', 'm'):
                            r, _p = operand_root(b, rv[1])
                            if r is None or r == cur:
                                src = 'a value read from another node'
                                break
                            cur = r
                            continue
                        src = f'a computed value ({rv[0]})'
                        break
                if ok:
                    res.ok(key, b.loc(st[3]), f'value is {src}')
                else:
                    res.violation(key, b.loc(st[3]), f'{b.name} builds an integer literal node from {src}: such a literal corresponds to no '
                                  f'single token, the printer emits it as an atom without parentheses, and e.g. `(-1).abs()` is '
                                  f'formatted to `-1.abs()`, which parses as `-(1.abs())`')
    res.floor('integer literal nodes built by the parser', n, 2)
    return [res]
