"""NODE-LEADING-COMMENTS (C09): a syntax node handed to a printer that does not print the node's leading comments has
them printed by the function that hands it over.

Every AST node type with a leading-comment slot (`associated_comments` directly, or through `common: ExpressionCommon`)
is printed by some printer function taking `&T`. A printer that reads the slot prints the comments itself. One that does
not (a *bare* printer of T: `create_doc_for_block` relies on the generic `create_doc` wrapper having printed
`expression.common().associated_comments`) is only correct when whoever calls it takes care of the slot:

  * the caller forwards its own `&T` parameter -> the caller is bare too, the obligation moves to its callers;
  * the argument is the payload of an enum value (`E::Block(b)`) that is the caller's own parameter and the enum's comment
    accessor (`E::common`) is read by the caller or by (transitive, <= 3 levels) callers of the caller: the generic wrapper;
  * otherwise the node is a *child* taken out of another node, and the slot of T has to be read in the caller's neighbourhood:
    the caller, its closures, the printer-crate functions it calls directly, or its (<= 3 levels) callers.
If nobody in that neighbourhood reads T's slot, the comments placed before that child in the source are in the comment
store but never reach the output: a dropped comment.

The rule is type-level (it asks whether the slot of *type* T is read near the call, not which value), so it cannot be
fooled by values travelling through intermediate structs or vectors; it decides a necessary condition only."""
from ..core import RuleResult
from ..facts import callee, strip_refs
from ..dataflow import root_local, operand_root

SLOT = 'associated_comments'
CRATE = 'samlang_printer'


def _unbox(t):
    t = strip_refs(t)
    while t.k == 'adt' and t.name.startswith('std::boxed::Box') and t.args:
        t = strip_refs(t.args[0])
    return t


def _slot_types(prog):
    """adt id -> 'direct' | 'common' for source-AST structs with a leading-comment slot."""
    out = {}
    common_id = None
    for a in prog.adts.values():
        if a.name == 'samlang_ast::source::expr::ExpressionCommon':
            common_id = a.id
    for a in prog.adts.values():
        if not a.name.startswith('samlang_ast::source') or a.kind != 'struct' or len(a.variants) != 1:
            continue
        if a.id == common_id:
            continue
        for f in a.variants[0].fields:
            if f.name == SLOT and strip_refs(f.ty).name == 'samlang_ast::source::CommentReference':
                out[a.id] = 'direct'
            elif f.name == 'common' and strip_refs(f.ty).k == 'adt' and strip_refs(f.ty).id == common_id:
                out[a.id] = 'common'
    return out, common_id


def _slot_reads(prog, b, slots, common_id):
    """Set of adt ids whose leading-comment slot this body reads; 'E' when it reads `<E>::common(..).associated_comments`."""
    r = b._cache.get('slotreads')
    if r is not None:
        return r
    r = set()
    # locals holding the result of an enum comment accessor (returns &ExpressionCommon)
    acc = set()
    for bl in b.blocks:
        t = bl.term
        if t[0] == 'call' and t[4] is not None:
            dt = strip_refs(b.locals[t[4].local])
            if dt.k == 'adt' and dt.id == common_id:
                acc.add(t[4].local)

    def scan(pl):
        root, path = root_local(b, pl.local)
        full = tuple(path) + tuple(e for e in pl.proj if e[0] in ('f', 't', 'v'))
        prev = None
        for e in full:
            if e[0] == 'f':
                if e[4] == SLOT:
                    if slots.get(e[1]) == 'direct':
                        r.add(e[1])
                    elif e[1] == common_id:
                        if prev is not None and prev[0] == 'f' and slots.get(prev[1]) == 'common' and prev[4] == 'common':
                            r.add(prev[1])
                        elif prev is None and (root in acc or pl.local in acc):
                            r.add('E')
                        elif prev is None:
                            # `&ExpressionCommon` obtained some other way (a binding of `common` in a pattern is
                            # resolved by root_local; anything else is an accessor of unknown receiver)
                            r.add('E')
            prev = e

    from ..core import places_read
    for pl, _bi, _line in places_read(b):
        scan(pl)
    b._cache['slotreads'] = r
    return r


def run(prog, tier, repo):
    res = RuleResult('NODE-LEADING-COMMENTS', 'C09: a node handed to a printer function that does not print the node\'s leading '
                     'comments has that comment slot read by the function handing it over (or around it) - otherwise comments '
                     'written before that node are dropped')
    slots, common_id = _slot_types(prog)
    if not slots or common_id is None:
        res.cannot_decide('no AST struct with a leading-comment slot found (samlang_ast::source::*::associated_comments)')
        return [res]
    bodies = {i: b for i, b in prog.bodies.items() if b.crate == CRATE and '::tests' not in b.name and '_tests::' not in b.name}
    if not bodies:
        res.cannot_decide('no bodies of samlang_printer in the facts')
        return [res]

    def top(i):
        b = bodies.get(i)
        while b is not None and b.parent and b.parent in bodies:
            b = bodies[b.parent]
        return b

    # own reads incl. closures, attributed to the top-level function
    own = {}
    for i, b in bodies.items():
        t = top(i)
        own.setdefault(t.id, set()).update(_slot_reads(prog, b, slots, common_id))
    tops = {i: b for i, b in bodies.items() if top(i).id == i}
    # direct call edges between top-level printer functions, with call sites
    calls = {}     # caller top id -> [(callee id, body, bb, term)]
    callers = {}   # callee id -> set(caller top ids)
    for i, b in bodies.items():
        t = top(i)
        for bi, bl in enumerate(b.blocks):
            tm = bl.term
            if bl.cleanup or tm[0] != 'call':
                continue
            cid, _nm = callee(tm)
            if cid in tops:
                calls.setdefault(t.id, []).append((cid, b, bi, tm))
                callers.setdefault(cid, set()).add(t.id)
            for o in tm[3]:
                if o[0] == 'k' and o[1].fn is not None and o[1].fn[0] in tops:
                    callers.setdefault(o[1].fn[0], set()).add(t.id)

    def params_of(b):
        out = {}
        for k in range(1, b.nargs + 1):
            ty = _unbox(b.locals[k])
            if ty.k == 'adt' and ty.id in slots:
                out[k] = ty.id
        return out

    # forwarding closure: reads of T in G or in callees that receive a &T too
    def reads_star(gid, T, seen=None):
        seen = seen or set()
        if gid in seen:
            return False
        seen.add(gid)
        if T in own.get(gid, ()):
            return True
        for cid, cb, _bi, tm in calls.get(gid, []):
            if T in params_of(tops[cid]).values() and any(
                    o[0] in ('c', 'm') and _unbox(cb.locals[o[1].local]).k == 'adt' and _unbox(cb.locals[o[1].local]).id == T
                    for o in tm[3]):
                if reads_star(cid, T, seen):
                    return True
        return False

    bare = {}
    for gid, g in tops.items():
        if g.locals[0].k == 'prim':
            continue        # a predicate over a node (`fn ..(&Binary) -> bool`) asks a question, it does not print the node
        for k, T in params_of(g).items():
            if not reads_star(gid, T):
                bare.setdefault(gid, set()).add(T)

    def ancestors(hid, depth=3):
        out, frontier = set(), {hid}
        for _ in range(depth):
            nxt = set()
            for x in frontier:
                for c in callers.get(x, ()):
                    if c not in out and c != hid:
                        out.add(c)
                        nxt.add(c)
            frontier = nxt
        return out

    def neighbourhood_reads(hid, exclude):
        r = set(own.get(hid, ()))
        for cid, _cb, _bi, _tm in calls.get(hid, []):
            if cid != exclude:
                r |= own.get(cid, set())
        for a in ancestors(hid):
            r |= own.get(a, set())
        return r

    def enum_params(b):
        return [k for k in range(1, b.nargs + 1) if strip_refs(b.locals[k]).k == 'adt'
                and strip_refs(b.locals[k]).name.startswith('samlang_ast::source')
                and (prog.adts.get(strip_refs(b.locals[k]).id) is not None)
                and prog.adts[strip_refs(b.locals[k]).id].kind == 'enum']

    n_sites = 0
    adt_name = {a.id: a.name for a in prog.adts.values()}
    for hid in sorted(calls, key=lambda x: tops[x].name):
        h = tops[hid]
        for cid, cb, bi, tm in calls[hid]:
            for T in sorted(bare.get(cid, ()), key=lambda x: adt_name[x]):
                args = [o for o in tm[3] if o[0] in ('c', 'm') and _unbox(cb.locals[o[1].local]).k == 'adt'
                        and _unbox(cb.locals[o[1].local]).id == T]
                if not args:
                    continue
                n_sites += 1
                tn = adt_name[T].replace('samlang_ast::source::', '')
                nth = sum(1 for i in res.instances if i.key.startswith(f'{h.name}->{tops[cid].name}:{tn}#')) + 1
                key = f'{h.name}->{tops[cid].name}:{tn}#{nth}'
                where = cb.loc(tm[7])
                if T in bare.get(hid, ()) and cb.id == hid and all(
                        1 <= operand_root(cb, o)[0] <= cb.nargs and _unbox(cb.locals[operand_root(cb, o)[0]]).k == 'adt'
                        and _unbox(cb.locals[operand_root(cb, o)[0]]).id == T for o in args):
                    res.ok(key, where, 'forwards its own parameter: obligation is on its callers')
                    continue
                # payload of an enum that is the caller's own parameter, comments printed by the generic wrapper
                via_enum = False
                if cb.id == hid:
                    for o in args:
                        root, path = operand_root(cb, o)
                        if root is not None and root in enum_params(cb) and any(e[0] == 'v' for e in path):
                            via_enum = True
                if via_enum:
                    r = set(own.get(hid, ()))
                    for a in ancestors(hid):
                        r |= own.get(a, set())
                    if 'E' in r or T in r:
                        res.ok(key, where, 'payload of the caller\'s enum parameter; the enum\'s comment accessor is read by the '
                               'caller chain')
                        continue
                nb = neighbourhood_reads(hid, cid)
                if T in nb:
                    res.ok(key, where, f'leading comments of {tn} read around the call')
                else:
                    res.violation(key, where, f'{h.name} hands a {tn} to {tops[cid].name}, which does not print the node\'s leading '
                                  f'comments ({tn}.{"common." if slots[T] == "common" else ""}associated_comments), and neither '
                                  f'{h.name}, the functions it calls, nor its callers read that slot: comments written before '
                                  f'that {tn} in the source are dropped by the formatter')
    res.floor('node types with a leading-comment slot', len(slots), 10)
    res.floor('hand-overs to bare printers inspected', n_sites, 3)
    res.analysed['bare_printers'] = sorted(f'{tops[g].name}:{adt_name[T].split("::")[-1]}' for g, ts in bare.items() for T in ts)
    return [res]


# ---------------------------------------------------------------------------------------------------------------------
# CHILD-EXPR-COMMENTS (C09): every expression has a leading-comment slot behind `E::common()`. A printer function *covers*
# an expression parameter when, on every path to its return, it either reads `E::common(p).associated_comments` or hands p
# itself to a printer function that covers it (the generic `create_doc` wrapper is the base case). A function that
# destructures the expression on some path without covering it (the dotted-chain flattener, the `_without_preceding_comment`
# printer) leaves the slot to whoever passed the expression in. That is fine while the argument is the caller's own
# parameter (the obligation moves up, and ends at the wrapper); it is a dropped comment when the argument is a *child*
# taken out of another node - nobody above knows about that child - unless the caller reads the child's slot itself or
# gives the child to some other function that reads it.

E_NAME = 'samlang_ast::source::expr::E'


def _is_expr_ref(t):
    t = _unbox(t)
    return t.k == 'adt' and t.name == E_NAME


def run_child_expr(prog, tier, repo):
    from ..cfg import cfg_of
    res = RuleResult('CHILD-EXPR-COMMENTS', 'C09: a sub-expression taken out of a node and handed to a printer function that does not '
                     'print the leading comments of its argument on every path has those comments printed by the function handing it over')
    slots, common_id = _slot_types(prog)
    bodies = {i: b for i, b in prog.bodies.items() if b.crate == CRATE and '::tests' not in b.name}
    if common_id is None or not bodies:
        res.cannot_decide('ExpressionCommon / printer bodies not found')
        return [res]
    eparams = {}       # body id -> [param locals of type &E]
    for i, b in bodies.items():
        ps = [k for k in range(1, b.nargs + 1) if _is_expr_ref(b.locals[k])]
        if ps and 'Document' in b.locals[0].s:
            eparams[i] = ps

    def same_node(b, op, p):
        if op[0] not in ('c', 'm'):
            return False
        r, path = operand_root(b, op)
        return r == p and not any(e[0] in ('f', 't', 'v') for e in path)

    def common_reads(b):
        """[(bb, receiver operand)] for calls of E::common whose result's associated_comments is read."""
        out = []
        for bi, bl in enumerate(b.blocks):
            t = bl.term
            if bl.cleanup or t[0] != 'call' or t[4] is None:
                continue
            nm = callee(t)[1] or ''
            if not (nm.endswith('::common') and 'expr::E' in nm) or not t[3]:
                continue
            dl = t[4].local
            used = False
            for b2 in [b]:
                from ..core import places_read
                for pl, _bi, _ln in places_read(b2):
                    root, path = root_local(b2, pl.local)
                    full = tuple(path) + tuple(e for e in pl.proj if e[0] == 'f')
                    if (root == dl or pl.local == dl) and any(e[0] == 'f' and e[4] == SLOT for e in full):
                        used = True
            if used:
                out.append((bi, t[3][0]))
        return out
    creads = {i: common_reads(b) for i, b in bodies.items()}
    covers = {}        # (body id, param) -> bool ; least fixpoint from False

    def compute(i, p):
        b = bodies[i]
        blocks = [bi for bi, o in creads[i] if same_node(b, o, p)]
        for bi, bl in enumerate(b.blocks):
            t = bl.term
            if bl.cleanup or t[0] != 'call':
                continue
            cid = callee(t)[0]
            if cid in eparams:
                for j, o in enumerate(t[3]):
                    if (j + 1) in eparams[cid] and same_node(b, o, p) and covers.get((cid, j + 1), False):
                        blocks.append(bi)
        if not blocks:
            return False
        cfg = cfg_of(b)
        rets = [bi for bi, bl in enumerate(b.blocks) if bl.term[0] == 'ret' and not bl.cleanup]
        return bool(rets) and all(cfg.nodes_dominate(blocks, r) for r in rets)
    for _ in range(8):
        changed = False
        for i, ps in eparams.items():
            for p in ps:
                v = compute(i, p)
                if v != covers.get((i, p), False):
                    covers[(i, p)] = v
                    changed = True
        if not changed:
            break
    # reads "somewhere" (any path): used for the caller-side credit
    reads_some = {(i, p) for i, ps in eparams.items() for p in ps
                  if any(same_node(bodies[i], o, p) for _bi, o in creads[i])}
    n = 0
    for i in sorted(bodies, key=lambda x: bodies[x].name):
        b = bodies[i]
        for bi, bl in enumerate(b.blocks):
            t = bl.term
            if bl.cleanup or t[0] != 'call':
                continue
            cid = callee(t)[0]
            if cid not in eparams:
                continue
            for j, o in enumerate(t[3]):
                if (j + 1) not in eparams[cid] or o[0] not in ('c', 'm'):
                    continue
                if covers.get((cid, j + 1), False):
                    continue
                r, path = operand_root(b, o)
                own = r is not None and 1 <= r <= b.nargs and not any(e[0] in ('f', 't', 'v') for e in path) and b.kind != 'closure'
                # a parent expression passed only for its precedence is not printed by the callee at all
                g = bodies[cid]
                if not _destructures(g, j + 1):
                    continue
                n += 1
                nth = sum(1 for x in res.instances if x.key.startswith(f'child:{b.name}->{g.name}#')) + 1
                key = f'child:{b.name}->{g.name}#{nth}'
                if own:
                    res.ok(key, b.loc(t[7]), 'passes its own parameter on: the obligation is on its callers')
                    continue
                # caller-side credit: the same child goes to E::common here, or to a function reading its slot
                credited = False
                for _bi2, o2 in creads[i]:
                    if operand_root(b, o2) == (r, path):
                        credited = True
                for bl2 in b.blocks:
                    t2 = bl2.term
                    if bl2.cleanup or t2[0] != 'call' or t2 is t:
                        continue
                    c2 = callee(t2)[0]
                    if c2 in eparams and c2 != cid:
                        for j2, o3 in enumerate(t2[3]):
                            if (j2 + 1) in eparams[c2] and o3[0] in ('c', 'm') and operand_root(b, o3) == (r, path) \
                                    and ((c2, j2 + 1) in reads_some or covers.get((c2, j2 + 1), False)):
                                credited = True
                if credited:
                    res.ok(key, b.loc(t[7]), 'the child\'s leading comments are read by the function handing it over')
                else:
                    res.violation(key, b.loc(t[7]), f'{b.name} takes a sub-expression out of a node and hands it to {g.name}, which '
                                  f'destructures its argument without printing `common().associated_comments` on every path, and '
                                  f'{b.name} does not read that slot of the child either: comments attached to that sub-expression '
                                  f'(`/* c */ (a.b).c` attaches `c` to the inner `a.b`) are dropped by the formatter')
    res.floor('expression hand-overs to non-covering printers inspected', n, 3)
    res.analysed['covering_printers'] = sorted(f'{bodies[i].name}#{p}' for (i, p), v in covers.items() if v)
    res.analysed['non_covering_printers'] = sorted(f'{bodies[i].name}#{p}' for i, ps in eparams.items() for p in ps
                                                   if not covers.get((i, p), False) and _destructures(bodies[i], p))
    return [res]


def _destructures(b, p):
    """The body projects into the expression parameter (reads a variant payload), i.e. prints parts of it inline."""
    from ..core import places_read
    for pl, _bi, _ln in places_read(b):
        root, path = root_local(b, pl.local)
        if root == p and (any(e[0] in ('f', 'v') for e in path) or any(e[0] in ('f', 'v') for e in pl.proj)):
            return True
    return False
