"""LOC-ENCLOSES (C14): the location the parser stores in a syntax node encloses the locations of the node's sub-parts.

Locations are glued together with `Location::union` in every production. `union` takes the smaller start and the larger
end, so a node location built from the sources {s1..sk} covers everything the parser consumed between the earliest and the
latest of them. Tokens are consumed in source order, so "between" can be read off the control flow: a sub-part parsed by
a call at program point c is enclosed iff one source was obtained no later than c and one no earlier than c.

  sources    a peeked / consumed token's location (tuple field .0 of peek(), assert_and_consume_*(), assert_and_peek_*()) at
             the call's program point; the location of a child node (`.loc` / `.location` field, `loc()` / `location()`
             method, ExpressionCommon.loc) at the point of the call that produced the child; `parser.last_location` at the
             point of the read; a Location / node parameter at function entry; provenance is propagated through copies,
             references, `union` results and re-assigned `let mut loc` locals (union over the definitions);
  obligation at every construction of a location-carrying node of the untyped tree, for every operand that is (a container
             of) a child node or token produced in this function at point c: some source of the node's location is at a point
             that dominates c or is c, and some source is at a point that c dominates, that post-dominates c, or is c.
A node whose location cannot be traced to such sources is reported as undecidable (fail closed)."""
from ..core import RuleResult
from ..cfg import cfg_of, single_def, def_sites, succs
from ..dataflow import root_local, operand_root
from ..facts import callee, strip_refs

ENTRY = -1


def _is_loc(t):
    t = strip_refs(t)
    return t.k == 'adt' and t.name.split('::')[-1] == 'Location' and t.name.startswith('samlang_ast')


def _peel(t):
    t = strip_refs(t)
    while t.k == 'adt' and t.name.split('<')[0] in ('std::boxed::Box', 'std::vec::Vec', 'std::option::Option') and t.args:
        t = strip_refs(t.args[0])
    return t


class Enclose:
    def __init__(self, prog, b):
        self.prog, self.b = prog, b
        self.cfg = cfg_of(b)
        self.memo = {}
        self.compute_births()

    def node_adt(self, t):
        t = _peel(t)
        if t.k == 'adt' and t.name.startswith('samlang_ast::source') and t.id in self.prog.adts:
            return self.prog.adts[t.id]
        return None

    def has_loc(self, adt, seen=None):
        """does a value of this ADT carry a location (own field, ExpressionCommon, or through its variants' payloads)?"""
        seen = seen if seen is not None else set()
        if adt.id in seen:
            return False
        seen.add(adt.id)
        for v in adt.variants:
            for f in v.fields:
                if _is_loc(f.ty):
                    return True
                a2 = self.node_adt(f.ty)
                if a2 is not None and (a2.name.endswith('ExpressionCommon') or self.has_loc(a2, seen)):
                    return True
        return False

    def relevant(self, t):
        """can a value of this type carry a source position: a Location, a location-carrying node, or a container / tuple / reference of such"""
        t = strip_refs(t)
        if _is_loc(t):
            return True
        if t.k == 'tup':
            return any(self.relevant(x) for x in t.args)
        a = self.node_adt(t)
        if a is not None:
            return not a.name.endswith('CommentReference') and (self.has_loc(a) or a.name.endswith('ExpressionCommon'))
        t2 = _peel(t)
        return t2 is not t and self.relevant(t2)

    # ---- production time of a local's value: the block of the call that produced it -----------
    def compute_births(self):
        """births[l] = program points (blocks, or ENTRY) at which the position information held by local l was obtained from
        the parser; least fixpoint over all definitions (loop-carried `let mut` nodes refer to themselves)."""
        b = self.b
        births = {l: set() for l in range(len(b.locals))}
        for l in range(1, b.nargs + 1):
            births[l].add(ENTRY)
        defs = def_sites(b)
        tfield = {}        # (tuple local, index) -> births of that component, for tuples built by an aggregate in this body

        def of_place(pl, at_block):
            if 1 <= pl.local <= b.nargs and len(pl.proj) >= 2 and pl.proj[0][0] == 'd' and pl.proj[1][0] == 'f' \
                    and pl.proj[1][1].endswith('SourceParser'):
                return {at_block}
            if pl.proj and pl.proj[0][0] == 't' and (pl.local, pl.proj[0][1]) in tfield:
                return tfield[(pl.local, pl.proj[0][1])]
            return births[pl.local]

        def of_op(o, at_block):
            if o[0] not in ('c', 'm'):
                return set()
            return of_place(o[1], at_block)
        fallback = False
        changed = True
        rounds = 0
        while (changed or not fallback) and rounds < 100:
            if not changed and not fallback:
                fallback = True     # accessor results that still have no source count as obtained at their own call
            changed = False
            rounds += 1
            for l, ds in defs.items():
                if 1 <= l <= b.nargs:
                    continue
                acc = set()
                for d in ds:
                    if b.blocks[d[0]].cleanup:
                        continue
                    if d[1] == 'term':
                        t = d[2]
                        short = (callee(t)[1] or '').split('::')[-1]
                        if short == 'union' and len(t[3]) == 2:
                            for o in t[3]:
                                acc |= of_op(o, d[0])
                        elif short in ('new', 'with_capacity', 'default', 'from', 'into', 'new_uninit', 'box_assume_init_into_vec_unsafe'):
                            # constructors / conversions: position information only from the argument, none of their own
                            for o in t[3][:1]:
                                acc |= of_op(o, d[0])
                        elif short in ('loc', 'location', 'common', 'as_ref', 'deref', 'clone', 'dupe', 'unwrap', 'first', 'last',
                                       'into_iter', 'as_mut', 'pop', 'expect', 'unwrap_or', 'iter', 'get', 'map', 'collect',
                                       'collect_vec', 'rev', 'cloned', 'copied', 'chain', 'to_vec', 'filter', 'take', 'skip',
                                       'as_slice', 'as_mut_slice', 'iter_mut', 'unwrap_or_default', 'map_or', 'map_or_else',
                                       'unwrap_or_else', 'and_then', 'or_else', 'then', 'then_some', 'or', 'zip', 'find',
                                       'find_map', 'filter_map', 'flat_map', 'fold', 'min', 'max', 'next', 'peekable', 'index', 'index_mut') and t[3]:
                            inner = set()
                            for o in t[3]:
                                inner |= of_op(o, d[0])
                            acc |= inner if (inner or not fallback) else {d[0]}
                        else:
                            acc.add(d[0])
                    else:
                        rv = d[2]
                        if rv[0] in ('use', 'cast'):
                            acc |= of_op(rv[1] if rv[0] == 'use' else rv[2], d[0])
                        elif rv[0] in ('ref', 'copyderef'):
                            acc |= of_place(rv[2] if rv[0] == 'ref' else rv[1], d[0])
                        elif rv[0] == 'agg':
                            for k, o in enumerate(rv[2]):
                                if o[0] in ('c', 'm') and self.relevant(b.locals[o[1].local]):
                                    part = of_op(o, d[0])
                                    acc |= part
                                    if rv[1][0] == 'tuple':
                                        cur = tfield.setdefault((l, k), set())
                                        if not part <= cur:
                                            cur |= part
                                            changed = True
                                elif rv[1][0] == 'tuple':
                                    tfield.setdefault((l, k), set())
                if not acc <= births[l]:
                    births[l] |= acc
                    changed = True
            # values written into a part of a local (`(*box).value = [a, b]`, `node.field = x`) become part of that local
            for bi, bl in enumerate(b.blocks):
                if bl.cleanup:
                    continue
                for st in bl.stmts:
                    if st[0] != 'a' or not st[1].proj:
                        continue
                    base = st[1].local
                    rv = st[2]
                    add = set()
                    if rv[0] in ('use', 'cast'):
                        o = rv[1] if rv[0] == 'use' else rv[2]
                        if o[0] in ('c', 'm') and self.relevant(b.locals[o[1].local]):
                            add |= of_op(o, bi)
                    elif rv[0] == 'agg':
                        for o in rv[2]:
                            if o[0] in ('c', 'm') and self.relevant(b.locals[o[1].local]):
                                add |= of_op(o, bi)
                    if add and not add <= births[base]:
                        births[base] |= add
                        changed = True
            # values pushed into a vector / stored through a reference become part of that vector
            for bi, bl in enumerate(b.blocks):
                t = bl.term
                if bl.cleanup or t[0] != 'call' or len(t[3]) < 2:
                    continue
                short = (callee(t)[1] or '').split('::')[-1]
                if short in ('push', 'insert', 'extend', 'append', 'push_back'):
                    r, _ = operand_root(b, t[3][0])
                    if r is None:
                        continue
                    add = set()
                    for o in t[3][1:]:
                        if o[0] in ('c', 'm') and self.relevant(b.locals[o[1].local]):
                            add |= of_op(o, bi)
                    if not add <= births[r]:
                        births[r] |= add
                        changed = True
        self.births = births
        self._of_op = of_op

    def birth_op(self, o, depth=0):
        return set(self._of_op(o, 0))

    def before(self, s, c):
        if s == ENTRY or s == c:
            return True
        if c == ENTRY:
            return False
        return self.cfg.nodes_dominate([s], c)

    def after(self, s, c, at):
        """the source s was obtained no earlier than c on every path from c to the construction at block `at`"""
        if s == c:
            return True
        if s == ENTRY:
            return False
        if c == ENTRY:
            return self.cfg.nodes_dominate([s], at)
        if s == at:
            return True
        # every path c -> at passes s
        return at not in self.cfg.reachable(c, removed_nodes=[s]) or not self.cfg.can_reach(c, at)


def _selectors_on(b, op, vec_local, depth=0, seen=None):
    """How does the derivation of operand `op` select from the vector local `vec_local`? Returns the list of selector kinds
    ('first', 'index0', 'next', 'last', 'other') met while following copies, references, fields, `union` and accessor calls."""
    seen = seen if seen is not None else set()
    out = []
    if op[0] not in ('c', 'm') or depth > 12:
        return out
    r, _p = root_local(b, op[1].local)
    if r in seen:
        return out
    seen.add(r)
    if r == vec_local:
        return ['other']
    for d in def_sites(b).get(r, []):
        if b.blocks[d[0]].cleanup:
            continue
        if d[1] == 'term':
            t = d[2]
            short = (callee(t)[1] or '').split('::')[-1]
            args = [o for o in t[3] if o[0] in ('c', 'm')]
            if args and root_local(b, args[0][1].local)[0] == vec_local or (
                    args and short in ('index', 'index_mut', 'first', 'last', 'get', 'next') and
                    _selectors_on(b, args[0], vec_local, depth + 1, set(seen)) == ['other']):
                if short in ('index', 'index_mut', 'get'):
                    k0 = t[3][1] if len(t[3]) > 1 else None
                    zero = k0 is not None and k0[0] == 'k' and k0[1].i == 0
                    out.append('index0' if zero else 'other')
                elif short in ('first', 'next'):
                    out.append(short)
                elif short == 'last':
                    out.append('last')
                else:
                    out.append('other')
                continue
            for o in args:
                out += _selectors_on(b, o, vec_local, depth + 1, seen)
        else:
            rv = d[2]
            from ..callgraph import iter_operands_rvalue as _it
            ops_ = list(_it(rv))
            if rv[0] == 'ref':
                ops_.append(('c', rv[2]))
            elif rv[0] == 'copyderef':
                ops_.append(('c', rv[1]))
            for o in ops_:
                out += _selectors_on(b, o, vec_local, depth + 1, seen)
    return out


def run(prog, tier, repo):
    res = RuleResult('LOC-ENCLOSES', 'C14: the location stored in every syntax node the parser builds encloses the locations of the '
                     'node\'s sub-parts (its sources include one obtained no later and one obtained no earlier than each sub-part)')
    n = 0
    for b in sorted(prog.bodies.values(), key=lambda x: x.name):
        if b.crate != 'samlang_parser' or '::source_parser::' not in b.name + '::' or '::tests' in b.name:
            continue
        an = None
        for bi, bl in enumerate(b.blocks):
            if bl.cleanup:
                continue
            for st in bl.stmts:
                if st[0] != 'a' or st[2][0] != 'agg' or st[2][1][0] != 'adt':
                    continue
                adt = prog.adts.get(st[2][1][1])
                if adt is None or not adt.name.startswith('samlang_ast::source') or adt.name.endswith('ExpressionCommon'):
                    continue
                vi = st[2][1][2]
                fields = adt.variants[vi].fields
                ops = st[2][2]
                if len(ops) != len(fields):
                    continue
                an = an or Enclose(prog, b)
                # the node's own location operand
                loc_op = None
                for k, f in enumerate(fields):
                    if _is_loc(f.ty) and f.name in ('loc', 'location', '0'):
                        loc_op = ops[k]
                        break
                    a2 = an.node_adt(f.ty)
                    if a2 is not None and a2.name.endswith('ExpressionCommon') and _peel(f.ty).id == a2.id and f.ty.k == 'adt':
                        # common: ExpressionCommon { loc, .. } built in this function
                        if ops[k][0] in ('c', 'm') and not ops[k][1].proj:
                            sd = single_def(b, ops[k][1].local)
                            if sd and sd[1] != 'term' and sd[2][0] == 'agg' and sd[2][1][0] == 'adt' and sd[2][1][1] == a2.id:
                                loc_op = sd[2][2][0]
                        break
                if loc_op is None:
                    continue
                children = []
                for k, f in enumerate(fields):
                    if ops[k] is loc_op:
                        continue
                    if ops[k][0] not in ('c', 'm'):
                        continue
                    # the operand's own (instantiated) type: fields typed by a generic parameter hide the node type
                    a2 = an.node_adt(b.locals[ops[k][1].local]) or an.node_adt(f.ty)
                    if a2 is None or a2.name.endswith(('ExpressionCommon', 'CommentReference')) or not an.has_loc(a2):
                        continue
                    births = an.birth_op(ops[k])
                    if births:
                        children.append((f.name, births))
                if not children:
                    continue
                n += 1
                sname = adt.name.split('source::')[-1] + (f'::{adt.variants[vi].name}' if adt.kind == 'enum' else '')
                nb = sum(1 for i in res.instances if i.key.startswith(f'node:{b.name}:{sname}#')) + 1
                key = f'node:{b.name}:{sname}#{nb}'
                srcs = an.birth_op(loc_op)
                if not srcs:
                    res.violation(key, b.loc(st[3]), f'{b.name}: cannot trace where the location of the {sname} node comes from '
                                  f'(not a token location, child location, parser.last_location, parameter or union of these)')
                    continue
                bad = []
                real = [x for x in srcs if x != ENTRY]
                for fname, births in children:
                    for c in births:
                        if c in srcs:
                            continue
                        # (a) on every path from the entry to c one of the sources has been obtained
                        if ENTRY not in srcs and (c == ENTRY or not an.cfg.nodes_dominate(real, c)):
                            bad.append((fname, 'starts before the node\'s location can'))
                        # (b) on every path from c to this construction one of the sources is obtained
                        start = 0 if c == ENTRY else c
                        if bi != start and bi in an.cfg.reachable(start, removed_nodes=[x for x in real if x != start]) and bi not in real:
                            bad.append((fname, 'ends after the node\'s location can'))
                # a list child is covered to its end only if the location looks at more than the list's first element
                for k2, f2 in enumerate(fields):
                    if ops[k2] is loc_op or ops[k2][0] not in ('c', 'm'):
                        continue
                    vroot = root_local(b, ops[k2][1].local)[0]
                    if vroot is None or not strip_refs(b.locals[vroot]).s.startswith('std::vec::Vec'):
                        continue
                    sel = _selectors_on(b, loc_op, vroot)
                    if sel and all(x in ('first', 'index0', 'next') for x in sel):
                        cb_ = an.birth_op(ops[k2])
                        later = [x for x in real if x not in cb_ and all(an.after(x, c, bi) for c in cb_ if c != ENTRY)]
                        if not later:
                            bad.append((f2.name, 'has more than one element but only its first element takes part in the node\'s location, '
                                        'which therefore ends before the later elements do'))
                # siblings: a child node built in this function must not enclose another child of the same parent
                for k, f in enumerate(fields):
                    if ops[k] is loc_op or ops[k][0] not in ('c', 'm') or ops[k][1].proj:
                        continue
                    sdk = single_def(b, ops[k][1].local)
                    if not (sdk and sdk[1] != 'term' and sdk[2][0] == 'agg' and sdk[2][1][0] == 'adt'):
                        continue
                    cadt = prog.adts.get(sdk[2][1][1])
                    if cadt is None or not cadt.name.startswith('samlang_ast::source') or cadt.name.endswith('ExpressionCommon'):
                        continue
                    cfields = cadt.variants[sdk[2][1][2]].fields
                    cloc = None
                    for kk, cf in enumerate(cfields):
                        if _is_loc(cf.ty) and cf.name in ('loc', 'location') and kk < len(sdk[2][2]):
                            cloc = sdk[2][2][kk]
                    if cloc is None:
                        continue
                    s1 = an.birth_op(cloc)
                    if not s1:
                        continue
                    real1 = [x for x in s1 if x != ENTRY]
                    bj = sdk[0] if isinstance(sdk[0], int) else bi
                    for fname2, births2 in children:
                        if fname2 == f.name or len(births2) != 1:
                            continue      # only siblings produced at one definite point (a single parse call)
                        for c in births2:
                            if c == ENTRY:
                                continue
                            before = ENTRY in s1 or an.cfg.nodes_dominate(real1, c)
                            inside = c in s1
                            after = any(x != c and x in an.cfg.reachable(c, removed_edges=an.cfg.back_edges()) for x in real1)
                            if inside or (before and after and c not in real1):
                                ks = f'siblings:{b.name}:{sname}.{f.name}/{fname2}'
                                if not any(i.key == ks for i in res.instances):
                                    res.violation(ks, b.loc(st[3]), f'{b.name}: the `{f.name}` part of the {sname} node gets a location '
                                                  f'that takes in its sibling `{fname2}` (one of its sources is obtained at or after the '
                                                  f'point where `{fname2}` is parsed): sibling constructs overlap, so a position inside '
                                                  f'`{fname2}` is also inside `{f.name}` and position-based search picks the wrong part')
                if bad:
                    fn, why = bad[0]
                    res.violation(key, b.loc(st[3]), f'{b.name}: the location of the {sname} node is a union of locations none of which is '
                                  f'obtained {"no later" if "starts" in why else "no earlier"} than its sub-part `{fn}`: `{fn}` '
                                  f'{why}, so the node does not enclose it and position-based search (hover, go-to-definition, '
                                  f'folding) mis-targets inside this construct')
                else:
                    res.ok(key, b.loc(st[3]), f'location encloses {", ".join(c[0] for c in children)}')
    res.floor('location-carrying nodes with sub-parts', n, 30)
    return [res]


# ---------------------------------------------------------------------------------------------------------------------
# NAME-LOC-PAIR (C14): "for a name the position covers exactly the characters that spell that name". The lexer attaches a
# location to each token; an identifier node is faithful iff its `loc` and its `name` are taken from the same token, i.e.
# both operands of every `Id { loc, name, .. }` the parser builds trace back to the same peek()/assert_and_peek_*() result (or
# to the same existing Id). A constant name (the placeholder of a reported error) is exempt.

def run_name_loc_pair(prog, tier, repo):
    res = RuleResult('NAME-LOC-PAIR', 'C14: every identifier node takes its location and its name from the same token')
    n = 0
    for b in sorted(prog.bodies.values(), key=lambda x: x.name):
        if b.crate != 'samlang_parser' or '::source_parser::' not in b.name + '::' or '::tests' in b.name:
            continue
        for bi, bl in enumerate(b.blocks):
            if bl.cleanup:
                continue
            for st in bl.stmts:
                if st[0] != 'a' or st[2][0] != 'agg' or st[2][1][0] != 'adt' or st[2][1][1] != 'samlang_ast::source::Id':
                    continue
                adt = prog.adts.get(st[2][1][1])
                fn = [f.name for f in adt.variants[0].fields]
                if 'loc' not in fn or 'name' not in fn:
                    continue
                lo, no = st[2][2][fn.index('loc')], st[2][2][fn.index('name')]
                if no[0] == 'k':
                    continue        # placeholder name
                n += 1
                nb = sum(1 for i in res.instances if i.key.startswith(f'id:{b.name}#')) + 1
                key = f'id:{b.name}#{nb}'
                rl, _ = operand_root(b, lo) if lo[0] in ('c', 'm') else (None, ())
                rn, _ = operand_root(b, no) if no[0] in ('c', 'm') else (None, ())

                def src(r):
                    # look through moves of call results `(loc, name, comments) = call()`
                    hops = 0
                    while r is not None and hops < 6:
                        hops += 1
                        sd = single_def(b, r)
                        if sd and sd[1] != 'term' and sd[2][0] == 'use' and sd[2][1][0] in ('c', 'm'):
                            r2, _ = operand_root(b, sd[2][1])
                            if r2 is None or r2 == r:
                                break
                            r = r2
                        else:
                            break
                    return r
                rl, rn = src(rl), src(rn)
                if rl is not None and rl == rn:
                    res.ok(key, b.loc(st[3]), 'location and name come from the same token / identifier')
                else:
                    # a name constant selected on an error path
                    sdn = single_def(b, rn) if rn is not None else None
                    res.violation(key, b.loc(st[3]), f'{b.name} builds an identifier whose location and name do not come from the same '
                                  f'token: the reported range does not spell the name, so rename edits and go-to-definition ranges are '
                                  f'off for this construct')
    res.floor('identifier nodes built by the parser', n, 3)
    return [res]


# ---------------------------------------------------------------------------------------------------------------------
# RESULT-LOC-IS-NAME (C14): the cursor search reports named things (a local, a class, a member, a field). The position it
# reports for a name must be the location of that name's identifier node - `Id.loc` - and not the location of a larger node
# that contains the identifier (an annotation with its type arguments, a whole expression): hover ranges, the key used for
# the definition/uses lookup and rename edits all take this position to cover exactly the characters of the name.

def run_result_loc(prog, tier, repo):
    res = RuleResult('RESULT-LOC-IS-NAME', 'C14: every name-carrying result of the cursor search reports the location of the '
                     'identifier node itself (`Id.loc`), not of an enclosing construct')
    adt = [a for a in prog.adts.values() if a.name.endswith('location_cover::LocationCoverSearchResult')]
    if len(adt) != 1:
        res.cannot_decide('location_cover::LocationCoverSearchResult')
        return [res]
    adt = adt[0]
    n = 0
    for b in sorted(prog.bodies.values(), key=lambda x: x.name):
        if b.crate != 'samlang_services' or '::location_cover::' not in b.name + '::' or '::tests' in b.name:
            continue
        for bl in b.blocks:
            if bl.cleanup:
                continue
            for st in bl.stmts:
                if st[0] != 'a' or st[2][0] != 'agg' or st[2][1][0] != 'adt' or st[2][1][1] != adt.id:
                    continue
                v = adt.variants[st[2][1][2]]
                # variants that name something: they carry a Location and a name (PStr) or a type for a name
                if not v.fields or not _is_loc(v.fields[0].ty) or v.name == 'Expression':
                    continue
                n += 1
                nb = sum(1 for i in res.instances if i.key.startswith(f'result:{b.name}:{v.name}#')) + 1
                key = f'result:{b.name}:{v.name}#{nb}'
                o = st[2][2][0]
                ok = False
                what = 'a computed location'
                if o[0] in ('c', 'm'):
                    r, p = operand_root(b, o)
                    from ..dataflow import through_capture
                    _pb, r, p = through_capture(prog, b, r, p)      # `cond.then(|| TypedName(id.loc, ..))`: look in the parent
                    fs = [e for e in p if e[0] == 'f']
                    if fs:
                        last = fs[-1]
                        owner = prog.adts.get(last[1])
                        what = f'`{owner.name.split("::")[-1] if owner else "?"}.{last[4]}`'
                        ok = owner is not None and owner.name == 'samlang_ast::source::Id' and last[4] == 'loc'
                        # a type-parameter annotation consists of the identifier only: the parser builds T::Generic with the
                        # location of an identifier annotation *without* type arguments, which is the identifier's location
                        if owner is not None and owner.name == 'samlang_ast::source::annotation::T' and owner.variants[last[2]].name == 'Generic' \
                                and last[3] == 0:
                            ok = True
                if ok:
                    res.ok(key, b.loc(st[3]), 'location of the identifier node')
                else:
                    res.violation(key, b.loc(st[3]), f'{b.name} reports {what} as the position of a name in a {v.name} result: the range is '
                                  f'that of an enclosing construct (e.g. `Box<int>` for the name `Box`), so hover, the definition lookup '
                                  f'key and rename edits do not cover exactly the characters of the name')
    res.floor('name-carrying search results', n, 6)
    return [res]


# ---------------------------------------------------------------------------------------------------------------------
# CURSOR-LOC-FRESH (C14): the parser keeps `last_location`, the location of the last token handed out by its cursor. It is
# the location of the last *consumed* token only right after `consume()`: every later `peek()` lexes ahead and overwrites it
# with the location of each comment it skips. A node location built from `last_location` after something else has touched
# the cursor therefore ends at a comment that follows the construct (`import {A} from M /* c */`), so a name's location no
# longer covers exactly the name. Rule: outside the cursor functions themselves (the bodies that write the field), every
# read of the field is reached only directly after a call of the consuming cursor function - no other call taking the parser
# may lie between on any path. Zero reads is the ideal state (locations come from tokens).

def run_cursor_loc_fresh(prog, tier, repo):
    from ..core import places_read
    res = RuleResult('CURSOR-LOC-FRESH', 'C14: the parser\'s last-token location is read for a node location only directly after a '
                     'token was consumed - a peek in between moves it over the comments that follow')
    parser_adt = [a for a in prog.adts.values() if a.crate == 'samlang_parser' and a.kind == 'struct' and a.variants
                  and any(f.name == 'last_location' for f in a.variants[0].fields)]
    if len(parser_adt) != 1:
        res.cannot_decide(f'the parser struct holding `last_location` (found {len(parser_adt)})')
        return [res]
    pid = parser_adt[0].id

    def touches(pl):
        return any(e[0] == 'f' and e[1] == pid and e[4] == 'last_location' for e in pl.proj)
    writers, readers = set(), []
    for b in prog.bodies.values():
        if b.crate != 'samlang_parser' or '::tests' in b.name:
            continue
        for bl in b.blocks:
            for st in bl.stmts:
                if st[0] == 'a' and touches(st[1]):
                    writers.add(b.id)
    consuming = set()      # writers that take the peeked token (write `peeked` = None / call Option::take on it)
    for wid in writers:
        wb = prog.bodies[wid]
        for bl in wb.blocks:
            for st in bl.stmts:
                if st[0] == 'a' and any(e[0] == 'f' and e[4] == 'peeked' for e in st[1].proj):
                    rv = st[2]
                    if rv[0] == 'use' and rv[1][0] in ('c', 'm') and not rv[1][1].proj:
                        sd = single_def(wb, rv[1][1].local)
                        rv = sd[2] if sd and sd[1] != 'term' else rv
                    if (rv[0] == 'agg' and rv[1][0] == 'adt' and rv[1][3] == 'None') or \
                            (rv[0] == 'use' and rv[1][0] == 'k' and 'None' in (rv[1][1].v or '')):
                        consuming.add(wid)
        for bl in wb.blocks:
            t = bl.term
            if t[0] == 'call' and (callee(t)[1] or '').endswith('::take') and t[3] and t[3][0][0] in ('c', 'm'):
                r, p = operand_root(wb, t[3][0])
                if any(e[0] == 'f' and e[4] == 'peeked' for e in p):
                    consuming.add(wid)
    if not writers or not consuming:
        res.cannot_decide('the cursor functions writing `last_location` / taking the peeked token')
        return [res]
    n = 0
    for b in sorted(prog.bodies.values(), key=lambda x: x.name):
        if b.crate != 'samlang_parser' or '::tests' in b.name or b.id in writers:
            continue
        reads = [(bi, line) for pl, bi, line in places_read(b) if touches(pl)]
        if not reads:
            continue
        # parser-taking calls per block
        def parser_call(bl):
            t = bl.term
            if t[0] != 'call' or bl.cleanup:
                return None
            for o in t[3]:
                if o[0] in ('c', 'm') and strip_refs(b.locals[o[1].local]).k == 'adt' and strip_refs(b.locals[o[1].local]).id == pid:
                    return callee(t)[0] or '?'
            return None
        preds = {}
        for bi in range(len(b.blocks)):
            for s in succs(b, bi):
                preds.setdefault(s, []).append(bi)
        for k, (rb, line) in enumerate(sorted(set(reads)), 1):
            n += 1
            # walk backwards from the read; the first parser-taking call met on each path must be the consuming cursor function
            bad, seen, stack = None, set(), list(preds.get(rb, []))
            reached_entry = rb == 0
            while stack and bad is None:
                x = stack.pop()
                if x in seen:
                    continue
                seen.add(x)
                c = parser_call(b.blocks[x])
                if c is not None:
                    if c not in consuming:
                        bad = (x, c)
                    continue
                if x == 0:
                    reached_entry = True
                stack.extend(preds.get(x, []))
            key = f'cursor-loc:{b.name}#{k}'
            if bad is not None:
                nm = prog.bodies[bad[1]].name if bad[1] in prog.bodies else bad[1]
                res.violation(key, b.loc(line), f'{b.name} reads the parser\'s `last_location` after a call of {nm} (line '
                              f'{b.blocks[bad[0]].term[7]}) that may have looked ahead: the cursor has already skipped the comments that '
                              f'follow and `last_location` points at the last of them, so the location built here extends over text '
                              f'that is not part of the construct')
            elif reached_entry:
                res.violation(key, b.loc(line), f'{b.name} reads `last_location` on a path with no consumed token before it in this '
                              f'function: what the cursor last looked at is unknown here')
            else:
                res.ok(key, b.loc(line), 'read directly after a token was consumed')
    if n == 0:
        res.ok('cursor-loc:no-read-outside-the-cursor', parser_adt[0].file + f':{parser_adt[0].line}',
               'no node location is built from `last_location`; locations come from tokens')
    res.analysed['cursor_functions'] = sorted(prog.bodies[i].name for i in writers)
    res.analysed['consuming_cursor_functions'] = sorted(prog.bodies[i].name for i in consuming)
    res.analysed['reads_outside_cursor'] = n
    return [res]


# ---------------------------------------------------------------------------------------------------------------------
# POSITION-FROM-TOKENS (C14): line/column pairs are computed in one place, the character-level lexer, which advances a
# cursor over the text. Everything above it (the token producer that merges and filters tokens, the parser) must build
# locations out of positions it was given - copying a start or an end, or `union` - never by arithmetic on a line or a
# column: `start.column + text.len()` is only the end of the token when the token sits on one line with no blanks inside,
# which the merged `- 2147483648` literal does not guarantee.

def run_position_from_tokens(prog, tier, repo):
    res = RuleResult('POSITION-FROM-TOKENS', 'C14: above the character-level lexer no position is computed arithmetically - token '
                     'producer and parser only copy and unite the positions the lexer assigned')
    pos_adt = [a for a in prog.adts.values() if a.name == 'samlang_ast::loc::Position' or a.name.endswith('::Position') and a.crate == 'samlang_ast']
    if len(pos_adt) != 1:
        res.cannot_decide(f'samlang_ast Position (found {len(pos_adt)})')
        return [res]
    pid = pos_adt[0].id

    def arithmetic(b, op, depth=0):
        if op[0] == 'k':
            return False
        if op[0] not in ('c', 'm') or depth > 8:
            return False
        r, path = root_local(b, op[1].local)
        sd = single_def(b, r)
        if not sd:
            return False
        if sd[1] == 'term':
            nm = (callee(sd[2])[1] or '').split('::')[-1]
            return nm in ('add', 'sub', 'checked_add', 'checked_sub', 'wrapping_add', 'wrapping_sub', 'saturating_add',
                          'saturating_sub', 'mul', 'len') and not any(e[0] == 'f' for e in path)
        rv = sd[2]
        if rv[0] == 'bin':
            return True
        if rv[0] == 'use':
            return arithmetic(b, rv[1], depth + 1)
        if rv[0] == 'cast':
            return arithmetic(b, rv[2], depth + 1)
        return False
    n = n_lex = 0
    for b in sorted(prog.bodies.values(), key=lambda x: x.name):
        if b.crate != 'samlang_parser' or '::tests' in b.name:
            continue
        in_char_lexer = (b.self_ty is not None and 'WrappedLogosLexer' in strip_refs(b.self_ty).s) or 'WrappedLogosLexer' in b.name
        for bi, bl in enumerate(b.blocks):
            if bl.cleanup:
                continue
            for st in bl.stmts:
                if st[0] == 'a' and st[2][0] == 'agg' and st[2][1][0] == 'adt' and st[2][1][1] == pid:
                    if in_char_lexer:
                        n_lex += 1
                        continue
                    n += 1
                    k = sum(1 for i in res.instances if i.key.startswith(f'position:{b.name}#')) + 1
                    key = f'position:{b.name}#{k}'
                    if any(arithmetic(b, o) for o in st[2][2]):
                        res.violation(key, b.loc(st[3]), f'{b.name} builds a position by arithmetic on a line or column: above the '
                                      f'character-level lexer the text between two tokens is unknown (blanks, line breaks, comments), '
                                      f'so the computed position can lie before the end of the construct or outside the document')
                    else:
                        res.ok(key, b.loc(st[3]), 'position assembled from given coordinates')
    if n == 0:
        res.ok('position:none-above-the-lexer', pos_adt[0].file + f':{pos_adt[0].line}', 'token producer and parser build no position of their own')
    res.floor('positions built by the character-level lexer (positive control)', n_lex, 1)
    return [res]


# ---------------------------------------------------------------------------------------------------------------------
# LOC-MODULE (C05 / C14): `Location::union` asserts that both locations belong to the same module, and every consumer
# compares the module first. Inside the parser a location therefore has to carry the module of the text being parsed: it is
# a token's location, a copy of one with other positions (struct update / the `module_reference` of an existing
# location), or a union of such. A location conjured from positions alone (`Location::from_pos`, `dummy`, `full_dummy`)
# belongs to the dummy module; merged into a real node's location it aborts the parser on recovered input - the unit tests
# parse under the dummy module, where the difference does not show. Allowed: initialising the parser state itself.

def run_loc_module(prog, tier, repo):
    res = RuleResult('LOC-MODULE', 'C05/C14: the parser builds no location that belongs to the dummy module - locations come from '
                     'tokens, from existing locations or from their union')
    CONJURE = ('Location::from_pos', 'Location::dummy', 'Location::full_dummy', 'Location::document_start')
    n = 0
    n_all = 0
    for b in sorted(prog.bodies.values(), key=lambda x: x.name):
        if b.crate != 'samlang_parser' or '::tests' in b.name or '_tests::' in b.name:
            continue
        for bi, bl in enumerate(b.blocks):
            t = bl.term
            if bl.cleanup or t[0] != 'call':
                continue
            nm = callee(t)[1] or ''
            if 'Location::' in nm:
                n_all += 1
            if not nm.endswith(CONJURE):
                continue
            n += 1
            k = sum(1 for i in res.instances if i.key.startswith(f'conjured:{b.name}#')) + 1
            key = f'conjured:{b.name}#{k}'
            # the parser's own constructor may initialise its cursor with the dummy location
            is_ctor = b.locals[0].k == 'adt' and 'SourceParser' in b.locals[0].s
            if is_ctor:
                res.ok(key, b.loc(t[7]), 'initial value of the parser state')
            else:
                res.violation(key, b.loc(t[7]), f'{b.name} builds a location with {nm.split("::")[-1]}: it belongs to the dummy module, '
                              f'and `Location::union` with a real location of the parsed module asserts - on recovered (invalid) '
                              f'input the parser aborts instead of reporting the syntax error')
    res.floor('calls of Location functions in the parser (positive control)', n_all, 10)
    res.analysed['conjured locations'] = n
    return [res]
