"""GUARD-TABLE (C02): the loop optimiser's comparison-operator tables.

The loop analysis turns `c = i OP n; if (c != invert) break` into a guard operator G meaning "the loop keeps running
while `i G n`", and the loop rebuilder turns G back into `c = i OP' n; if (c) break` with OP' = to_op(invert(G)).
Both directions are finite enum-to-enum functions, so their tables are computed from the MIR (sa/enummap.py) and compared
with integer order logic:   not(<) is >=,  not(<=) is >,  not(>) is <=,  not(>=) is <.
A wrong row makes the optimised loop run one iteration more or fewer than the source loop for some bound."""
from ..core import RuleResult
from ..enummap import evaluate, enum_val, bool_val, Abort, UNKNOWN, show
from ..facts import strip_refs

REL = ('LT', 'LE', 'GT', 'GE')
NEG = {'LT': 'GE', 'LE': 'GT', 'GT': 'LE', 'GE': 'LT'}     # logical negation over a total order
BINOP = 'samlang_ast::hir::BinaryOperator'


def _is_rel_enum(adt):
    return adt.kind == 'enum' and [v.name for v in adt.variants] and sorted(v.name for v in adt.variants) == sorted(REL) \
        and all(not v.fields for v in adt.variants)


def run(prog, tier, repo):
    res = RuleResult('GUARD-TABLE', 'C02: loop-guard operator tables agree with integer order logic - the guard extracted from '
                     '`c = i OP n; if (c != invert) break` is the continue-condition, and rebuilding the loop from it gives '
                     'back a break-condition equivalent to the original one')
    binop = [a for a in prog.adts.values() if a.name == BINOP]
    guards = [a for a in prog.adts.values() if a.crate == 'samlang_optimization' and _is_rel_enum(a)]
    if len(binop) != 1 or len(guards) != 1:
        res.cannot_decide(f'hir::BinaryOperator and the loop guard operator enum with variants {REL} (found {len(guards)})')
        return [res]
    binop, guard = binop[0], guards[0]
    bname = {v.name: i for i, v in enumerate(binop.variants)}
    gname = {v.name: i for i, v in enumerate(guard.variants)}
    if any(r not in bname for r in REL):
        res.cannot_decide('BinaryOperator variants LT LE GT GE')
        return [res]

    def is_adt(t, adt):
        t = strip_refs(t)
        return t.k == 'adt' and t.id == adt.id

    extract = negate = to_op = None
    for b in prog.bodies.values():
        if b.crate != 'samlang_optimization' or b.kind == 'closure':
            continue
        ret = b.locals[0]
        if b.nargs == 2 and is_adt(b.locals[1], binop) and b.locals[2].s == 'bool' and ret.k == 'adt' \
                and ret.args and is_adt(ret.args[0], guard):
            extract = b if extract is None else False
        elif b.nargs == 1 and is_adt(b.locals[1], guard) and is_adt(ret, guard) and not b.trait:
            negate = b if negate is None else False
        elif b.nargs == 1 and is_adt(b.locals[1], guard) and is_adt(ret, binop) and not b.trait:
            to_op = b if to_op is None else False
    for nm, f in (('(BinaryOperator, invert: bool) -> Option<guard>', extract), ('guard -> guard (negation)', negate),
                  ('guard -> BinaryOperator', to_op)):
        if not f:
            res.cannot_decide(f'the unique function {nm} in samlang_optimization')
    if not (extract and negate and to_op):
        return [res]

    def arg_for(b, i, v):
        return ('ref', {0: v}, _Place0) if b.locals[i].k == 'ref' else v

    def run_fn(b, *vals):
        try:
            return evaluate(prog, b, [arg_for(b, i + 1, v) for i, v in enumerate(vals)])
        except Abort as e:
            return ('abort', str(e))

    def gvar(v):
        if v[0] == 'enum' and v[1] == guard.id:
            return guard.variants[v[2]].name
        return None

    def bvar(v):
        if v[0] == 'enum' and v[1] == binop.id:
            return binop.variants[v[2]].name
        return None
    # (1) extraction table
    for v in binop.variants:
        for inv in (True, False):
            key = f'extract:{v.name}:{"inverted" if inv else "plain"}'
            out = run_fn(extract, enum_val(binop.id, bname[v.name]), bool_val(inv))
            if out[0] == 'abort' or out == UNKNOWN:
                res.cannot_decide(f'{extract.name}({v.name}, {inv}) could not be evaluated: {out}')
                continue
            got = None if (out[0] == 'enum' and not out[3]) else (gvar(out[3][0]) if out[0] == 'enum' and out[3] else '?')
            if v.name in REL:
                # break happens when (i OP n) != invert; the loop keeps running otherwise
                want = v.name if inv else NEG[v.name]
            else:
                want = None
            if got == want:
                res.ok(key, extract.loc(), f'{v.name}, invert={inv} -> {got}')
            else:
                res.violation(key, extract.loc(), f'{extract.name}: for `c = i {v.name} n; if ({"!c" if inv else "c"}) break` the loop keeps '
                              f'running while `i {want} n`' + ('' if want else ' (no guard: not an order comparison)') +
                              f', but the function yields {got}')
    # (2) rebuild: to_op(negate(g)) must be the negation of g, read as a BinaryOperator of the same name
    for g in REL:
        key = f'rebuild:{g}'
        n = run_fn(negate, enum_val(guard.id, gname[g]))
        o = run_fn(to_op, n) if n[0] == 'enum' else n
        got = bvar(o) if o[0] == 'enum' else None
        if o[0] == 'abort' or got is None:
            res.cannot_decide(f'to_op(negate({g})) could not be evaluated: {show(prog, o) if o[0] != "abort" else o}')
            continue
        if got == NEG[g]:
            res.ok(key, negate.loc(), f'continue-while {g} is rebuilt as break-when {got}')
        else:
            res.violation(key, negate.loc(), f'a loop that keeps running while `i {g} n` must break when `i {NEG[g]} n`, but '
                          f'{to_op.name}({negate.name}({g})) gives {got}')
        s = run_fn(to_op, enum_val(guard.id, gname[g]))
        key = f'to_op:{g}'
        if s[0] != 'enum' or bvar(s) is None:
            res.cannot_decide(f'to_op({g}) could not be evaluated')
        elif bvar(s) == g:
            res.ok(key, to_op.loc(), f'{g} -> BinaryOperator::{g}')
        else:
            res.violation(key, to_op.loc(), f'{to_op.name}: guard {g} is emitted as BinaryOperator::{bvar(s)}')
    res.floor('guard-table rows', sum(1 for i in res.instances if i.status == 'ok'), 40)
    res.analysed['functions'] = [extract.name, negate.name, to_op.name]
    return [res]


class _P:
    local = 0
    proj = ()


_Place0 = _P()
