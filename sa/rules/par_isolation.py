"""PAR-ISOLATION (C12): what a parallel work item computes does not depend on the schedule.

Checking, optimisation and constant-parameter elimination run their per-module / per-function work on a rayon pool. The
verdict, the diagnostics and the emitted program may not depend on the number of workers or on which item finishes first,
so the only state the items may share is state whose *value never steers them*: the temporary-name counter is shared
(`fetch_add` hands out unique names; which name an item gets is unobservable), a counter whose value is compared and branched
on is not.

  parallel region   closures handed to rayon's parallel adapters (`ParallelIterator::*`, `IndexedParallelIterator::*`,
                    `rayon::join` / `scope` / `spawn`, `std::thread::spawn` / `scope`) and every workspace body reachable
                    from them;
  sources           in the region: results of `Atomic*::{load, swap, fetch_*, compare_exchange*}`, `Mutex::{lock, try_lock}`,
                    `RwLock::{read, write, try_read, try_write}`, channel `recv*`;
  propagation       assignments, references, arithmetic / comparisons, aggregates, calls with a tainted argument, and the
                    results of region functions whose primitive (integer / bool) return value is tainted;
  sinks             operands of `switch` and `assert` terminators (a branch on a value another worker may have changed).
"""
from ..core import RuleResult
from ..facts import callee, callee_decl, strip_refs
from ..callgraph import family, iter_operands_rvalue, body_refs
from ..dataflow import root_local

PAR_PREFIX = ('rayon::iter::ParallelIterator::', 'rayon::iter::IndexedParallelIterator::', 'rayon::iter::ParallelBridge::',
              'rayon::join', 'rayon::scope', 'rayon::spawn', 'rayon::Scope', 'rayon_core::join', 'rayon_core::scope',
              'rayon_core::spawn', 'std::thread::spawn', 'std::thread::scope', 'std::thread::Scope',
              'std::thread::Builder')
ATOMIC_READS = ('load', 'swap', 'fetch_add', 'fetch_sub', 'fetch_and', 'fetch_or', 'fetch_xor', 'fetch_nand', 'fetch_max',
                'fetch_min', 'fetch_update', 'compare_exchange', 'compare_exchange_weak', 'compare_and_swap', 'into_inner',
                'get_mut')
LOCKS = {'Mutex': ('lock', 'try_lock', 'get_mut', 'into_inner'),
         'RwLock': ('read', 'write', 'try_read', 'try_write', 'get_mut', 'into_inner'),
         'Receiver': ('recv', 'try_recv', 'recv_timeout', 'iter', 'try_iter'),
         'OnceLock': ('get', 'get_or_init'), 'OnceCell': ('get', 'get_or_init')}


def _shared_read(name):
    """'atomic' / 'lock' when the resolved callee reads state that another worker may have written."""
    if not name:
        return None
    short = name.split('::')[-1]
    if '::atomic::Atomic' in name and short in ATOMIC_READS:
        return 'atomic ' + short
    for ty, methods in LOCKS.items():
        if f'::{ty}::<' in name or f'::{ty}<' in name or name.split('::')[-2:-1] == [ty]:
            if short in methods:
                return f'{ty}::{short}'
    return None


def _par_closures(prog):
    """[(caller body, line, adapter, closure body id)]"""
    out = []
    for b in prog.bodies.values():
        if not b.crate.startswith('samlang') or '::tests' in b.name:
            continue
        for bl in b.blocks:
            t = bl.term
            if t[0] != 'call' or bl.cleanup:
                continue
            d = callee_decl(t)[1] or callee(t)[1] or ''
            if not d.startswith(PAR_PREFIX):
                continue
            for o in t[3]:
                if o[0] in ('c', 'm'):
                    ty = strip_refs(b.locals[o[1].local])
                    if ty.k == 'closure' and ty.id in prog.bodies:
                        out.append((b, t[7], d, ty.id))
                    elif ty.k == 'fndef' and ty.id in prog.bodies:
                        out.append((b, t[7], d, ty.id))
                elif o[0] == 'k' and o[1].fn is not None and o[1].fn[0] in prog.bodies:
                    out.append((b, t[7], d, o[1].fn[0]))
    return out


def _prim(t):
    return t.k == 'prim' or (t.k == 'tup' and all(a.k == 'prim' for a in t.args))


def _analyse(prog, b, ret_tainted):
    """(taint: local -> reason, sinks: [(line, reason, kind)], n_sources)"""
    taint = {}
    n_src = 0
    srcs = []

    def op_t(o):
        if o[0] not in ('c', 'm'):
            return None
        l = o[1].local
        if l in taint:
            return taint[l]
        r, _ = root_local(b, l)
        return taint.get(r)

    for _ in range(40):
        changed = False

        def mark(l, why):
            nonlocal changed
            if l is not None and l not in taint:
                taint[l] = why
                changed = True
        for bl in b.blocks:
            if bl.cleanup:
                continue
            for st in bl.stmts:
                if st[0] != 'a':
                    continue
                rv = st[2]
                ops = list(iter_operands_rvalue(rv))
                if rv[0] == 'ref':
                    ops.append(('c', rv[2]))
                elif rv[0] in ('copyderef', 'disc', 'rawptr'):
                    ops.append(('c', rv[1]))
                for o in ops:
                    w = op_t(o)
                    if w:
                        mark(st[1].local, w)
            t = bl.term
            if t[0] != 'call':
                continue
            cid, nm = callee(t)
            dl = t[4].local if t[4] is not None else None
            kind = _shared_read(nm) or _shared_read(callee_decl(t)[1])
            if kind:
                mark(dl, f'{kind} at line {t[7]}')
                if (t[7], kind) not in srcs:
                    srcs.append((t[7], kind))
                continue
            if cid in ret_tainted:
                mark(dl, f'{ret_tainted[cid]} (through {nm.split("::")[-1]}, line {t[7]})')
                continue
            for o in t[3]:
                w = op_t(o)
                if w:
                    mark(dl, w)
        if not changed:
            break
    n_src = len(srcs)
    sinks = []
    for bl in b.blocks:
        if bl.cleanup:
            continue
        t = bl.term
        if t[0] == 'switch':
            w = op_t(t[1])
            if w:
                sinks.append((t[4], w, 'branch'))
        elif t[0] == 'assert':
            w = op_t(t[1])
            if w and t[3][0] == 'other':
                sinks.append((t[5], w, 'assertion'))
    return taint, sinks, srcs


def run(prog, tier, repo):
    res = RuleResult('PAR-ISOLATION', 'C12: no branch of the code that runs on the worker pool (parallel checking, optimisation, '
                     'constant-parameter elimination) depends on the value of state shared between workers (atomics, locks, '
                     'channels); shared counters may only hand out values that are never compared')
    sites = _par_closures(prog)
    if not sites:
        res.cannot_decide('no closure handed to a rayon / thread adapter was found')
        return [res]
    scope = lambda x: x.crate.startswith('samlang') and '::tests' not in x.name
    region = family(prog, [c for _, _, _, c in sites], scope)
    # region functions whose primitive return value carries a shared read
    ret_tainted = {}
    results = {}
    for _round in range(6):
        before = dict(ret_tainted)
        for b in region.values():
            taint, sinks, srcs = _analyse(prog, b, ret_tainted)
            results[b.id] = (sinks, srcs)
            if 0 in taint and _prim(strip_refs(b.locals[0])):
                ret_tainted.setdefault(b.id, taint[0])
        if ret_tainted == before:
            break
    for caller, line, adapter, cid in sorted(sites, key=lambda s: (s[0].name, s[3])):
        sub = family(prog, [cid], scope)
        bad = []
        n_reads = 0
        for x in sorted(sub.values(), key=lambda y: y.name):
            sinks, srcs = results.get(x.id, ((), ()))
            n_reads += len(srcs)
            for ln, why, kind in sinks:
                bad.append((x, ln, why, kind))
        key = f'region:{caller.name}:{adapter.split("::")[-1]}'
        if bad:
            seen = set()
            for x, ln, why, kind in bad:
                k2 = f'{key}:{x.name}'
                if k2 in seen:
                    continue
                seen.add(k2)
                res.violation(k2, x.loc(ln), f'{x.name} runs on the worker pool (reached from the closure given to '
                              f'`{adapter.split("::")[-1]}` in {caller.name}, line {line}) and a {kind} there depends on a value '
                              f'read from state shared between workers ({why}): what this work item does then depends on how far '
                              f'the other workers have got, so verdict / diagnostics / output vary with the thread count and the '
                              f'schedule')
        else:
            res.ok(key, caller.loc(line), f'{len(sub)} bodies reachable from the work-item closure; {n_reads} shared read(s), none '
                   f'reaches a branch')
    shared = sorted({f'{x.name}: {k}' for x in region.values() for _, k in results.get(x.id, ((), ()))[1]})
    res.floor('parallel work-item closures', len(sites), 5)
    res.analysed['region_bodies'] = len(region)
    res.analysed['shared_reads_in_region'] = shared
    # positive control: the temporary-name counter is shared by design; if the rule no longer sees its read inside the region,
    # it is not looking at the code it was written for
    res.floor('shared reads seen inside the parallel region (temporary-name counter)', len(shared), 1)
    return [res]
