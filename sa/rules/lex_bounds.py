"""LEX-BOUNDS (C05): zone abstract interpretation of the hand-written byte scanning in the lexer wrapper.

Obligations: every `Assert(BoundsCheck)`, every usize subtraction overflow assert, every slice/str range
indexing call (start <= end <= len) and every `Lexer::bump(n)` (n <= len(remainder)) in scope. An obligation
that the abstract state at its program point does not entail is reported (over-approximation: no panic among
the obligations is missed; an unsupported construct in scope fails closed). Not decided: str char boundaries.
"""
from ..core import RuleResult
from ..cfg import cfg_of, single_def
from ..dataflow import root_local, operand_root
from ..facts import callee
from ..zone import Zone, INF

UNSIGNED = ('usize', 'u8', 'u16', 'u32', 'u64', 'u128')
SIGNED = ('isize', 'i8', 'i16', 'i32', 'i64', 'i128')
WIDTH = {'u8': 8, 'u16': 16, 'u32': 32, 'u64': 64, 'usize': 64, 'u128': 128,
         'i8': 8, 'i16': 16, 'i32': 32, 'i64': 64, 'isize': 64, 'i128': 128}


def is_int(t):
    return t.k == 'prim' and t.s in WIDTH


def inner(t):
    while t.k in ('ref', 'ptr'):
        t = t.args[0]
    return t


def lenlike(t):
    u = inner(t)
    if u.k in ('slice', 'arr'):
        return True
    if u.k == 'prim' and u.s == 'str':
        return True
    if u.k == 'adt' and u.name.startswith(('std::vec::Vec', 'std::string::String', 'std::borrow::Cow')):
        return True
    return False


def is_slice_iter(t):
    return t.k == 'adt' and t.name.startswith('std::slice::Iter')


def is_range_like(t):
    return t.k == 'adt' and (t.name.startswith(('std::ops::Range', 'std::ops::RangeTo', 'std::ops::RangeFrom',
                                                  'std::iter::Rev')))


class Interp:
    def __init__(self, prog, b):
        self.prog, self.b = prog, b
        self.cfg = cfg_of(b)
        self.keys = {('zero',): 0}
        self.unsigned_vars = []
        self._var(('REM',), True)     # length of the lexer's current remainder (two remainder() calls agree
                                      # unless the lexer was advanced in between)
        self._var(('R',), True)       # 1 once a syntax error has been reported on this path, else 0
        for l, t in enumerate(b.locals):
            if is_int(t):
                self._var(('i', l), t.s in UNSIGNED)
            if t.k == 'tup' and len(t.args) == 2 and is_int(t.args[0]) and t.args[1].s == 'bool':
                self._var(('t0', l), t.args[0].s in UNSIGNED)
            elif t.k == 'tup' and 2 <= len(t.args) <= 4 and all(is_int(a) for a in t.args):
                # a pair / triple of integers built in one piece and taken apart again (`(end, next_cursor)`)
                for k_, a_ in enumerate(t.args):
                    self._var(('tk', l, k_), a_.s in UNSIGNED)
            if lenlike(t):
                self._var(('L', l), True)
            if is_slice_iter(t):
                self._var(('K', l), True)
                self._var(('N', l), True)
            if is_range_like(t):
                self._var(('A', l), True)
                self._var(('B', l), True)
        self.n = len(self.keys)
        # locals whose address is taken mutably are not tracked (may be written through the reference)
        self.untracked = set()
        for bl in b.blocks:
            for st in bl.stmts:
                if st[0] == 'a' and st[2][0] == 'ref' and st[2][1] == 1 and not st[2][2].proj:
                    if is_int(b.locals[st[2][2].local]):
                        self.untracked.add(st[2][2].local)
        self.cmpdef = {}
        self.bool_defs = {}       # bool local -> [(block, kind, payload)] for every definition
        self._collect_bool_defs()
        self.range_kind = {}
        self.unsupported = []
        self.obligations = []     # filled in the final pass
        self.remainders = {}      # local -> bb of the remainder() call

    def _collect_bool_defs(self):
        b = self.b
        for bi, bl in enumerate(b.blocks):
            if bl.cleanup:
                continue
            for st in bl.stmts:
                if st[0] != 'a' or st[1].proj or b.locals[st[1].local].s != 'bool':
                    continue
                l, rv = st[1].local, st[2]
                if rv[0] == 'bin' and rv[1] in ('Lt', 'Le', 'Gt', 'Ge', 'Eq', 'Ne'):
                    d = ('cmp', (rv[1], rv[2], rv[3]))
                elif rv[0] == 'un' and rv[1] == 'Not' and rv[2][0] in ('c', 'm') and not rv[2][1].proj:
                    d = ('not', rv[2][1].local)
                elif rv[0] == 'use' and rv[1][0] in ('c', 'm') and not rv[1][1].proj:
                    d = ('copy', rv[1][1].local)
                elif rv[0] == 'use' and rv[1][0] == 'k' and rv[1][1].i is not None:
                    d = ('const', bool(rv[1][1].i))
                else:
                    d = ('other', None)
                self.bool_defs.setdefault(l, []).append((bi, d[0], d[1]))
            t = bl.term
            if t[0] == 'call' and not t[4].proj and b.locals[t[4].local].s == 'bool':
                self.bool_defs.setdefault(t[4].local, []).append((bi, 'call', t))

    def refine_bool(self, z, l, truth, depth=0, at_def_only=None):
        """Zones (disjuncts) describing `bool local l == truth` on top of z. A bool that is materialised from several
        definitions (short-circuit `&&`/`||`, `let b = cond;`) is refined per possible definition, including the
        branch conditions that dominate that definition."""
        defs = self.bool_defs.get(l, [])
        if depth > 6 or not defs:
            return [z]
        out = []
        for bd, kind, payload in defs:
            zc = z.copy()
            if len(defs) > 1:
                # the path went through this definition: apply the branch conditions that dominate it
                zc = self._apply_dominating_conditions(zc, bd, depth)
                if zc.bottom:
                    continue
            if kind == 'cmp':
                self.constrain_cmp(zc, payload[0], payload[1], payload[2], truth)
                res = [zc]
            elif kind == 'not':
                res = self.refine_bool(zc, payload, not truth, depth + 1)
            elif kind == 'copy':
                res = self.refine_bool(zc, payload, truth, depth + 1)
            elif kind == 'const':
                res = [zc] if payload == truth else []
            elif kind == 'call':
                cd = self.cmpdef.get(l)
                if cd is not None and cd[0] == 'starts' and truth:
                    zc.add(0, cd[1], -cd[2])
                res = [zc]
            else:
                res = [zc]
            out += [r for r in res if not r.bottom]
        return out

    def _apply_dominating_conditions(self, z, bd, depth):
        """Refine z with every bool branch condition one of whose edges dominates block bd."""
        b, cfg = self.b, self.cfg
        for bj, bl in enumerate(b.blocks):
            t = bl.term
            if bl.cleanup or bj == bd or t[0] != 'switch' or t[1][0] not in ('c', 'm') or t[1][1].proj:
                continue
            l2 = t[1][1].local
            if b.locals[l2].s != 'bool':
                continue
            zero_t = {tg for v, tg in t[2] if v == 0}
            nonzero_t = {t[3]} | {tg for v, tg in t[2] if v != 0}
            if zero_t & nonzero_t:
                continue
            truth2 = None
            if zero_t and cfg.edges_dominate([(bj, tg) for tg in zero_t], bd):
                truth2 = False
            elif cfg.edges_dominate([(bj, tg) for tg in nonzero_t], bd):
                truth2 = True
            if truth2 is None:
                continue
            zs = self.refine_bool(z, l2, truth2, depth + 1)
            if not zs:
                return Zone.make_bottom(self.n)
            acc = zs[0]
            for x in zs[1:]:
                acc = acc.join(x)
            if len(zs) > 1:
                acc.close()
            z = acc
        return z

    def _var(self, key, unsigned):
        if key not in self.keys:
            self.keys[key] = len(self.keys)
            if unsigned:
                self.unsigned_vars.append(self.keys[key])

    def v(self, key):
        return self.keys.get(key)

    def fresh(self, z, idx):
        z.forget(idx)
        if idx in self.unsigned_vars:
            z.add(0, idx, 0)       # 0 - x <= 0

    def initial(self):
        z = Zone(self.n)
        for idx in self.unsigned_vars:
            z.add(0, idx, 0)
        z.assign_const(self.v(('R',)), 0)
        return z

    # ---- operand evaluation: returns ('const', c) | ('var', idx, offset) | None --------------
    def ev(self, op):
        b = self.b
        if op[0] == 'k':
            if op[1].i is not None:
                return ('const', op[1].i)
            return None
        if op[0] not in ('c', 'm'):
            return None
        pl = op[1]
        if not pl.proj:
            if pl.local in self.untracked:
                return None
            i = self.v(('i', pl.local))
            return ('var', i, 0) if i is not None else None
        if len(pl.proj) == 1 and pl.proj[0][0] == 't' and self.v(('tk', pl.local, pl.proj[0][1])) is not None:
            return ('var', self.v(('tk', pl.local, pl.proj[0][1])), 0)
        if len(pl.proj) == 1 and pl.proj[0][0] == 't' and pl.proj[0][1] == 0:
            i = self.v(('t0', pl.local))
            return ('var', i, 0) if i is not None else None
        if len(pl.proj) == 1 and pl.proj[0][0] == 'd':
            # *r where r = &x (single def)
            sd = single_def(b, pl.local)
            if sd and sd[1] != 'term' and sd[2][0] == 'ref' and not sd[2][2].proj and sd[2][2].local not in self.untracked:
                i = self.v(('i', sd[2][2].local))
                return ('var', i, 0) if i is not None else None
        return None

    ELEMENTWISE = ('take_while', 'skip_while', 'filter', 'map', 'copied', 'cloned', 'rev', 'enumerate', 'take', 'skip', 'peekable',
                   'by_ref', 'into_iter', 'inspect', 'filter_map', 'map_while', 'step_by', 'fuse')

    def _iter_base_len(self, op, depth=0):
        """length variable of the slice / str an iterator operand walks, looking through element-wise adapters"""
        b = self.b
        if op[0] not in ('c', 'm') or depth > 8:
            return None
        r, _ = operand_root(b, op)
        sd = single_def(b, r) if r is not None else None
        if not sd or sd[1] != 'term' or not sd[2][3]:
            return None
        nm = (callee(sd[2])[1] or '').split('::')[-1]
        if nm in ('iter', 'bytes', 'iter_mut'):
            # bytes only: a count of `chars()` is not a byte offset (it is <= the length, but not a character boundary)
            return self.len_of(sd[2][3][0])
        if nm in self.ELEMENTWISE:
            return self._iter_base_len(sd[2][3][0], depth + 1)
        return None

    def len_of(self, op):
        """zone var of the length of the slice-like value an operand refers to."""
        if op[0] not in ('c', 'm'):
            return None
        pl = op[1]
        base = pl.local
        if pl.proj and not all(e[0] == 'd' for e in pl.proj):
            return None
        i = self.v(('L', base))
        return i

    def assign(self, z, x, val):
        if x is None:
            return
        if val is None:
            self.fresh(z, x)
        elif val[0] == 'const':
            z.assign_const(x, val[1])
        else:
            if val[1] is None:
                self.fresh(z, x)
            else:
                z.assign_var(x, val[1], val[2])

    # ---- statements ---------------------------------------------------------------------------
    def stmt(self, z, st):
        b = self.b
        if st[0] != 'a':
            return
        dst, rv = st[1], st[2]
        if not dst.proj and self.v(('tk', dst.local, 0)) is not None:
            nk = len(b.locals[dst.local].args)
            if rv[0] == 'agg' and len(rv[2]) == nk:
                vals = [self.ev(o) for o in rv[2]]
                for k_ in range(nk):
                    self.assign(z, self.v(('tk', dst.local, k_)), vals[k_])
            elif rv[0] == 'use' and rv[1][0] in ('c', 'm') and not rv[1][1].proj and self.v(('tk', rv[1][1].local, 0)) is not None:
                for k_ in range(nk):
                    z.assign_var(self.v(('tk', dst.local, k_)), self.v(('tk', rv[1][1].local, k_)), 0)
            else:
                for k_ in range(nk):
                    self.fresh(z, self.v(('tk', dst.local, k_)))
            return
        if dst.proj:
            # writes through projections: a tracked tuple field or deref of tracked ref -> give up on that local
            if dst.local < len(b.locals):
                for kind in ('i', 't0'):
                    i = self.v((kind, dst.local))
                    if i is not None:
                        self.fresh(z, i)
            return
        l = dst.local
        t = b.locals[l]
        k = rv[0]
        if is_int(t):
            x = self.v(('i', l))
            if l in self.untracked:
                return
            if k == 'use':
                self.assign(z, x, self.ev(rv[1]))
            elif k == 'cast':
                src = rv[2]
                val = self.ev(src)
                ok = False
                if src[0] in ('c', 'm') and not src[1].proj:
                    st_ = b.locals[src[1].local]
                    if is_int(st_):
                        ws, wd = WIDTH[st_.s], WIDTH[t.s]
                        sunsigned, dunsigned = st_.s in UNSIGNED, t.s in UNSIGNED
                        ok = (sunsigned and (wd > ws or (wd == ws and dunsigned))) or (not sunsigned and not dunsigned and wd >= ws)
                elif src[0] == 'k':
                    ok = True
                self.assign(z, x, val if ok else None)
            elif k == 'bin':
                op, a, c = rv[1], self.ev(rv[2]), self.ev(rv[3])
                self.assign(z, x, self.arith(op, a, c))
            elif k == 'un' and rv[1] == 'PtrMetadata':
                y = self.len_of(rv[2])
                if y is not None:
                    z.assign_var(x, y, 0)
                else:
                    self.fresh(z, x)
            else:
                self.fresh(z, x)
            return
        if t.k == 'tup' and self.v(('t0', l)) is not None:
            x = self.v(('t0', l))
            if k == 'bin':
                op, a, c = rv[1], self.ev(rv[2]), self.ev(rv[3])
                base = op.replace('WithOverflow', '')
                val = self.arith(base, a, c)
                self.assign(z, x, val)
                if val is None and base == 'Sub' and a is not None and a[0] == 'var' and a[1] is not None and x in self.unsigned_vars:
                    z.add(x, a[1], a[2])     # x <= a for unsigned subtraction without wrap
            else:
                self.fresh(z, x)
            return
        if t.s == 'bool':
            if k == 'bin' and rv[1] in ('Lt', 'Le', 'Gt', 'Ge', 'Eq', 'Ne'):
                self.cmpdef[l] = (rv[1], rv[2], rv[3])
            elif k == 'un' and rv[1] == 'Not' and rv[2][0] in ('c', 'm'):
                self.cmpdef[l] = ('Not', rv[2][1].local)
            elif k == 'use' and rv[1][0] in ('c', 'm') and not rv[1][1].proj and rv[1][1].local in self.cmpdef:
                self.cmpdef[l] = self.cmpdef[rv[1][1].local]
            return
        if lenlike(t):
            x = self.v(('L', l))
            src = None
            if k == 'ref':
                src = rv[2]
            elif k == 'use' and rv[1][0] in ('c', 'm'):
                src = rv[1][1]
            elif k == 'cast' and rv[2][0] in ('c', 'm'):
                src = rv[2][1]       # unsizing &[u8; N] -> &[u8]
            if src is not None and all(e[0] == 'd' for e in src.proj):
                y = self.v(('L', src.local))
                if y is not None:
                    z.assign_var(x, y, 0)
                    return
            if k == 'use' and rv[1][0] == 'k':
                c = rv[1][1]
                if c.ty.s in ('&str', "&'static str") and c.v.startswith('"'):
                    z.assign_const(x, len(eval_str(c.v)))
                    return
            self.fresh(z, x)
            return
        if is_slice_iter(t):
            if k == 'use' and rv[1][0] in ('c', 'm') and not rv[1][1].proj and is_slice_iter(b.locals[rv[1][1].local]):
                s = rv[1][1].local
                z.assign_var(self.v(('K', l)), self.v(('K', s)), 0)
                z.assign_var(self.v(('N', l)), self.v(('N', s)), 0)
            else:
                self.fresh(z, self.v(('K', l)))
                self.fresh(z, self.v(('N', l)))
            return
        if is_range_like(t):
            A, B = self.v(('A', l)), self.v(('B', l))
            if k == 'agg' and rv[1][0] == 'adt':
                nm = rv[1][1].split('::')[-1]
                ops = rv[2]
                self.range_kind[l] = nm
                if nm == 'Range' and len(ops) == 2:
                    self.assign(z, A, self.ev(ops[0]))
                    self.assign(z, B, self.ev(ops[1]))
                elif nm == 'RangeTo' and len(ops) == 1:
                    z.assign_const(A, 0)
                    self.assign(z, B, self.ev(ops[0]))
                elif nm == 'RangeFrom' and len(ops) == 1:
                    self.assign(z, A, self.ev(ops[0]))
                    self.fresh(z, B)
                else:
                    self.fresh(z, A)
                    self.fresh(z, B)
            elif k == 'use' and rv[1][0] in ('c', 'm') and not rv[1][1].proj and is_range_like(b.locals[rv[1][1].local]):
                s = rv[1][1].local
                z.assign_var(A, self.v(('A', s)), 0)
                z.assign_var(B, self.v(('B', s)), 0)
                if s in self.range_kind:
                    self.range_kind[l] = self.range_kind[s]
            else:
                self.fresh(z, A)
                self.fresh(z, B)
            return
        # Option<usize> / reference temporaries etc. are handled where they are used

    def arith(self, op, a, c):
        if a is None or c is None:
            return None
        op = op.replace('Unchecked', '')
        if op == 'Add':
            if a[0] == 'const' and c[0] == 'const':
                return ('const', a[1] + c[1])
            if a[0] == 'var' and c[0] == 'const':
                return ('var', a[1], a[2] + c[1])
            if a[0] == 'const' and c[0] == 'var':
                return ('var', c[1], c[2] + a[1])
            return None
        if op == 'Sub':
            if a[0] == 'const' and c[0] == 'const':
                return ('const', a[1] - c[1])
            if a[0] == 'var' and c[0] == 'const':
                return ('var', a[1], a[2] - c[1])
            return None
        return None

    # ---- edges --------------------------------------------------------------------------------
    def constrain_cmp(self, z, op, a, c, truth):
        """Add the constraint `a op c` == truth."""
        if op in ('Eq', 'Ne'):
            if (op == 'Eq') != truth:
                return
            self.constrain_cmp(z, 'Le', a, c, True)
            self.constrain_cmp(z, 'Ge', a, c, True)
            return
        if not truth:
            op = {'Lt': 'Ge', 'Le': 'Gt', 'Gt': 'Le', 'Ge': 'Lt'}[op]
        if op in ('Gt', 'Ge'):
            a, c = c, a
            op = {'Gt': 'Lt', 'Ge': 'Le'}[op]
        ea, ec = self.ev(a), self.ev(c)
        if ea is None or ec is None:
            return
        strict = -1 if op == 'Lt' else 0
        # a + oa <= c + oc + strict
        ia, oa = (0, ea[1]) if ea[0] == 'const' else (ea[1], ea[2])
        ic, oc = (0, ec[1]) if ec[0] == 'const' else (ec[1], ec[2])
        if ia is None or ic is None:
            return
        z.add(ia, ic, oc - oa + strict)

    def edge(self, bi, succ, z):
        """State flowing along bi -> succ."""
        b = self.b
        t = b.blocks[bi].term
        z = z.copy()
        if t[0] == 'switch' and t[1][0] in ('c', 'm') and not t[1][1].proj:
            l = t[1][1].local
            zero_targets = {tg for v, tg in t[2] if v == 0}
            one_targets = {tg for v, tg in t[2] if v == 1}
            if b.locals[l].s == 'bool':
                truth = succ not in zero_targets
                if succ in zero_targets and succ == t[3]:
                    return z     # both edges lead to the same block
                zs = self.refine_bool(z, l, truth)
                if not zs:
                    return Zone.make_bottom(self.n)
                acc = zs[0]
                for x in zs[1:]:
                    acc = acc.join(x)
                if len(zs) > 1:
                    acc.close()
                return acc
            # discriminant of Option returned by an iterator's next()
            sd = single_def(b, l)
            if sd and sd[1] != 'term' and sd[2][0] == 'disc':
                ol = sd[2][1].local
                od = single_def(b, ol)
                if od and od[1] == 'term' and (callee(od[2])[1] or '').endswith('::next') and od[2][3]:
                    it, _ = operand_root(b, od[2][3][0])
                    if it is not None and is_slice_iter(b.locals[it]):
                        K, N = self.v(('K', it)), self.v(('N', it))
                        if succ in one_targets:
                            z.add(K, N, -1)        # K < N
                            z.shift(K, 1)
                        elif succ in zero_targets:
                            z.add(N, K, 0)         # exhausted: K >= N
        elif t[0] == 'assert':
            m = t[3]
            if m[0] == 'bounds':
                self.constrain_cmp(z, 'Lt', m[2], m[1], True)
            elif m[0] == 'overflow' and m[1] == 'Sub':
                self.constrain_cmp(z, 'Ge', m[2], m[3], True)
        return z

    # ---- terminators (calls) ------------------------------------------------------------------
    def call(self, z, bi, t, collect):
        b = self.b
        name = callee(t)[1] or ''
        short = name.split('::')[-1]
        args = t[3]
        dst = t[4]
        dl = dst.local if not dst.proj else None
        dt = b.locals[dl] if dl is not None else None

        def set_len_from(argi):
            if dl is not None and self.v(('L', dl)) is not None:
                y = self.len_of(args[argi]) if argi < len(args) else None
                if y is not None:
                    z.assign_var(self.v(('L', dl)), y, 0)
                else:
                    self.fresh(z, self.v(('L', dl)))

        if short in ('count', 'position', 'rposition') and dl is not None and args and args[0][0] in ('c', 'm'):
            # `slice.iter().take_while(p).count()` / `.filter(p).count()`: a count of elements of the slice, so at most its length
            # (bytes of a str: `bytes()` / `as_bytes().iter()`; a count of chars() is deliberately not treated as an offset)
            base = self._iter_base_len(args[0])
            if short == 'count' and is_int(dt):
                x = self.v(('i', dl))
                self.fresh(z, x)
                if base is not None and x is not None:
                    z.add(x, base, 0)
                return
        if short == 'len' and dl is not None and is_int(dt) and args:
            y = self.len_of(args[0])
            x = self.v(('i', dl))
            if y is not None:
                z.assign_var(x, y, 0)
            else:
                self.fresh(z, x)
            return
        if short in ('as_bytes', 'as_str', 'as_slice', 'deref', 'as_ref', 'borrow', 'trim_start', 'as_mut_slice'):
            if short == 'trim_start':
                if dl is not None and self.v(('L', dl)) is not None:
                    self.fresh(z, self.v(('L', dl)))
                    y = self.len_of(args[0])
                    if y is not None:
                        z.add(self.v(('L', dl)), y, 0)
                return
            set_len_from(0)
            return
        if short == 'starts_with' and dl is not None and len(args) == 2:
            y = self.len_of(args[0])
            pat = args[1]
            plen = None
            if pat[0] == 'k':
                if pat[1].ty.s == 'char':
                    plen = 1
                elif pat[1].v.startswith('"'):
                    plen = len(eval_str(pat[1].v))
            if y is not None and plen is not None:
                self.cmpdef[dl] = ('starts', y, plen)
            return
        if short in ('index', 'index_mut') and len(args) == 2 and 'HashMap' not in name:
            s = self.len_of(args[0])
            r, _ = operand_root(b, args[1])
            if s is None or r is None or not is_range_like(b.locals[r]) or r not in self.range_kind:
                if collect:
                    self.unsupported.append((bi, t[7], f'range indexing with an untracked base or range ({name})'))
                if dl is not None and self.v(('L', dl)) is not None:
                    self.fresh(z, self.v(('L', dl)))
                return
            A, B = self.v(('A', r)), self.v(('B', r))
            kind = self.range_kind[r]
            if collect:
                what = b.var_name(root_local(b, args[0][1].local)[0]) or 'slice'
                if kind in ('Range',):
                    self.ob(bi, t[7], f'range-start<=end:{what}', z, A, B, 0)
                    self.ob(bi, t[7], f'range-end<=len:{what}', z, B, s, 0)
                elif kind == 'RangeTo':
                    self.ob(bi, t[7], f'range-end<=len:{what}', z, B, s, 0)
                elif kind == 'RangeFrom':
                    self.ob(bi, t[7], f'range-start<=len:{what}', z, A, s, 0)
            # assume the check passed
            if kind == 'Range':
                z.add(A, B, 0)
                z.add(B, s, 0)
            elif kind == 'RangeTo':
                z.add(B, s, 0)
            elif kind == 'RangeFrom':
                z.add(A, s, 0)
            if dl is not None and self.v(('L', dl)) is not None:
                x = self.v(('L', dl))
                self.fresh(z, x)
                lo, hi = z.bounds(A)
                if kind == 'RangeTo':
                    z.assign_var(x, B, 0)
                elif kind == 'RangeFrom' and lo == hi and lo != INF:
                    z.assign_var(x, s, -int(lo))
                elif kind == 'Range' and lo == hi and lo != INF:
                    z.assign_var(x, B, -int(lo))
                else:
                    z.add(x, s, 0)
            return
        if short in ('into_iter', 'iter', 'iter_mut') and dl is not None and args:
            if is_slice_iter(dt):
                y = self.len_of(args[0])
                z.assign_const(self.v(('K', dl)), 0)
                if y is not None:
                    z.assign_var(self.v(('N', dl)), y, 0)
                else:
                    self.fresh(z, self.v(('N', dl)))
                return
            if is_range_like(dt):
                r, _ = operand_root(b, args[0])
                if r is not None and is_range_like(b.locals[r]):
                    z.assign_var(self.v(('A', dl)), self.v(('A', r)), 0)
                    z.assign_var(self.v(('B', dl)), self.v(('B', r)), 0)
                    return
        if short == 'rev' and dl is not None and is_range_like(dt) and args:
            r, _ = operand_root(b, args[0])
            if r is not None and is_range_like(b.locals[r]):
                z.assign_var(self.v(('A', dl)), self.v(('A', r)), 0)
                z.assign_var(self.v(('B', dl)), self.v(('B', r)), 0)
                return
        if short == 'remainder' and dl is not None and self.v(('L', dl)) is not None:
            z.assign_var(self.v(('L', dl)), self.v(('REM',)), 0)
            self.remainders[dl] = bi
            return
        if short == 'bump' and 'logos' in name and len(args) == 2 and collect:
            n = self.ev(args[1])
            done = False
            for rl, rbb in self.remainders.items():
                if not self.cfg.nodes_dominate([rbb], bi):
                    continue
                # the lexer must not have been advanced between remainder() and this bump
                stale = False
                for bj, bl in enumerate(b.blocks):
                    tt = bl.term
                    if bj in (bi, rbb) or bl.cleanup or tt[0] != 'call':
                        continue
                    nm2 = callee(tt)[1] or ''
                    if 'logos' in nm2 and nm2.split('::')[-1] in ('bump', 'next') and self.cfg.can_reach(rbb, bj) and self.cfg.can_reach(bj, bi):
                        stale = True
                if stale:
                    continue
                L = self.v(('L', rl))
                if n is not None:
                    i, off = (0, n[1]) if n[0] == 'const' else (n[1], n[2])
                    self.ob(bi, t[7], f'bump<=len:{b.var_name(rl) or "remainder"}', z, i, L, -off)
                    done = True
                    break
            if not done:
                self.unsupported.append((bi, t[7], 'Lexer::bump whose argument cannot be related to a remainder() length'))
            self.fresh(z, self.v(('REM',)))
            return
        if short == 'bump' and 'logos' in name:
            self.fresh(z, self.v(('REM',)))
            return
        # iterator next on ranges: element value bounded by the ghosts
        if short == 'next' and args and dl is not None:
            it, _ = operand_root(b, args[0])
            if it is not None and is_range_like(b.locals[it]):
                self.range_next = getattr(self, 'range_next', {})
                self.range_next[dl] = it
            return
        if 'ErrorSet::report_' in name or name.endswith("::report"):
            z.assign_const(self.v(('R',)), 1)
            return
        # a call that receives the lexer (or self) mutably may advance it
        for o in args:
            if o[0] in ('c', 'm') and not o[1].proj:
                at = b.locals[o[1].local]
                if at.k == 'ref' and at.extra == 1 and inner(at).k == 'adt' and ('Lexer' in inner(at).name):
                    if short not in ('remainder', 'slice', 'span', 'source'):
                        self.fresh(z, self.v(('REM',)))
        # unknown call: forget what it defines
        if dl is not None:
            for kind in ('i', 't0', 'L', 'K', 'N', 'A', 'B'):
                x = self.v((kind, dl))
                if x is not None:
                    self.fresh(z, x)

    def ob(self, bi, line, what, z, i, j, c):
        """obligation v_i - v_j <= c at block bi"""
        ok = i is not None and j is not None and z.entails(i, j, c)
        detail = None
        if not ok and i is not None and j is not None and not z.bottom:
            detail = f'needs {self.name_of(i)} - {self.name_of(j)} <= {c}; derivable bound is {z.m[i][j]}; ' \
                     f'{self.name_of(i)} in {z.bounds(i)}, {self.name_of(j)} in {z.bounds(j)}'
        self.obligations.append((bi, line, what, ok, detail))

    def name_of(self, idx):
        for k, v in self.keys.items():
            if v == idx:
                if k[0] == 'zero':
                    return '0'
                if k[0] == 'REM':
                    return 'len(remainder)'
                n = self.b.var_name(k[1])
                pre = {'i': '', 't0': 'tmp ', 'L': 'len ', 'K': 'consumed ', 'N': 'total ', 'A': 'start ', 'B': 'end '}[k[0]]
                return f'{pre}{n or "_" + str(k[1])}'
        return '?'

    def block(self, bi, z, collect=False):
        b = self.b
        z = z.copy()
        bl = b.blocks[bi]
        for st in bl.stmts:
            # element of a range iterator: `_i = copy ((_opt as Some).0)`
            if st[0] == 'a' and not st[1].proj and st[2][0] == 'use' and st[2][1][0] in ('c', 'm'):
                pl = st[2][1][1]
                rn = getattr(self, 'range_next', {})
                if pl.local in rn and pl.proj and pl.proj[0][0] == 'v' and is_int(b.locals[st[1].local]):
                    x = self.v(('i', st[1].local))
                    it = rn[pl.local]
                    self.fresh(z, x)
                    z.add(self.v(('A', it)), x, 0)        # A <= x
                    z.add(x, self.v(('B', it)), -1)       # x <= B - 1
                    continue
            self.stmt(z, st)
        t = bl.term
        if t[0] == 'call':
            self.call(z, bi, t, collect)
        elif t[0] == 'assert' and collect:
            m = t[3]
            if m[0] == 'bounds':
                ei, el = self.ev(m[2]), self.ev(m[1])
                # the len operand is PtrMetadata/Len of a slice: recover it through its definition
                if ei is not None and el is not None:
                    i, oi = (0, ei[1]) if ei[0] == 'const' else (ei[1], ei[2])
                    j, oj = (0, el[1]) if el[0] == 'const' else (el[1], el[2])
                    nm = b.var_name(m[2][1].local) if m[2][0] in ('c', 'm') else str(ei[1])
                    self.ob(bi, t[5], f'index<len:[{nm or "idx"}]', z, i, j, oj - oi - 1)
                else:
                    self.unsupported.append((bi, t[5], 'bounds check on untracked operands'))
            elif m[0] == 'overflow' and m[1] == 'Sub':
                tys = [b.locals[o[1].local].s for o in (m[2], m[3]) if o[0] in ('c', 'm')]
                if tys and all(x == 'usize' for x in tys):
                    ea, ec = self.ev(m[2]), self.ev(m[3])
                    if ea is not None and ec is not None:
                        i, oi = (0, ea[1]) if ea[0] == 'const' else (ea[1], ea[2])
                        j, oj = (0, ec[1]) if ec[0] == 'const' else (ec[1], ec[2])
                        nm = b.var_name(m[2][1].local) if m[2][0] in ('c', 'm') else 'value'
                        # a - c >= 0  <=>  c - a <= 0
                        self.ob(bi, t[5], f'sub-no-underflow:{nm or "value"}-{oj if j == 0 else self.name_of(j)}', z, j, i, oi - oj)
                    else:
                        self.unsupported.append((bi, t[5], 'usize subtraction on untracked operands'))
        return z

    def run(self):
        cfg, b = self.cfg, self.b
        inn = {0: self.initial()}
        heads = {h for (_, h) in cfg.back_edges()}
        visits = {}
        work = [0]
        steps = 0
        while work and steps < 4000:
            steps += 1
            bi = work.pop(0)
            out = self.block(bi, inn[bi])
            for s in cfg.succ[bi]:
                if b.blocks[s].cleanup:
                    continue
                e = self.edge(bi, s, out)
                if e.bottom:
                    continue
                old = inn.get(s)
                if old is None:
                    inn[s] = e
                    work.append(s)
                    continue
                if e.leq(old):
                    continue
                new = old.join(e)
                if s in heads:
                    visits[s] = visits.get(s, 0) + 1
                    if visits[s] > 2:
                        new = old.widen(new)
                new.close()
                inn[s] = new
                if s not in work:
                    work.append(s)
        # one narrowing pass: recompute loop heads from their predecessors without widening
        for _ in range(2):
            for h in sorted(heads):
                acc = None
                for p_ in cfg.pred[h]:
                    if p_ not in inn or b.blocks[p_].cleanup:
                        continue
                    e = self.edge(p_, h, self.block(p_, inn[p_]))
                    if e.bottom:
                        continue
                    acc = e if acc is None else acc.join(e)
                if acc is not None:
                    acc.close()
                    if acc.leq(inn[h]):
                        inn[h] = acc
            # propagate the refined head states once through the body (no widening, monotone decreasing)
            order = cfg.rpo()
            for bi in order:
                if bi not in inn or bi in heads or bi == 0:
                    continue
                acc = None
                for p_ in cfg.pred[bi]:
                    if p_ not in inn or b.blocks[p_].cleanup:
                        continue
                    e = self.edge(p_, bi, self.block(p_, inn[p_]))
                    if e.bottom:
                        continue
                    acc = e if acc is None else acc.join(e)
                if acc is not None:
                    acc.close()
                    if acc.leq(inn[bi]):
                        inn[bi] = acc
        self.obligations = []
        self.unsupported = []
        for bi in sorted(inn):
            self.block(bi, inn[bi], collect=True)
        return inn


def eval_str(v):
    """decode a rust debug-printed string constant"""
    s = v
    if s.startswith('"') and s.endswith('"'):
        s = s[1:-1]
    out = []
    i = 0
    while i < len(s):
        if s[i] == '\\' and i + 1 < len(s):
            out.append({'n': '\n', 't': '\t', 'r': '\r', '"': '"', '\\': '\\', "'": "'", '0': '\0'}.get(s[i + 1], s[i + 1]))
            i += 2
        else:
            out.append(s[i])
            i += 1
    return ''.join(out).encode('utf-8')


def run(prog, tier, repo):
    res = RuleResult('LEX-BOUNDS', 'C05: the hand-written byte scanning of the lexer never panics - every index, range slice, '
                     'usize subtraction and Lexer::bump in the lexer wrapper is within bounds for every input')
    scope = []
    for b in prog.bodies.values():
        if b.crate != 'samlang_parser' or b.self_ty is None or b.kind == 'closure':
            continue
        st = inner(b.self_ty)
        if st.k != 'adt' or 'WrappedLogosLexer' not in st.name:
            continue
        has = False
        for bl in b.blocks:
            if bl.cleanup:
                continue
            t = bl.term
            if t[0] == 'assert' and t[3][0] == 'bounds':
                has = True
            if t[0] == 'call':
                nm = callee(t)[1] or ''
                if nm.split('::')[-1] in ('index', 'index_mut') and 'HashMap' not in nm:
                    has = True
                if 'logos' in nm and nm.endswith('::bump'):
                    has = True
        if has:
            scope.append(b)
    res.floor('lexer bodies with byte-level indexing', len(scope), 4)
    n_ob = 0
    for b in sorted(scope, key=lambda x: x.name):
        it = Interp(prog, b)
        it.run()
        seen = {}
        for bi, line, what, ok, detail in it.obligations:
            n_ob += 1
            base = f'{b.name}:{what}'
            seen[base] = seen.get(base, 0) + 1
            key = base if seen[base] == 1 else f'{base}#{seen[base]}'
            if ok:
                res.ok(key, b.loc(line), 'entailed by the zone at this point')
            else:
                res.violation(key, b.loc(line), f'{b.name}: cannot prove {what} for every input ({detail}): some byte sequence makes '
                              f'the lexer panic')
        for bi, line, why in it.unsupported:
            res.violation(f'{b.name}:unsupported:{why[:40]}', b.loc(line), f'cannot decide LEX-BOUNDS in {b.name}: {why}')
    res.floor('bounds obligations', n_ob, 15)
    res.analysed['scope'] = sorted(b.name for b in scope)
    return [res]




def _holds_disjunctively(it, inn, bi, pred, depth=0):
    """Does `pred(zone)` hold at the entry of block bi on every incoming path? Checked on the joined state first,
    then per predecessor edge (the join of a reporting path and a range-checked path loses their disjunction)."""
    z = inn.get(bi)
    if z is None or z.bottom:
        return True
    if pred(z):
        return True
    if depth > 8 or bi == 0:
        return False
    b = it.b
    for p_ in it.cfg.pred[bi]:
        if p_ not in inn or b.blocks[p_].cleanup:
            continue
        out = it.block(p_, inn[p_])
        e = it.edge(p_, bi, out)
        if e.bottom or pred(e):
            continue
        # the predecessor itself must then be a pure join (no tracked effects) so that its own predecessors decide
        if any(st[0] == 'a' for st in b.blocks[p_].stmts if st[0] == 'a' and it.v(('i', st[1].local)) is not None) \
                or b.blocks[p_].term[0] not in ('goto', 'false_edge', 'false_unwind', 'drop'):
            return False
        if not _holds_disjunctively(it, inn, p_, pred, depth + 1):
            return False
    return True


def run_int_range(prog, tier, repo):
    res = RuleResult('INT-RANGE-REPORT', 'C06/C05: an integer literal outside the 32-bit range is always reported - an integer '
                     'token leaves the lexer only if an error was reported on that path or its value is proven to fit')
    I32_MAX = 2147483647
    cands = []
    for b in prog.bodies.values():
        if b.crate != 'samlang_parser' or '::lexer::' not in b.name or b.kind == 'closure':
            continue
        parses = [(bi, bl.term) for bi, bl in enumerate(b.blocks) if not bl.cleanup and bl.term[0] == 'call'
                  and (callee(bl.term)[1] or '').endswith('str::<impl str>::parse')
                  and b.locals[bl.term[4].local].s.startswith('std::result::Result<i')]
        if parses:
            cands.append((b, parses))
    if len(cands) != 1:
        res.cannot_decide(f'the lexer function that parses integer literals (found {len(cands)})')
        return [res]
    b, parses = cands[0]
    rl = parses[0][1][4].local
    # v: the local bound to the Ok payload
    vloc = None
    for bl in b.blocks:
        for st in bl.stmts:
            if st[0] == 'a' and not st[1].proj and st[2][0] == 'use' and st[2][1][0] in ('c', 'm'):
                pl = st[2][1][1]
                if pl.local == rl and pl.proj and pl.proj[0][0] == 'v' and pl.proj[0][2] == 'Ok':
                    vloc = st[1].local
    if vloc is None:
        res.cannot_decide('the parsed integer value')
        return [res]
    it = Interp(prog, b)
    inn = it.run()
    V, R = it.v(('i', vloc)), it.v(('R',))
    n = 0
    tok_param_payloads = set()
    for bi, bl in enumerate(b.blocks):
        if bl.cleanup or bi not in inn:
            continue
        for si, st in enumerate(bl.stmts):
            if not (st[0] == 'a' and st[2][0] == 'agg' and st[2][1][0] == 'adt' and st[2][1][3] == 'IntLiteral'
                    and st[2][1][1].endswith('TokenContent')):
                continue
            n += 1
            payload = st[2][2][0]
            pr, pp = operand_root(b, payload)
            sd = single_def(b, pr) if pr is not None else None
            fresh_text = sd is not None and sd[1] == 'term'      # a newly allocated string (the merged `-2147483648`)
            bound = I32_MAX + 1 if fresh_text else I32_MAX
            key = f'int-token:{b.name}:{"merged" if fresh_text else "pass-through"}'

            def pred(z, bound=bound):
                return z.entails(0, R, -1) or z.entails(V, 0, bound)
            # state right before the aggregate: entry state of the block is enough when the block has no report call
            if _holds_disjunctively(it, inn, bi, pred):
                res.ok(key, b.loc(st[3]), f'on every path an error was reported or the value is proven <= {bound}')
            else:
                lo, hi = inn[bi].bounds(V)
                res.violation(key, b.loc(st[3]), f'{b.name} lets an integer token through on a path where no error was reported and '
                              f'the literal value is only known to lie in [{lo}, {hi}] (needs <= {bound}): a literal such as '
                              f'2147483648 that is not directly preceded by `-` is accepted silently (and later read as 0)')
    res.floor('integer-token constructions', n, 2)
    res.analysed['function'] = b.name
    return [res]
