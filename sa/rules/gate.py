"""GATE (C06): no lowering is reachable unless the error set was tested after parsing and checking.
ERRSET-SINK (C06): every public report method of the error set inserts into the set that has_errors tests."""
from ..core import RuleResult
from ..cfg import cfg_of, single_def
from ..callgraph import body_refs
from ..dataflow import operand_root, call_sites, switch_on_call_result, root_local
from ..facts import callee, ty_mentions

SOURCES = {'samlang_ast::mir::Sources', 'samlang_ast::lir::Sources', 'samlang_ast::hir::Sources'}


def _sig_mentions_sources(b):
    pred = lambda t: t.k == 'adt' and t.name in SOURCES
    return any(ty_mentions(b.locals[i], pred) for i in range(0, b.nargs + 1))


def lowering_set(prog):
    """Role: public non-closure functions of the compiler/optimizer crates whose signature produces or
    consumes a whole-program IR (`*::Sources`)."""
    return {b.id: b for b in prog.bodies.values()
            if b.crate in ('samlang_compiler', 'samlang_optimization') and b.kind != 'closure' and b.pub
            and _sig_mentions_sources(b)}


def run_gate(prog, tier, repo):
    res = RuleResult('GATE', 'C06: the compiler emits no code unless parsing and checking reported no error')
    L = lowering_set(prog)
    res.floor('lowering entry points', len(L), 4)
    res.analysed['lowering'] = sorted(b.name for b in L.values())
    # bodies referencing a lowering function directly
    def refs_L(b):
        return {r for r in body_refs(b) if r in L}
    # closure -> does it (or nested closures) reference L
    def closure_refs_L(cid, seen=None):
        seen = seen or set()
        if cid in seen or cid not in prog.bodies:
            return set()
        seen.add(cid)
        out = set(refs_L(prog.bodies[cid]))
        for c in prog.closures_of.get(cid, []):
            out |= closure_refs_L(c, seen)
        return out
    has_errors_pred = lambda n: n.endswith('ErrorSet::has_errors')
    gates = []
    for b in prog.bodies.values():
        if b.kind == 'closure' or b.id in L:
            continue
        allrefs = set(refs_L(b))
        for c in prog.closures_of.get(b.id, []):
            allrefs |= closure_refs_L(c)
        if not allrefs:
            continue
        # b (with its closures) references lowering: it must be a gate function
        hs = call_sites(b, has_errors_pred)
        if not hs:
            # the gate may sit in a private helper next to the function (`let checked = type_check_or_render_errors(..)?;`):
            # decide on the body with such helpers inlined
            try:
                from .. import inline as _inl
                if not hasattr(prog, 'call_counts'):
                    prog.call_counts = _inl._call_counts(prog)
                nb = _inl._inline_once(prog, b, set())
                if nb is not None and call_sites(nb, has_errors_pred):
                    for _ in range(3):
                        if not _inl._sra(nb):
                            break
                    b = nb
                    hs = call_sites(b, has_errors_pred)
            except Exception:
                pass
        if not hs:
            key = f'who-may-call:{b.name}'
            callee_names = sorted(L[i].name for i in allrefs)
            # lowering functions calling each other (e.g. the pub wrapper of wasm lowering) are fine
            res.violation(key, b.loc(), f'{b.name} calls lowering function(s) {callee_names} but never tests '
                          f'ErrorSet::has_errors: code can be emitted for a program that was not checked or has errors')
            continue
        gates.append((b, hs, allrefs))
    if not gates:
        res.cannot_decide('no function both tests ErrorSet::has_errors and calls a lowering function')
        return [res]
    for b, hs, allrefs in gates:
        cfg = cfg_of(b)
        # lowering blocks of b: direct calls to L, or construction of a closure that references L
        lblocks = {}
        for bi, bl in enumerate(b.blocks):
            if bl.cleanup:
                continue
            t = bl.term
            names = set()
            if t[0] == 'call' and callee(t)[0] in L:
                names.add(L[callee(t)[0]].name)
            for st in bl.stmts:
                if st[0] == 'a' and st[2][0] == 'agg' and st[2][1][0] == 'closure':
                    for r in closure_refs_L(st[2][1][1]):
                        names.add(L[r].name)
            if names:
                lblocks[bi] = names
        # the gate edges: false edge of the switch on has_errors
        gate_edges = []
        err_locals = set()
        for hb, ht in hs:
            sw = switch_on_call_result(b, cfg, hb)
            if sw is None:
                res.violation(f'gate-not-branched:{b.name}', b.loc(ht[7]),
                              f'{b.name}: the result of has_errors() is not branched on')
                continue
            sbb, st = sw
            zero = [tg for v, tg in st[2] if v == 0]
            if len(zero) != 1:
                res.cannot_decide(f'unrecognised switch on has_errors in {b.name}', b.loc(ht[7]))
                continue
            gate_edges.append((sbb, zero[0]))
            loc, _ = operand_root(b, ht[3][0])
            err_locals.add(loc)
        gate_edges = _variant_implied_edges(b, cfg, gate_edges)
        for bi, names in sorted(lblocks.items()):
            key = f'gate:{b.name}:{"+".join(sorted(n.split("::")[-1] for n in names))}'
            line = b.blocks[bi].term[7] if b.blocks[bi].term[0] == 'call' else None
            if gate_edges and cfg.edges_dominate(gate_edges, bi):
                res.ok(key, b.loc(line), 'dominated by the no-errors edge of has_errors()')
            else:
                res.violation(key, b.loc(line),
                              f'{b.name}: lowering step {sorted(names)} is reachable on a path that does not take the '
                              f'"no errors" edge of ErrorSet::has_errors(): a program with errors can be compiled')
        # the tested error set is the one parsing and checking reported into, and the test comes last
        for role, pred in (('parse', lambda n: n.endswith('parse_source_module_from_text')),
                           ('type-check', lambda n: n.endswith('type_check_sources'))):
            sites = []  # (block, set of root locals mentioned)
            for bi, bl in enumerate(b.blocks):
                if bl.cleanup:
                    continue
                t = bl.term
                if t[0] == 'call' and callee(t)[1] and pred(callee(t)[1]):
                    sites.append((bi, {operand_root(b, o)[0] for o in t[3]}))
                for st in bl.stmts:
                    if st[0] == 'a' and st[2][0] == 'agg' and st[2][1][0] == 'closure':
                        cb = prog.bodies.get(st[2][1][1])
                        if cb is not None and any(pred(callee(x.term)[1] or '') for x in cb.blocks if x.term[0] == 'call'):
                            sites.append((bi, {operand_root(b, o)[0] for o in st[2][2]}))
            key = f'order:{b.name}:{role}'
            if not sites:
                res.violation(key, b.loc(), f'{b.name} calls lowering but never runs the {role} phase')
                continue
            hbs = [hb for hb, _ in hs]
            bad = None
            for bi, roots in sites:
                if not (roots & err_locals):
                    bad = f'the {role} phase at {b.loc()} reports into a different ErrorSet than the one has_errors() tests'
                elif any(cfg.can_reach(hb, bi) for hb in hbs):
                    bad = f'the {role} phase can run after the has_errors() test'
            if bad is None and not all(cfg.nodes_dominate([bi for bi, _ in sites], hb) for hb in hbs):
                bad = f'has_errors() is reachable without running the {role} phase'
            if bad:
                res.violation(key, b.loc(), f'{b.name}: {bad}')
            else:
                res.ok(key, b.loc(), f'{role} phase precedes the has_errors() test on the same ErrorSet')
    res.analysed['gate_functions'] = sorted(b.name for b, _, _ in gates)
    return [res]


def run_errset(prog, tier, repo):
    res = RuleResult('ERRSET-SINK', 'C06: every reported error lands in the set that has_errors() tests')
    es = [a for a in prog.adts.values() if a.name == 'samlang_errors::ErrorSet']
    if len(es) != 1:
        res.cannot_decide('ErrorSet type not found')
        return [res]
    es = es[0]
    methods = [b for b in prog.bodies.values() if b.self_ty is not None and b.self_ty.k == 'adt'
               and b.self_ty.id == es.id and b.kind == 'assoc' and b.trait is None]
    he = [b for b in methods if b.name.endswith('::has_errors')]
    if len(he) != 1:
        res.cannot_decide('ErrorSet::has_errors not found')
        return [res]
    he = he[0]
    # field tested by has_errors: result = Not(is_empty(&self.F))
    tested = None
    ok_shape = False
    for bi, t in call_sites(he, lambda n: n.endswith('::is_empty')):
        loc, path = operand_root(he, t[3][0])
        if loc == 1 and path and path[-1][0] == 'f':
            tested = path[-1][4]
            nxt = he.blocks[t[5]]
            for st in nxt.stmts:
                if st[0] == 'a' and st[1].local == 0 and st[2][0] == 'un' and st[2][1] == 'Not' \
                        and st[2][2][0] in ('c', 'm') and st[2][2][1].local == t[4].local:
                    ok_shape = True
    if tested is None or not ok_shape:
        res.violation('has_errors-shape', he.loc(), 'ErrorSet::has_errors is not `!self.<set>.is_empty()`; cannot relate '
                      'reported errors to the gate')
        return [res]
    res.ok('has_errors-shape', he.loc(), f'has_errors() == !self.{tested}.is_empty()')
    # sinks: methods that unconditionally insert into self.<tested>
    def inserts_unconditionally(b, sink_ids):
        cfg = cfg_of(b)
        blocks = []
        for bi, bl in enumerate(b.blocks):
            if bl.cleanup:
                continue
            t = bl.term
            if t[0] != 'call':
                continue
            cid, cname = callee(t)
            if cname and cname.endswith('BTreeSet::<T, A>::insert') or (cname and cname.endswith('::insert') and 'Set' in cname):
                loc, path = operand_root(b, t[3][0])
                if loc == 1 and path and path[-1][0] == 'f' and path[-1][4] == tested:
                    blocks.append(bi)
            elif cid in sink_ids:
                loc, path = operand_root(b, t[3][0]) if t[3] else (None, ())
                if loc == 1 and not path:
                    blocks.append(bi)
        return bool(blocks) and all(cfg.nodes_postdominate(blocks, 0) for _ in [0])
    sinks = set()
    changed = True
    while changed:
        changed = False
        for b in methods:
            if b.id not in sinks and b.nargs >= 2 and b.locals[1].k == 'ref' and b.locals[1].extra == 1 \
                    and inserts_unconditionally(b, sinks):
                sinks.add(b.id)
                changed = True
    reporters = [b for b in methods if b.pub and b.nargs >= 2 and b.locals[1].k == 'ref' and b.locals[1].extra == 1
                 and any(t.k == 'adt' and t.name == 'samlang_ast::Location' for t in b.locals[2:b.nargs + 1])]
    for b in sorted(reporters, key=lambda x: x.name):
        key = f'report:{b.name}'
        if b.id in sinks:
            res.ok(key, b.loc(), f'every path inserts into self.{tested}')
        else:
            res.violation(key, b.loc(), f'{b.name} takes &mut ErrorSet and a Location but has a path that does not insert '
                          f'into self.{tested}: an error reported through it is invisible to has_errors() and the '
                          f'program is compiled')
    res.floor('public report methods', len(reporters), 20)
    # merge clause: the per-module error sets of the parallel checker are folded into one set in whatever order the workers
    # delivered them. The fold is order-insensitive (and loses nothing) as long as merging is a plain union: the method that takes
    # another ErrorSet moves every element over on every path and decides nothing by looking at them.
    mergers = [b for b in methods if b.nargs >= 2 and b.locals[1].k == 'ref' and b.locals[1].extra == 1
               and any(_strip(b.locals[i]).k == 'adt' and _strip(b.locals[i]).id == es.id for i in range(2, b.nargs + 1))]
    for b in sorted(mergers, key=lambda x: x.name):
        key = f'merge:{b.name}'
        bad = None
        for bl in b.blocks:
            t = bl.term
            if bl.cleanup or t[0] != 'switch' or t[1][0] not in ('c', 'm'):
                continue
            # the only branch a union needs is the one on `next()` of the loop that moves the elements
            sd = single_def(b, t[1][1].local)
            drives_loop = False
            if sd and sd[1] != 'term' and sd[2][0] == 'disc':
                r, _ = root_local(b, sd[2][1].local)
                sd2 = single_def(b, r)
                drives_loop = bool(sd2 and sd2[1] == 'term' and (callee(sd2[2])[1] or '').split('::')[-1] == 'next')
            if not drives_loop:
                bad = t[4]
                break
        moved = any(not bl.cleanup and bl.term[0] == 'call' and (callee(bl.term)[1] or '').split('::')[-1] in
                    ('extend', 'append', 'insert', 'merge') for bl in b.blocks)
        if bad is not None:
            res.violation(key, b.loc(bad), f'{b.name} merges another error set into this one but branches on something other than the '
                          f'end of the elements: whether an error is kept then depends on what the receiving set already holds, i.e. '
                          f'on the order in which the per-module sets arrive from the parallel checker (hash-map / scheduling order), '
                          f'and an error of the other set can be lost')
        elif not moved:
            res.violation(key, b.loc(), f'{b.name} takes another error set but never moves its elements over')
        else:
            res.ok(key, b.loc(), 'plain union: every element is moved over on every path')
    res.floor('methods merging two error sets', len(mergers), 1)
    return [res]


def _strip(t):
    while t.k in ('ref', 'ptr'):
        t = t.args[0]
    return t


def run_assign_all_paths(prog, tier, repo):
    """ASSIGN-ALL-PATHS (C06/C03): the checker compares the operand types of every unary and binary operator and the two
    branches of every if-else with the expected type on *every* path through the function that types that construct.
    Instances (confirmed by reading, frozen): the checker functions taking &Binary, &Unary, &IfElse of the untyped tree."""
    from ..cfg import cfg_of
    from ..facts import strip_refs
    res = RuleResult('ASSIGN-ALL-PATHS', 'C06: an operand or branch of the wrong type is always rejected - typing an operator or an '
                     'if-else performs an assignability check on every path')
    ROLES = {'samlang_ast::source::expr::Binary': 'binary operator', 'samlang_ast::source::expr::Unary': 'unary operator',
             'samlang_ast::source::expr::IfElse': 'if-else'}
    found = {}
    for b in prog.bodies.values():
        if not b.name.startswith('samlang_checker::main_checker::') or b.kind == 'closure':
            continue
        rt = b.locals[0]
        if not (rt.k == 'adt' and rt.name.startswith('samlang_ast::source::expr::')):
            continue
        for i in range(1, b.nargs + 1):
            t = strip_refs(b.locals[i])
            if t.k == 'adt' and t.name in ROLES and t.args and t.args[0].k == 'tup':
                found.setdefault(t.name, []).append(b)
    for name, what in sorted(ROLES.items()):
        bs = found.get(name, [])
        if len(bs) != 1:
            res.cannot_decide(f'the checker function that types a {what} (found {len(bs)})')
            continue
        b = bs[0]
        cfg = cfg_of(b)

        def always_checks(hid, depth=0):
            hb = prog.bodies.get(hid)
            if hb is None or not hb.name.startswith('samlang_checker::main_checker::') or hb.kind == 'closure' or depth > 1:
                return False
            hc = [bi for bi, bl in enumerate(hb.blocks) if not bl.cleanup and bl.term[0] == 'call'
                  and ((callee(bl.term)[1] or '').endswith('main_checker::assignability_check')
                       or (callee(bl.term)[0] != hid and always_checks(callee(bl.term)[0], depth + 1)))]
            return bool(hc) and cfg_of(hb).nodes_postdominate(hc, 0)
        checks = [bi for bi, bl in enumerate(b.blocks) if not bl.cleanup and bl.term[0] == 'call'
                  and ((callee(bl.term)[1] or '').endswith('main_checker::assignability_check')
                       or (callee(bl.term)[0] != b.id and always_checks(callee(bl.term)[0])))]
        key = f'assign:{what}'
        if checks and cfg.nodes_postdominate(checks, 0):
            res.ok(key, b.loc(), f'{b.name}: every path performs an assignability check ({len(checks)} sites)')
        else:
            res.violation(key, b.loc(), f'{b.name} has a path that types a {what} without any assignability check: an ill-typed operand '
                          f'or branch on that path (for instance a mismatching `else if` chain) is accepted and reaches the '
                          f'back ends')
    return [res]


# ---------------------------------------------------------------------------------------------------------------------
# BINDER-WRITE (C05 / C03): LocalTypingContext::get_captured unwraps the type recorded for the definition location of every
# variable a lambda captures. Pattern identifiers are such definitions (the scope analysis registers each of them), so the
# checker must record a type for an identifier pattern on every path on which it produces the typed pattern - also on the
# error-recovery paths that type every binding as `any`.

def run_binder_write(prog, tier, repo):
    from ..cfg import cfg_of
    from ..dataflow import operand_root
    res = RuleResult('BINDER-WRITE', 'C05: every typed identifier pattern the checker produces is preceded, on every path, by '
                     'recording a type for that identifier\'s location (get_captured unwraps that entry for captured variables)')
    n = 0
    for b in prog.bodies.values():
        if b.crate != 'samlang_checker':
            continue
        cfg = None
        nf = 0
        for bi, bl in enumerate(b.blocks):
            if bl.cleanup:
                continue
            for si, st in enumerate(bl.stmts):
                if st[0] != 'a' or st[2][0] != 'agg':
                    continue
                ak = st[2][1]
                if ak[0] != 'adt' or not ak[1].endswith('pattern::MatchingPattern') or ak[3] != 'Id' or not st[2][2]:
                    continue
                ty = b.locals[st[1].local] if not st[1].proj else None
                # only the typed output pattern (payload Arc<Type>), not parser-side `()` patterns
                if ty is not None and ty.args and ty.args[0].s == '()':
                    continue
                n += 1
                nf += 1
                cfg = cfg or cfg_of(b)
                idr, idp = operand_root(b, st[2][2][0])
                idp = tuple((e[0], e[1]) + tuple(e[2:4]) for e in idp)
                found = False
                for bj, bl2 in enumerate(b.blocks):
                    t = bl2.term
                    if bl2.cleanup or t[0] != 'call' or len(t[3]) < 2:
                        continue
                    nm = callee(t)[1] or ''
                    if not nm.endswith('LocalTypingContext::write') and not (nm.split('::')[-1] == 'write' and 'typing_context' in nm):
                        continue
                    lr, lp = operand_root(b, t[3][1])
                    lp = tuple((e[0], e[1]) + tuple(e[2:4]) for e in lp)
                    if lr != idr or lp[:len(idp)] != idp:
                        continue
                    if bj != bi and cfg.nodes_dominate([bj], bi):
                        found = True
                key = f'{b.id}:id-pattern#{nf}'
                if found:
                    res.ok(key, b.loc(st[3]), 'typed Id pattern dominated by LocalTypingContext::write for the same identifier')
                else:
                    res.violation(key, b.loc(st[3]), f'{b.name} produces a typed identifier pattern without recording a type for the '
                                  f'identifier\'s location on every path before it: a lambda that captures this binding makes '
                                  f'LocalTypingContext::get_captured unwrap a missing entry and the checker panics')
    res.floor('typed identifier patterns', n, 2)
    return [res]


# ---------------------------------------------------------------------------------------------------------------------
# EXHAUSTIVE-GATE (C03, C06): match lowering adds an "unreachable" fallback panic and `let` destructuring is lowered without
# any test, both justified only by the checker's exhaustiveness verdict. So every checker function that produces a typed
# `Match` node or a typed declaration statement must consult the exhaustiveness procedure on every path before, and each
# negative verdict (a counterexample) must be reported on every path.

def run_exhaustive_gate(prog, tier, repo):
    from ..cfg import cfg_of, single_def
    res = RuleResult('EXHAUSTIVE-GATE', 'C06: a match / destructuring that does not cover every case is always reported - every typed '
                     'Match node and declaration statement is built only after the exhaustiveness procedure ran, and every '
                     'counterexample it returns is reported')
    n_gate = n_rep = 0
    for b in prog.bodies.values():
        if b.crate != 'samlang_checker' or b.kind == 'closure':
            continue
        cfg = None
        verdicts = [bi for bi, bl in enumerate(b.blocks) if not bl.cleanup and bl.term[0] == 'call'
                    and (callee(bl.term)[1] or '').endswith('pattern_matching::incomplete_counterexample')]
        # (1) constructions
        for bi, bl in enumerate(b.blocks):
            if bl.cleanup:
                continue
            for st in bl.stmts:
                if st[0] != 'a' or st[2][0] != 'agg' or st[2][1][0] != 'adt':
                    continue
                nm = st[2][1][1]
                if not (nm.endswith('::expr::Match') or nm.endswith('::expr::DeclarationStatement')):
                    continue
                ty = b.locals[st[1].local] if not st[1].proj else None
                if ty is None or not ty.args or ty.args[0].s == '()':
                    continue        # untyped (parser-side) node or a clone
                # a construction that merely rebuilds a node from fields of an existing typed node is not a checking site
                n_gate += 1
                cfg = cfg or cfg_of(b)
                key = f'gate:{b.name}:{nm.split("::")[-1]}'
                if verdicts and cfg.nodes_dominate(verdicts, bi):
                    res.ok(key, b.loc(st[3]), 'dominated by the exhaustiveness procedure')
                else:
                    res.violation(key, b.loc(st[3]), f'{b.name} builds a typed {nm.split("::")[-1]} on a path that never asks the '
                                  f'exhaustiveness procedure: a non-exhaustive match is accepted and the lowered code falls into the '
                                  f'"unreachable" panic (or reads a field of the wrong variant) at run time')
        # (2) every counterexample is reported
        for vb in verdicts:
            cfg = cfg or cfg_of(b)
            t = b.blocks[vb].term
            n_rep += 1
            key = f'report:{b.name}'
            some_targets = []
            if t[4] is not None and not t[4].proj:
                for bj, bl in enumerate(b.blocks):
                    tt = bl.term
                    if bl.cleanup or tt[0] != 'switch' or tt[1][0] not in ('c', 'm'):
                        continue
                    sd = single_def(b, tt[1][1].local)
                    if sd and sd[1] != 'term' and sd[2][0] == 'disc' and not sd[2][1].proj and sd[2][1].local == t[4].local:
                        some_targets += [tg for v, tg in tt[2] if v == 1]
            reports = [bi for bi, bl in enumerate(b.blocks) if not bl.cleanup and bl.term[0] == 'call'
                       and 'ErrorSet::report_' in (callee(bl.term)[1] or '')]
            if not some_targets:
                res.cannot_decide(f'the test of the exhaustiveness verdict in {b.name}', b.loc(t[7]))
            elif all(cfg.nodes_postdominate(reports, tg) for tg in some_targets):
                res.ok(key, b.loc(t[7]), 'the counterexample edge is post-dominated by a report')
            else:
                res.violation(key, b.loc(t[7]), f'{b.name}: a path on which the exhaustiveness procedure returned a counterexample does '
                              f'not report an error: the program is accepted although a case is not covered')
    res.floor('typed match / declaration constructions', n_gate, 2)
    res.floor('exhaustiveness verdicts', n_rep, 2)
    return [res]


# ---------------------------------------------------------------------------------------------------------------------
# PLACEHOLDER-ORDINAL (C06, C03): the parser cannot know declaration order, so the ordinal fields of the *untyped* tree
# (field index of a struct pattern element / field access, tag of a variant pattern) hold a placeholder. The checker resolves
# the real ordinal from the declaration. A placeholder may be copied into the typed node on an error path, but any other use
# of it (indexing the exhaustiveness matrix, arithmetic, comparison) on a path that reported no error means the checker
# reasons about the wrong column: non-exhaustive matches are accepted and fall into the lowered "unreachable" panic.

def run_placeholder_ordinal(prog, tier, repo):
    from ..cfg import cfg_of, single_def
    from ..dataflow import root_local
    from ..facts import strip_refs
    res = RuleResult('PLACEHOLDER-ORDINAL', 'C06: the checker never computes with the placeholder ordinals of the untyped tree except '
                     'after reporting an error (resolved ordinals come from the declaration)')
    n = 0
    for b in prog.bodies.values():
        if b.crate != 'samlang_checker' or '::tests' in b.name:
            continue
        cfg = None
        reads = []     # (local holding the value or a reference to it, field description, line)
        for bi, bl in enumerate(b.blocks):
            if bl.cleanup:
                continue
            for st in bl.stmts:
                if st[0] != 'a' or st[1].proj:
                    continue
                rv = st[2]
                pl = rv[2] if rv[0] == 'ref' else (rv[1][1] if rv[0] == 'use' and rv[1][0] in ('c', 'm') else None)
                if pl is None or not pl.proj or pl.proj[-1][0] != 'f':
                    continue
                e = pl.proj[-1]
                adt = prog.adts.get(e[1])
                if adt is None or not adt.name.startswith('samlang_ast::source') or e[4] not in ('field_order', 'tag_order'):
                    continue
                # is the node untyped? the root local's type carries the `()` payload parameter
                r, _p = root_local(b, pl.local)
                rt = strip_refs(b.locals[r])
                hops = 0
                while rt.k == 'adt' and rt.args and rt.name.split('<')[0] in ('std::option::Option', 'std::boxed::Box') and hops < 4:
                    rt = strip_refs(rt.args[0])
                    hops += 1
                if '<()>' not in rt.s and not rt.s.endswith('<()>'):
                    continue
                reads.append((st[1].local, f'{adt.name.split("source::")[-1]}.{e[4]}', st[3], (e[1], e[2], e[3])))
        if not reads:
            continue
        cfg = cfg_of(b)
        reports = [bi for bi, bl in enumerate(b.blocks) if not bl.cleanup and bl.term[0] == 'call'
                   and 'ErrorSet::report_' in (callee(bl.term)[1] or '')]
        for loc0, fname, line0, slot in reads:
            # every local holding the placeholder (through copies / derefs)
            holders = {loc0}
            changed = True
            while changed:
                changed = False
                for bl in b.blocks:
                    for st in bl.stmts:
                        if st[0] == 'a' and not st[1].proj and st[2][0] == 'use' and st[2][1][0] in ('c', 'm') \
                                and st[2][1][1].local in holders and all(x[0] == 'd' for x in st[2][1][1].proj) \
                                and st[1].local not in holders:
                            holders.add(st[1].local)
                            changed = True
            for bi, bl in enumerate(b.blocks):
                if bl.cleanup:
                    continue
                uses = []
                for st in bl.stmts:
                    if st[0] != 'a':
                        continue
                    rv = st[2]
                    if rv[0] == 'agg':
                        for k, o in enumerate(rv[2]):
                            if o[0] in ('c', 'm') and o[1].local in holders:
                                same = rv[1][0] == 'adt' and (rv[1][1], rv[1][2], k) == slot
                                if not same:
                                    uses.append((st[3], 'stored into another node field'))
                    elif rv[0] in ('bin', 'cast', 'un'):
                        from ..callgraph import iter_operands_rvalue
                        for o in iter_operands_rvalue(rv):
                            if o[0] in ('c', 'm') and o[1].local in holders:
                                uses.append((st[3], 'arithmetic / comparison'))
                    # index projections `x[_h]`
                    for pl in [st[1]] + ([rv[2]] if rv[0] == 'ref' else []) + ([rv[1][1]] if rv[0] == 'use' and rv[1][0] in ('c', 'm') else []):
                        for e in pl.proj:
                            if e[0] == 'i' and e[1] in holders:
                                uses.append((st[3], 'index'))
                t = bl.term
                if t[0] == 'call':
                    nm = (callee(t)[1] or '')
                    for o in t[3]:
                        if o[0] in ('c', 'm') and o[1].local in holders and not nm.endswith(('::clone', '::dupe')):
                            uses.append((t[7], 'passed to ' + nm.split('::')[-1]))
                elif t[0] == 'assert':
                    for o in (t[1],) + tuple(x for x in t[3][1:] if isinstance(x, tuple)):
                        if isinstance(o, tuple) and o and o[0] in ('c', 'm') and o[1].local in holders:
                            uses.append((t[5], 'bounds / overflow check operand'))
                for line, what in uses:
                    n += 1
                    nb = sum(1 for i in res.instances if i.key.startswith(f'placeholder:{b.name}:{fname}#')) + 1
                    key = f'placeholder:{b.name}:{fname}#{nb}'
                    if reports and cfg.nodes_dominate(reports, bi):
                        res.ok(key, b.loc(line), f'placeholder {fname} used ({what}) only after an error was reported')
                    else:
                        res.violation(key, b.loc(line), f'{b.name} uses the parser\'s placeholder `{fname}` ({what}) on a path that '
                                      f'reported no error: the resolved ordinal from the declaration must be used there, otherwise '
                                      f'the exhaustiveness matrix / lowering works on the wrong column')
    res.analysed['placeholder_uses'] = n
    return [res]


# ---------------------------------------------------------------------------------------------------------------------
# PRIVATE-GUARD (C06): "a use of a private member or class from another module is rejected". In the typing context the
# members of a class are looked up by name in the global signature; the class-level visibility test - the `private` flag of
# the class's interface entry compared with the current module - must have succeeded on every path that reaches such a
# member lookup, for static members and for methods alike.

def run_private_guard(prog, tier, repo):
    from ..cfg import cfg_of, single_def
    from ..core import field_reads
    res = RuleResult('PRIVATE-GUARD', 'C06: every by-name member lookup of the typing context is reached only after the class-level '
                     'visibility test (`private` flag vs. current module) succeeded')
    n = 0
    for b in sorted(prog.bodies.values(), key=lambda x: x.name):
        if b.crate != 'samlang_checker' or '::typing_context::' not in b.name + '::' or b.kind == 'closure' or '::tests' in b.name:
            continue
        lookups = [(bi, bl.term) for bi, bl in enumerate(b.blocks) if not bl.cleanup and bl.term[0] == 'call'
                   and (callee(bl.term)[1] or '').endswith(('global_signature::resolve_function_signature',
                                                             'global_signature::resolve_method_signature'))]
        if not lookups:
            continue
        cfg = cfg_of(b)
        # visibility tests: Option::filter with a closure that reads the `private` field, then `?`
        pass_edges = []
        for bi, bl in enumerate(b.blocks):
            t = bl.term
            if bl.cleanup or t[0] != 'call' or not (callee(t)[1] or '').endswith('Option::<T>::filter') or len(t[3]) < 2:
                continue
            o = t[3][1]
            sd = single_def(b, o[1].local) if o[0] in ('c', 'm') else None
            if not (sd and sd[1] != 'term' and sd[2][0] == 'agg' and sd[2][1][0] == 'closure'):
                continue
            cb = prog.bodies.get(sd[2][1][1])
            if cb is None or not any(prog.adts.get(k[0]) is not None and prog.adts[k[0]].variants[k[1]].fields[k[2]].name == 'private'
                                     for k in field_reads(cb)):
                continue
            # follow the result to the `?` switch: Continue edge
            cur = t[4].local if t[4] is not None and not t[4].proj else None
            for _ in range(4):
                nxt = None
                for bj, bl2 in enumerate(b.blocks):
                    t2 = bl2.term
                    if bl2.cleanup:
                        continue
                    if t2[0] == 'call' and (callee(t2)[1] or '').endswith('Try>::branch') and t2[3] and t2[3][0][0] in ('c', 'm') \
                            and t2[3][0][1].local == cur and t2[4] is not None:
                        nxt = t2[4].local
                    if t2[0] == 'switch' and t2[1][0] in ('c', 'm'):
                        sd2 = single_def(b, t2[1][1].local)
                        if sd2 and sd2[1] != 'term' and sd2[2][0] == 'disc' and not sd2[2][1].proj and sd2[2][1].local == cur:
                            pass_edges += [(bj, tg) for v, tg in t2[2] if v == 0]
                if nxt is None:
                    break
                cur = nxt
        # ... or spelled out: a branch on a value computed from the `private` flag, one side of which cannot reach the lookups
        def reads_private(l, depth=0):
            if depth > 5:
                return False
            sd_ = single_def(b, l)
            if not sd_ or sd_[1] == 'term':
                return False
            rv = sd_[2]
            pls = []
            if rv[0] == 'use' and rv[1][0] in ('c', 'm'):
                pls.append(rv[1][1])
            elif rv[0] == 'un' and rv[2][0] in ('c', 'm'):
                pls.append(rv[2][1])
            elif rv[0] == 'bin':
                pls += [o[1] for o in rv[2:4] if o[0] in ('c', 'm')]
            elif rv[0] in ('copyderef',):
                pls.append(rv[1])
            for pl in pls:
                if any(e[0] == 'f' and e[4] == 'private' for e in pl.proj):
                    return True
                if not pl.proj and reads_private(pl.local, depth + 1):
                    return True
            return False
        look_blocks = [bi for bi, _t in lookups]
        for bj, bl2 in enumerate(b.blocks):
            t2 = bl2.term
            if bl2.cleanup or t2[0] != 'switch' or t2[1][0] not in ('c', 'm'):
                continue
            direct = any(e[0] == 'f' and e[4] == 'private' for e in t2[1][1].proj)
            if not (direct or (not t2[1][1].proj and reads_private(t2[1][1].local))):
                continue
            succs_ = [tg for _v, tg in t2[2]] + [t2[3]]
            can = {tg: any(x in cfg.reachable(tg) for x in look_blocks) for tg in succs_}
            if any(can.values()) and not all(can.values()):
                pass_edges += [(bj, tg) for tg in succs_ if can[tg]]
            elif all(can.values()):
                # short-circuit: `private && other_module` - the flag's true side runs into a second test that separates
                for tg in succs_:
                    cur_, hops = tg, 0
                    while hops < 12 and b.blocks[cur_].term[0] in ('goto', 'false_edge', 'call', 'assert') and not b.blocks[cur_].cleanup:
                        t3 = b.blocks[cur_].term
                        nxt_ = t3[1] if t3[0] in ('goto', 'false_edge') else (t3[5] if t3[0] == 'call' else t3[4])
                        if nxt_ is None:
                            break
                        cur_, hops = nxt_, hops + 1
                    t3 = b.blocks[cur_].term
                    if t3[0] != 'switch' or cur_ == bj or not cfg.edges_dominate([(bj, tg)], cur_):
                        continue
                    s2 = [x for _v, x in t3[2]] + [t3[3]]
                    can2 = {x: any(y in cfg.reachable(x) for y in look_blocks) for x in s2}
                    if any(can2.values()) and not all(can2.values()):
                        pass_edges += [(cur_, x) for x in s2 if can2[x]]
                        pass_edges += [(bj, other) for other in succs_ if other != tg]
        for bi, t in lookups:
            n += 1
            short = (callee(t)[1] or '').split('::')[-1]
            key = f'lookup:{b.name}:{short}'
            if pass_edges and cfg.edges_dominate(pass_edges, bi):
                res.ok(key, b.loc(t[7]), 'dominated by the successful class-level visibility test')
            else:
                res.violation(key, b.loc(t[7]), f'{b.name}: `{short}` is reachable without the class-level visibility test having '
                              f'succeeded: members of a `private` class of another module resolve (e.g. on a value obtained through a '
                              f'public function), so a use of a private class from another module is accepted')
    res.floor('by-name member lookups in the typing context', n, 2)
    return [res]


def _variant_implied_edges(b, cfg, edges):
    """The decision can travel as a value: `if has_errors { return Err(..) } Ok(..)` in a helper, `helper()?` in the caller.
    If every construction of variant v of an enum-typed local is dominated by the given edges, then taking the v-edge of a
    switch on that local's discriminant (directly, after whole moves, or after `Try::branch`, which keeps the variant index)
    implies that one of the given edges was taken. Returns the edges extended by such switch edges (fixpoint)."""
    from ..cfg import def_sites
    edges = list(edges)
    if not edges:
        return edges
    defs = def_sites(b)
    for _round in range(3):
        added = False
        # enum-typed locals -> variant -> construction blocks
        built = {}
        for bi, bl in enumerate(b.blocks):
            if bl.cleanup:
                continue
            for st in bl.stmts:
                if st[0] == 'a' and not st[1].proj and st[2][0] == 'agg' and st[2][1][0] == 'adt' and st[2][1][2] is not None:
                    built.setdefault(st[1].local, {}).setdefault(st[2][1][2], []).append(bi)
        clean = {}     # local -> set of clean variant indices
        for l, vs in built.items():
            # every definition of l must be one of these aggregates (no calls, no copies from elsewhere)
            ds = [d for d in defs.get(l, []) if not b.blocks[d[0]].cleanup]
            if any(d[1] == 'term' or d[2][0] != 'agg' for d in ds):
                continue
            cv = {v for v, blocks in vs.items() if all(cfg.edges_dominate(edges, x) for x in blocks)}
            if cv and len(vs) > 1:
                clean[l] = cv

        def origin(l, depth=0):
            if l in clean:
                return l
            if depth > 8:
                return None
            ds = [d for d in defs.get(l, []) if not b.blocks[d[0]].cleanup]
            if len(ds) != 1:
                # several whole moves out of locals with the same origin (one per inlined `return`)
                os_ = set()
                for d in ds:
                    if d[1] != 'term' and d[2][0] == 'use' and d[2][1][0] in ('c', 'm') and not d[2][1][1].proj:
                        os_.add(origin(d[2][1][1].local, depth + 1))
                    else:
                        return None
                return os_.pop() if len(os_) == 1 else None
            d = ds[0]
            if d[1] == 'term':
                t = d[2]
                if (callee(t)[1] or '').endswith('as std::ops::Try>::branch') and t[3] and t[3][0][0] in ('c', 'm') and not t[3][0][1].proj:
                    return origin(t[3][0][1].local, depth + 1)
                return None
            rv = d[2]
            if rv[0] == 'use' and rv[1][0] in ('c', 'm') and not rv[1][1].proj:
                return origin(rv[1][1].local, depth + 1)
            return None
        for bi, bl in enumerate(b.blocks):
            t = bl.term
            if bl.cleanup or t[0] != 'switch' or t[1][0] not in ('c', 'm'):
                continue
            sd = single_def(b, t[1][1].local)
            if not (sd and sd[1] != 'term' and sd[2][0] == 'disc' and not sd[2][1].proj):
                continue
            o = origin(sd[2][1].local)
            if o is None:
                continue
            for v, tg in t[2]:
                if v in clean[o] and (bi, tg) not in edges:
                    edges.append((bi, tg))
                    added = True
        if not added:
            break
    return edges


# ---------------------------------------------------------------------------------------------------------------------
# ROW-BY-FIELD-INDEX (C06, C05): the exhaustiveness analysis works on rows with one column per field of the matched struct, in
# declaration order. An object pattern `{ b as p, a }` mentions fields by name in any order and may leave some out, so the
# checker pre-sizes the row with one wildcard per field and stores each element's abstract pattern *at the index of its field*.
# Appending instead (in the order of mention) puts patterns under the wrong fields - a non-exhaustive match is accepted, or an
# unknown field adds a column and the matrix algorithm panics on the ragged row. Rule: in the checker function that types a
# pattern, the row that receives indexed stores keyed by `field_order` exists, and nothing is pushed onto it inside the loop
# over the pattern elements.

def run_row_by_field_index(prog, tier, repo):
    from ..facts import strip_refs
    from .delegate import origin
    res = RuleResult('ROW-BY-FIELD-INDEX', 'C06: the abstract pattern of each object-pattern element is stored in the row at the index of '
                     'its field, never appended in the order of mention')
    bs = [b for b in prog.bodies.values() if b.name.startswith('samlang_checker::main_checker::') and b.kind != 'closure'
          and 'AbstractPatternNode' in b.locals[0].s and 'MatchingPattern' in b.locals[0].s
          and any('MatchingPattern' in strip_refs(b.locals[i]).s for i in range(1, b.nargs + 1))]
    if len(bs) != 1:
        res.cannot_decide(f'the checker function that types a pattern and returns its abstract pattern (found {len(bs)})')
        return [res]
    b = bs[0]
    cfg = cfg_of(b)

    def is_row(l):
        t = strip_refs(b.locals[l])
        return t.k == 'adt' and t.name.startswith('std::vec::Vec') and 'AbstractPatternNode' in t.s
    stores = []     # (block, row local)
    pushes = []
    for bi, bl in enumerate(b.blocks):
        t = bl.term
        if bl.cleanup or t[0] != 'call' or not t[3] or t[3][0][0] not in ('c', 'm'):
            continue
        short = (callee(t)[1] or '').split('::')[-1]
        r, _ = origin(b, t[3][0][1].local)
        if r is None or not is_row(r):
            continue
        if short == 'index_mut' and len(t[3]) >= 2 and t[3][1][0] in ('c', 'm'):
            _ri, pi = origin(b, t[3][1][1].local)
            if any(e[0] == 'f' and e[4] == 'field_order' for e in pi):
                stores.append((bi, r))
        elif short in ('push', 'insert', 'extend', 'append'):
            pushes.append((bi, r, t[7]))
    key = f'row:{b.name}'
    if not stores:
        res.violation(key, b.loc(), f'{b.name} never stores an abstract pattern at the index given by an element\'s `field_order`: the '
                      f'row of an object pattern follows the order of mention instead of the declaration order of the fields, so the '
                      f'exhaustiveness analysis reads each sub-pattern under the wrong field')
        return [res]
    rows = {r for _, r in stores}
    bad = []
    for sb, r in stores:
        loop = {x for x in cfg.reachable(sb) if sb in cfg.reachable(x)}
        for pb, pr, line in pushes:
            if pr == r and pb in loop:
                bad.append(line)
    if bad:
        res.violation(key, b.loc(bad[0]), f'{b.name} appends to the row of an object pattern inside the loop over the pattern\'s elements: '
                      f'the row then has more columns than the struct has fields (or a sub-pattern under the wrong field), and the '
                      f'matrix algorithm of the exhaustiveness analysis assumes rows of equal width')
    else:
        res.ok(key, b.loc(stores[0][0] and b.line), f'{len(stores)} indexed store(s) keyed by field_order; the row is only appended to '
               f'while it is pre-sized')
    res.analysed['indexed_stores'] = len(stores)
    res.analysed['rows'] = len(rows)
    return [res]
