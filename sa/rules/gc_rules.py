"""C11 rules on the GC driver: POP-MUST-MARK - a module reference taken out of the unmarked set is always looked
up and, when found, marked, before anything else happens; otherwise the set can become empty (enabling the sweep)
although a module was never marked."""
from ..core import RuleResult
from ..cfg import cfg_of, single_def
from ..dataflow import operand_root, root_local, call_sites
from ..facts import callee
from .lookup_unwrap import _uses_of_option


def run(prog, tier, repo):
    res = RuleResult('POP-MUST-MARK', 'C11: the sweeper never runs while a live module is unmarked - every module reference '
                     'popped from the unmarked set is looked up and marked on every path')
    drivers = []
    for b in prog.bodies.values():
        if b.crate != 'samlang_services':
            continue
        pops = call_sites(b, lambda n: n.endswith('Heap::pop_unmarked_module_reference'))
        if pops:
            drivers.append((b, pops))
    if not drivers:
        res.cannot_decide('the GC driver (caller of Heap::pop_unmarked_module_reference)')
        return [res]
    n = 0
    for b, pops in drivers:
        cfg = cfg_of(b)
        for pb, pt in pops:
            n += 1
            key = f'pop:{b.name}'
            some_edges = _uses_of_option(b, pt[4].local)
            if not some_edges:
                res.violation(key, b.loc(pt[7]), f'{b.name}: the popped module reference is not matched on')
                continue
            # the popped value: locals assigned from (opt as Some).0
            popped = set()
            for bl in b.blocks:
                for st in bl.stmts:
                    if st[0] == 'a' and st[2][0] == 'use' and st[2][1][0] in ('c', 'm'):
                        pl = st[2][1][1]
                        if pl.local == pt[4].local and pl.proj and pl.proj[0][0] == 'v':
                            popped.add(st[1].local)
            gets = []
            for gb, gt in call_sites(b, lambda nm: nm.endswith('HashMap::<K, V, S, A>::get')):
                r, _ = operand_root(b, gt[3][1])
                if r in popped or r == pt[4].local:
                    gets.append((gb, gt))
            marks = []
            for gb, gt in gets:
                for ge in _uses_of_option(b, gt[4].local):
                    marks.append((gb, gt, ge))
            ends = set(cfg.exits) | {pb}
            bad = None
            for (sb, tgt) in some_edges:
                # from the Some target, every path to an exit or to the next pop must pass through a lookup of the popped key
                reach = cfg.reachable(tgt, removed_nodes=[g for g, _ in gets])
                if tgt not in [g for g, _ in gets] and (reach & ends):
                    bad = 'a path from the popped reference to the end of the slice (or to the next pop) performs no lookup of ' \
                          'that module in the checked-module map'
            # on the found edge of the lookup, marking must follow on every path
            mark_calls = [bi for bi, t in call_sites(b, lambda nm: '::gc::mark_' in nm or nm.endswith('Heap::mark'))]
            for gb, gt in gets:
                for (sb, tgt) in _uses_of_option(b, gt[4].local):
                    reach = cfg.reachable(tgt, removed_nodes=mark_calls)
                    if tgt not in mark_calls and (reach & ends):
                        bad = bad or 'a module that was found in the checked-module map can be skipped without marking'
            if not gets:
                bad = 'the popped module reference is never looked up'
            if bad:
                res.violation(key, b.loc(pt[7]), f'{b.name}: {bad}: the module leaves the unmarked set without its strings being '
                              f'marked, the set becomes empty, the sweep runs and reclaims strings that are still referenced')
            else:
                res.ok(key, b.loc(pt[7]), 'every popped module reference is looked up and, when present, marked before the next pop or return')
    res.floor('pop sites', n, 1)
    return [res]
