"""C11 rules on the GC driver: POP-MUST-MARK - a module reference taken out of the unmarked set is always looked
up and, when found, marked, before anything else happens; otherwise the set can become empty (enabling the sweep)
although a module was never marked."""
from ..core import RuleResult
from ..cfg import cfg_of, single_def
from ..dataflow import operand_root, root_local, call_sites
from ..facts import callee
from .lookup_unwrap import _uses_of_option


def run(prog, tier, repo):
    res = RuleResult('POP-MUST-MARK', 'C11: the sweeper never runs while a live module is unmarked - every module reference '
                     'popped from the unmarked set is looked up and marked on every path')
    drivers = []
    for b in prog.bodies.values():
        if b.crate != 'samlang_services':
            continue
        pops = call_sites(b, lambda n: n.endswith('Heap::pop_unmarked_module_reference'))
        if pops:
            drivers.append((b, pops))
    if not drivers:
        res.cannot_decide('the GC driver (caller of Heap::pop_unmarked_module_reference)')
        return [res]
    n = 0
    for b, pops in drivers:
        cfg = cfg_of(b)
        for pb, pt in pops:
            n += 1
            key = f'pop:{b.name}'
            some_edges = _uses_of_option(b, pt[4].local)
            if not some_edges:
                res.violation(key, b.loc(pt[7]), f'{b.name}: the popped module reference is not matched on')
                continue
            # the popped value: locals assigned from (opt as Some).0
            popped = set()
            for bl in b.blocks:
                for st in bl.stmts:
                    if st[0] == 'a' and st[2][0] == 'use' and st[2][1][0] in ('c', 'm'):
                        pl = st[2][1][1]
                        if pl.local == pt[4].local and pl.proj and pl.proj[0][0] == 'v':
                            popped.add(st[1].local)
            gets = []
            for gb, gt in call_sites(b, lambda nm: nm.endswith('HashMap::<K, V, S, A>::get')):
                r, _ = operand_root(b, gt[3][1])
                if r in popped or r == pt[4].local:
                    gets.append((gb, gt))
            marks = []
            for gb, gt in gets:
                for ge in _uses_of_option(b, gt[4].local):
                    marks.append((gb, gt, ge))
            ends = set(cfg.exits) | {pb}
            bad = None
            for (sb, tgt) in some_edges:
                # from the Some target, every path to an exit or to the next pop must pass through a lookup of the popped key
                reach = cfg.reachable(tgt, removed_nodes=[g for g, _ in gets])
                if tgt not in [g for g, _ in gets] and (reach & ends):
                    bad = 'a path from the popped reference to the end of the slice (or to the next pop) performs no lookup of ' \
                          'that module in the checked-module map'
            # on the found edge of the lookup, marking must follow on every path
            mark_calls = [bi for bi, t in call_sites(b, lambda nm: '::gc::mark_' in nm or nm.endswith('Heap::mark'))]
            for gb, gt in gets:
                for (sb, tgt) in _uses_of_option(b, gt[4].local):
                    reach = cfg.reachable(tgt, removed_nodes=mark_calls)
                    if tgt not in mark_calls and (reach & ends):
                        bad = bad or 'a module that was found in the checked-module map can be skipped without marking'
            if not gets:
                bad = 'the popped module reference is never looked up'
            if bad:
                res.violation(key, b.loc(pt[7]), f'{b.name}: {bad}: the module leaves the unmarked set without its strings being '
                              f'marked, the set becomes empty, the sweep runs and reclaims strings that are still referenced')
            else:
                res.ok(key, b.loc(pt[7]), 'every popped module reference is looked up and, when present, marked before the next pop or return')
    res.floor('pop sites', n, 1)
    return [res]


# ---------------------------------------------------------------------------------------------------------------------
# GC-ROOTS (C11, C10): every sweep round clears the mark bits it passes and reclaims what is unmarked, so each round has to
# re-mark *every* module the server still holds. The GC driver marks exactly the modules named in the list it is given,
# looked up in the map it is given. Necessary condition at each call of the driver: the list is built from all keys of that
# same map (`map.keys()` through an iterator chain), not from a subset such as the modules that were just rechecked.

def run_gc_roots(prog, tier, repo):
    res = RuleResult('GC-ROOTS', 'C11: after every recheck the GC is told to mark all modules the server holds - the module list '
                     'given to the GC driver is built from every key of the module map given to it')
    drivers = [b for b in prog.bodies.values() if b.crate == 'samlang_services' and b.kind != 'closure'
               and b.name.endswith('perform_gc_after_recheck')]
    if len(drivers) != 1:
        res.cannot_decide('the GC driver called after a recheck')
        return [res]
    drv = drivers[0]
    # parameter roles by type: the module map (HashMap<ModuleReference, Module<..>>) and the list (Vec<ModuleReference>)
    map_idx = [i for i in range(1, drv.nargs + 1) if 'HashMap' in drv.locals[i].s and 'Module<' in drv.locals[i].s]
    list_idx = [i for i in range(1, drv.nargs + 1) if drv.locals[i].s.startswith('std::vec::Vec<') and 'ModuleReference' in drv.locals[i].s]
    if len(map_idx) != 1 or len(list_idx) != 1:
        res.cannot_decide('the module map and module list parameters of the GC driver', drv.loc())
        return [res]
    n = 0

    def keys_source(b, op, depth=0):
        """(root, field names) of the map whose keys() feed this value through an iterator chain, or None"""
        if op[0] not in ('c', 'm') or depth > 10:
            return None
        r, _p = operand_root(b, op)
        sd = single_def(b, r) if r is not None else None
        if not sd or sd[1] != 'term':
            return None
        t = sd[2]
        nm = (callee(t)[1] or '').split('::')[-1]
        if nm == 'keys' and t[3]:
            rr, pp = operand_root(b, t[3][0])
            return (rr, tuple(e[4] if e[0] == 'f' else e[1] for e in pp if e[0] in ('f', 't')))
        if nm in ('collect', 'copied', 'cloned', 'into_iter', 'iter', 'map', 'collect_vec', 'to_vec', 'from_iter') and t[3]:
            return keys_source(b, t[3][0], depth + 1)
        return None
    for b in prog.bodies.values():
        if b.crate != 'samlang_services':
            continue
        for bi, bl in enumerate(b.blocks):
            t = bl.term
            if bl.cleanup or t[0] != 'call' or callee(t)[0] != drv.id:
                continue
            n += 1
            key = f'gc-roots:{b.name}'
            mr, mp = operand_root(b, t[3][map_idx[0] - 1])
            mkey = (mr, tuple(e[4] if e[0] == 'f' else e[1] for e in mp if e[0] in ('f', 't')))
            src = keys_source(b, t[3][list_idx[0] - 1])
            if src is not None and src == mkey:
                res.ok(key, b.loc(t[7]), 'module list = all keys of the module map handed to the GC')
            else:
                res.violation(key, b.loc(t[7]), f'{b.name} hands the GC driver a module list that is not built from `keys()` of the '
                              f'module map it also hands over: modules outside that list are never re-marked, the sweeper reclaims '
                              f'their long identifiers while they are still referenced, and later requests abort or name '
                              f'resolution silently diverges from a fresh analysis')
    # ... and the module list is queued for marking on every path through the GC: the loop calling the heap's queueing
    # operation for the elements of that list must lie on every path from the entry of the function it is in to its return
    # (a test of the heap's own state in front of it leaves modules edited during a running mark cycle unqueued).
    from ..cfg import cfg_of
    nq = 0
    for b in sorted(prog.bodies.values(), key=lambda x: x.name):
        if b.crate != 'samlang_services' or b.kind == 'closure' or '::tests' in b.name:
            continue
        qs = [bi for bi, bl in enumerate(b.blocks) if not bl.cleanup and bl.term[0] == 'call'
              and (callee(bl.term)[1] or '').endswith('Heap::add_unmarked_module_reference')]
        if not qs:
            continue
        lists = [i for i in range(1, b.nargs + 1) if b.locals[i].s.startswith('std::vec::Vec<') and 'ModuleReference' in b.locals[i].s]
        if not lists:
            continue
        nq += 1
        cfg = cfg_of(b)
        # the loop head driving the queueing: the `next()` call whose loop contains the queue call
        heads = [bi for bi, bl in enumerate(b.blocks) if not bl.cleanup and bl.term[0] == 'call'
                 and (callee(bl.term)[1] or '').split('::')[-1] == 'next'
                 and any(q in cfg.reachable(bi) and bi in cfg.reachable(q) for q in qs)]
        key = f'gc-requeue:{b.name}'
        if heads and cfg.nodes_postdominate(heads, 0) and cfg.nodes_dominate(heads, cfg.exits[0] if cfg.exits else 0):
            res.ok(key, b.loc(b.blocks[qs[0]].term[7]), 'the module list is queued for marking on every path')
        else:
            res.violation(key, b.loc(b.blocks[qs[0]].term[7]), f'{b.name} queues the module list for marking only on some paths: on the '
                          f'others (a mark cycle still in progress) a module edited since it was marked is not queued again, the '
                          f'strings its new text allocated stay unmarked, the sweep that ends the cycle reclaims them while the '
                          f'module still refers to them, and the next request printing it aborts')
    res.floor('GC driver call sites', n, 1)
    res.floor('functions queueing the module list', nq, 1)
    return [res]


# ---------------------------------------------------------------------------------------------------------------------
# STORE-PAIRING (C11): a CommentReference is an index into the comment store of the module whose syntax tree holds it.
# Wherever the services hand a (store, reference) pair to a function, the store must come from the module looked up under
# the same module key as the node the reference is read from; with the store of another module the index is out of range
# (the request aborts) or names an unrelated comment.

def run_store_pairing(prog, tier, repo):
    from ..facts import strip_refs
    res = RuleResult('STORE-PAIRING', 'C11: a comment reference is only ever resolved in the comment store of the module whose tree '
                     'holds it (store and node are looked up under the same module key)')
    n = 0

    def is_ty(t, suffix):
        t = strip_refs(t)
        return t.k == 'adt' and t.name.endswith(suffix)

    def opt_source(b, local, depth=0):
        """follow unwrap / `?` (Try::branch, Continue payload) / as_ref / copies back to the producing call"""
        if depth > 10:
            return None
        sd = single_def(b, local)
        if not sd:
            return None
        if sd[1] == 'term':
            t = sd[2]
            nm = (callee(t)[1] or '').split('::')[-1]
            if nm in ('unwrap', 'expect', 'branch', 'as_ref', 'unwrap_or_default', 'cloned', 'copied') and t[3]:
                r, _ = operand_root(b, t[3][0])
                return opt_source(b, r, depth + 1) if r is not None else None
            return t
        rv = sd[2]
        if rv[0] == 'use' and rv[1][0] in ('c', 'm'):
            r, _ = operand_root(b, rv[1])
            return opt_source(b, r, depth + 1) if r is not None and r != local else None
        return None

    def key_of(b, t):
        """the module-key operand of a lookup call: HashMap::get(map, key) or a services helper (state, key, ..)"""
        for o in t[3]:
            if o[0] in ('c', 'm') and is_ty(b.locals[o[1].local], 'ModuleReference'):
                r, p = operand_root(b, o)
                if r is None:
                    return None
                # look through `&copy` temporaries of a by-value key
                return (r, tuple(e[4] if e[0] == 'f' else e[1] for e in p if e[0] in ('f', 't')))
        return None
    for b in prog.bodies.values():
        if b.crate != 'samlang_services':
            continue
        for bi, bl in enumerate(b.blocks):
            t = bl.term
            if bl.cleanup or t[0] != 'call':
                continue
            store = ref = None
            for o in t[3]:
                if o[0] not in ('c', 'm'):
                    continue
                ty = b.locals[o[1].local]
                if is_ty(ty, '::CommentStore') and ty.k == 'ref':
                    store = o
                elif is_ty(ty, '::CommentReference'):
                    ref = o
            if store is None or ref is None:
                continue
            rs, ps = operand_root(b, store)
            rr, pr = operand_root(b, ref)
            if rs is None or rr is None:
                continue
            # only pairs where both sides come out of lookups in this body (printer-style code walks one module)
            ts = opt_source(b, rs)
            tr = opt_source(b, rr)
            if ts is None or tr is None:
                continue
            ks, kr = key_of(b, ts), key_of(b, tr)
            if ks is None or kr is None:
                continue
            n += 1
            nb = sum(1 for i in res.instances if i.key.startswith(f'pair:{b.name}#')) + 1
            key = f'pair:{b.name}#{nb}'
            if ks == kr:
                res.ok(key, b.loc(t[7]), 'store and node looked up under the same module key')
            else:
                res.violation(key, b.loc(t[7]), f'{b.name} resolves a comment reference read from a node of one module in the comment '
                              f'store of a module looked up under a different key: the index is out of range for that store (the '
                              f'request aborts) or shows an unrelated comment')
    res.floor('(store, reference) pairs built from lookups', n, 2)
    return [res]
