"""STR-SLICE (C05): byte-offset operations on text outside the lexer.

`&s[a..b]`, `s.split_at(n)`, `String::truncate/insert/remove/drain/replace_range/split_off` panic when an offset is past the
end or not on a UTF-8 character boundary. The lexer's own sites are proven by LEX-BOUNDS. Everywhere else (diagnostic
rendering, printer, services) such a site is accepted only if each offset is visibly derived from the same string
(`len`, `find`, `rfind`, `char_indices`, ... of the string or of a trimmed/sub-slice view of it) or is the constant 0;
an offset that comes from anywhere else - a source Location's column, a parameter, arithmetic - cannot be shown to be a
boundary of *this* string for every input, and totality of diagnostic rendering is lost."""
import re
from ..core import RuleResult
from ..cfg import single_def
from ..dataflow import root_local
from ..facts import callee, strip_refs

SITE = re.compile(r'(String|str)(::|>::)(truncate|split_at|split_at_mut|drain|replace_range|split_off|insert_str|insert|remove)$')
VIEWS = {'trim_end', 'trim_start', 'trim', 'as_str', 'deref', 'deref_mut', 'as_ref', 'borrow', 'as_bytes', 'trim_end_matches',
         'trim_start_matches', 'as_mut_str'}
OFFSETS = {'len', 'find', 'rfind', 'len_utf8'}


def _is_site(nm):
    if 'for str>::index' in nm or 'for std::string::String>::index' in nm:
        return 'range index'
    if nm.endswith(('::index', '::index_mut')) and nm.startswith(('<std::string::String as std::ops::Index', '<str as std::ops::Index')):
        return 'range index'
    m = SITE.search(nm)
    if m:
        return m.group(3)
    return None


def _base_root(b, op, depth=0):
    """storage root of a string operand, looking through view calls"""
    if op[0] not in ('c', 'm') or depth > 8:
        return None
    r, _ = root_local(b, op[1].local)
    sd = single_def(b, r)
    if sd and sd[1] == 'term' and not (1 <= r <= b.nargs):
        t = sd[2]
        nm = (callee(t)[1] or '').split('::')[-1]
        if nm in VIEWS and t[3]:
            return _base_root(b, t[3][0], depth + 1)
    return r


def _offset_ok(b, op, base, depth=0):
    if op[0] == 'k':
        return op[1].i == 0
    if op[0] not in ('c', 'm') or depth > 10:
        return False
    r, _ = root_local(b, op[1].local)
    sd = single_def(b, r)
    if not sd:
        return False
    if sd[1] == 'term':
        t = sd[2]
        nm = (callee(t)[1] or '').split('::')[-1]
        if nm in OFFSETS and t[3]:
            return _base_root(b, t[3][0]) == base
        if nm in ('unwrap', 'unwrap_or', 'expect', 'unwrap_or_default') and t[3]:
            return _offset_ok(b, t[3][0], base, depth + 1)
        return False
    rv = sd[2]
    if rv[0] == 'use':
        return _offset_ok(b, rv[1], base, depth + 1)
    if rv[0] == 'cast':
        return _offset_ok(b, rv[2], base, depth + 1)
    return False


def run(prog, tier, repo):
    res = RuleResult('STR-SLICE', 'C05: outside the lexer, every byte-offset slice / truncate / split of a string uses offsets '
                     'derived from that same string, so no input text makes diagnostic rendering, printing or the services panic '
                     'on a bad offset or a non-character boundary')
    n_lexer = 0
    n_sites = 0
    for b in prog.bodies.values():
        if not b.crate.startswith('samlang'):
            continue
        in_lexer = b.self_ty is not None and 'WrappedLogosLexer' in strip_refs(b.self_ty).s
        for bi, bl in enumerate(b.blocks):
            if bl.cleanup:
                continue
            t = bl.term
            if t[0] != 'call':
                continue
            nm = callee(t)[1] or ''
            kind = _is_site(nm)
            if not kind or not t[3]:
                continue
            # only string receivers (Vec::truncate etc. never match the name pattern, but be explicit)
            if in_lexer:
                n_lexer += 1
                continue
            n_sites += 1
            base = _base_root(b, t[3][0])
            offs = []
            if kind == 'range index':
                rng = t[3][1]
                sd = single_def(b, root_local(b, rng[1].local)[0]) if rng[0] in ('c', 'm') else None
                if sd and sd[1] != 'term' and sd[2][0] == 'agg':
                    offs = list(sd[2][2])
                else:
                    offs = [rng]
            else:
                offs = [o for o in t[3][1:2]]
            key = f'{b.id}:{kind}'
            bad = [o for o in offs if not _offset_ok(b, o, base)]
            if base is not None and not bad:
                res.ok(key, b.loc(t[7]), f'{kind}: offsets derived from the string itself')
            else:
                res.violation(key, b.loc(t[7]), f'{b.name}: {kind} on a string with an offset that is not derived from that string '
                              f'(len/find/... of it): for some input the offset is past the end or inside a multi-byte character and '
                              f'this panics instead of producing a result or diagnostics')
    res.analysed['sites_outside_lexer'] = n_sites
    res.analysed['lexer_sites (LEX-BOUNDS)'] = n_lexer
    res.floor('string offset sites recognised (positive control: the lexer + printer sites)', n_lexer + n_sites, 2)
    return [res]
