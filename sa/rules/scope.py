"""Scope-discipline rules over push_scope / pop_scope pairs of the stacked contexts.

SCOPE-BRACKET (C02/C01): (S1) every function leaves each stacked context at the depth it found it, on every path;
(S2) when a pass hands several explicit context objects to its recursive descent into a nested statement list, every such
descent is bracketed by the same set of contexts as its siblings (a descent that forgets one context leaks facts learnt
inside a conditionally executed region into the code after it).
SCOPE-IFLET-ELSE (C06/C15): the scope analysis visits the else-branch of an `if let` outside the pattern's scope.
"""
from ..core import RuleResult
from ..cfg import cfg_of
from ..dataflow import operand_root, field_names, call_sites
from ..facts import callee, strip_refs
from ..callgraph import body_refs


def _ctx_key(b, op, depth=0):
    """identity of a stacked context: owning local + field path; looks through Deref/DerefMut wrappers"""
    from ..cfg import single_def
    r, p = operand_root(b, op)
    if r is not None and depth < 6 and not (1 <= r <= b.nargs):
        sd = single_def(b, r)
        if sd and sd[1] == 'term' and (callee(sd[2])[1] or '').split('::')[-1] in ('deref_mut', 'deref', 'as_mut', 'borrow_mut') and sd[2][3]:
            r2, p2 = _ctx_key(b, sd[2][3][0], depth + 1)
            return (r2, tuple(p2) + field_names(p))
    return (r, field_names(p))


def scope_depths(b):
    """context key -> {block: depth at block entry} (None when paths disagree)."""
    cfg = cfg_of(b)
    ctxs = set()
    ev = {}
    for bi, bl in enumerate(b.blocks):
        if bl.cleanup:
            continue
        t = bl.term
        if t[0] == 'call' and t[3]:
            nm = (callee(t)[1] or '').split('::')[-1]
            if nm in ('push_scope', 'pop_scope'):
                k = _ctx_key(b, t[3][0])
                ctxs.add(k)
                ev[(bi, k)] = 1 if nm == 'push_scope' else -1
    out = {}
    for k in ctxs:
        depth = {0: 0}
        work = [0]
        while work:
            bi = work.pop()
            d = depth[bi]
            if d is None:
                nd = None
            else:
                nd = d + ev.get((bi, k), 0)
            for s in cfg.succ[bi]:
                if b.blocks[s].cleanup:
                    continue
                if s not in depth:
                    depth[s] = nd
                    work.append(s)
                elif depth[s] != nd and depth[s] is not None:
                    depth[s] = None
                    work.append(s)
        out[k] = depth
    return out, ev


def _recursive_partners(prog, b):
    """Functions g called by b from which b is reachable again (the recursive descent)."""
    scope = '::'.join(b.name.split('::')[:2])
    memo = {}

    def reaches(g, seen):
        if g == b.id:
            return True
        if g in seen or g not in prog.bodies or not prog.bodies[g].name.startswith(scope):
            return False
        seen.add(g)
        return any(reaches(x, seen) for x in body_refs(prog.bodies[g]))
    out = set()
    for g in body_refs(b):
        if g in prog.bodies and prog.bodies[g].name.startswith(scope) and prog.bodies[g].kind != 'closure':
            if reaches(g, set()) if g != b.id else True:
                out.add(g)
    return out


def run_bracket(prog, tier, repo):
    res = RuleResult('SCOPE-BRACKET', 'C02: an optimisation never lets facts learnt in a conditionally executed region leak '
                     'out of it - scopes of the stacked contexts are balanced, and every recursive descent is bracketed by '
                     'the same contexts as its sibling descents')
    n_fn = 0
    n_desc = 0
    for b in sorted(prog.bodies.values(), key=lambda x: x.name):
        # contexts of the optimizer hold path-dependent facts and the checker's context is the language's scoping; the
        # source->HIR lowering context only maps unique source names to temporaries, where an unbalanced scope is harmless
        if b.crate not in ('samlang_optimization', 'samlang_checker') or b.kind == 'closure':
            continue
        depths, ev = scope_depths(b)
        if not depths:
            continue
        # wrappers that only forward push/pop (e.g. fn push_scope(cx..) { a.push_scope(); b.push_scope(); }) are not bracketing
        pushes = sum(1 for v in ev.values() if v == 1)
        pops = sum(1 for v in ev.values() if v == -1)
        if pushes == 0 or pops == 0:
            continue
        n_fn += 1
        cfg = cfg_of(b)
        for k, depth in sorted(depths.items(), key=lambda x: str(x[0])):
            key = f'balanced:{b.name}:{b.var_name(k[0]) or k[0]}{"." + ".".join(k[1]) if k[1] else ""}'
            bad = [ex for ex in cfg.exits if depth.get(ex) != 0]
            if bad:
                res.violation(key, b.loc(), f'{b.name} can return with a different scope depth of this context than it was entered '
                              f'with (depth at return: {depth.get(bad[0])}): bindings of a nested region stay visible afterwards, or an '
                              f'enclosing scope is popped too early')
            else:
                res.ok(key, b.loc(), 'push_scope / pop_scope balanced on every path')
        # S2: sibling descents with explicit context parameters
        partners = _recursive_partners(prog, b)
        param_ctx = {k for k in depths if 1 <= k[0] <= b.nargs and not k[1]}
        if len(param_ctx) < 1:
            continue
        descents = []
        for bi, bl in enumerate(b.blocks):
            t = bl.term
            if bl.cleanup or t[0] != 'call' or callee(t)[0] not in partners:
                continue
            passed = {_ctx_key(b, o) for o in t[3] if o[0] in ('c', 'm')} & param_ctx
            if not passed:
                continue
            bracket = frozenset(k for k in passed if (depths[k].get(bi) or 0) >= 1)
            descents.append((bi, t, passed, bracket))
        nested = [d for d in descents if d[3]]      # descents made inside at least one pushed scope
        if len(nested) < 2:
            continue
        counts = {}
        for d in nested:
            counts[d[3]] = counts.get(d[3], 0) + 1
        ref = max(counts, key=lambda s_: (counts[s_], len(s_)))
        seen = {}
        for bi, t, passed, bracket in nested:
            n_desc += 1
            base = f'descent:{b.name}'
            seen[base] = seen.get(base, 0) + 1
            key = f'{base}#{seen[base]}'
            names = lambda ks: sorted((b.var_name(k[0]) or str(k[0])) for k in ks)
            if bracket == ref:
                res.ok(key, b.loc(t[7]), f'descent bracketed by scopes of {names(bracket)} like its siblings')
            else:
                missing = ref - bracket
                res.violation(key, b.loc(t[7]), f'{b.name}: this recursive descent into a nested statement list is bracketed by '
                              f'push_scope/pop_scope of {names(bracket)} only, while the sibling descents also bracket '
                              f'{names(missing)}: what is recorded in {names(missing)} inside the conditionally executed region '
                              f'stays visible after it, so later code is rewritten using facts that hold on one path only')
    res.floor('functions with scoped contexts', n_fn, 7)
    res.floor('nested recursive descents', n_desc, 6)
    return [res]


def run_iflet_else(prog, tier, repo):
    res = RuleResult('SCOPE-IFLET-ELSE', 'C06/C15: names bound by an `if let` pattern are visible in the then-block only - the scope '
                     'analysis visits the else-branch outside the pattern scope')
    IFELSE = 'samlang_ast::source::expr::IfElse'
    n = 0
    for b in prog.bodies.values():
        if b.crate != 'samlang_checker' or '::ssa_analysis::' not in b.name or b.kind == 'closure':
            continue
        if not any(strip_refs(b.locals[i]).k == 'adt' and strip_refs(b.locals[i]).name == IFELSE for i in range(1, b.nargs + 1)):
            continue
        depths, ev = scope_depths(b)
        if not depths:
            continue
        for bi, bl in enumerate(b.blocks):
            t = bl.term
            if bl.cleanup or t[0] != 'call':
                continue
            for o in t[3]:
                if o[0] not in ('c', 'm'):
                    continue
                r, p = operand_root(b, o)
                fs = [e for e in p if e[0] == 'f']
                if fs and fs[-1][1] == IFELSE and fs[-1][4] == 'e2':
                    n += 1
                    key = f'else-scope:{b.name}'
                    bad = [k for k, d in depths.items() if d.get(bi) != 0]
                    if bad:
                        res.violation(key, b.loc(t[7]), f'{b.name} visits the else-branch of an if-else while a scope pushed for the '
                                      f'`if let` pattern is still open: variables bound by the pattern resolve in the else-branch, '
                                      f'so a use of a variable that is never bound on that path is accepted')
                    else:
                        res.ok(key, b.loc(t[7]), 'else-branch visited at the scope depth of the whole if-else')
    res.floor('else-branch visits in the scope analysis', n, 2)
    return [res]


def run_counter_sync(prog, tier, repo):
    """COUNTER-SYNC (C02): a temp-name counter handed to the parallel passes is synchronised back into the heap on every path
    before the next counter is created or the function returns; otherwise the next round restarts at the same id and two
    different temporaries share one name."""
    res = RuleResult('COUNTER-SYNC', 'C02: optimisation rounds never reuse a temporary name - every create_temp_counter() is '
                     'paired with sync_temp_counter() of that counter on every path')
    n = 0
    for b in sorted(prog.bodies.values(), key=lambda x: x.name):
        if b.crate not in ('samlang_optimization', 'samlang_compiler'):
            continue
        creates = call_sites(b, lambda nm: nm.endswith('Heap::create_temp_counter'))
        if not creates:
            continue
        cfg = cfg_of(b)
        syncs = call_sites(b, lambda nm: nm.endswith('Heap::sync_temp_counter'))
        create_blocks = {bi for bi, _ in creates}
        for cb, ct in creates:
            n += 1
            key = f'counter:{b.name}'
            mine = [sb for sb, st in syncs if len(st[3]) > 1 and operand_root(b, st[3][1])[0] == ct[4].local]
            ends = set(cfg.exits) | create_blocks
            start = ct[5]
            reach = cfg.reachable(start, removed_nodes=mine) if start is not None else set()
            if not mine or (start not in mine and (reach & ends)):
                res.violation(key, b.loc(ct[7]), f'{b.name}: a path from create_temp_counter() reaches the next round (or the return) '
                              f'without sync_temp_counter() of that counter: the following counter starts at an id that was '
                              f'already handed out, so two live temporaries can get the same name and one overwrites the other')
            else:
                res.ok(key, b.loc(ct[7]), 'counter synchronised into the heap on every path before the next counter or return')
    res.floor('temp counters created', n, 2)
    return [res]
