"""Scope-discipline rules over push_scope / pop_scope pairs of the stacked contexts.

SCOPE-BRACKET (C02/C01): (S1) every function leaves each stacked context at the depth it found it, on every path;
(S2) when a pass hands several explicit context objects to its recursive descent into a nested statement list, every such
descent is bracketed by the same set of contexts as its siblings (a descent that forgets one context leaks facts learnt
inside a conditionally executed region into the code after it).
SCOPE-IFLET-ELSE (C06/C15): the scope analysis visits the else-branch of an `if let` outside the pattern's scope.
"""
from ..core import RuleResult
from ..cfg import cfg_of
from ..dataflow import operand_root, field_names, call_sites, root_local
from ..facts import callee, strip_refs
from ..callgraph import body_refs


def _ctx_key(b, op, depth=0):
    """identity of a stacked context: owning local + field path; looks through Deref/DerefMut wrappers"""
    from ..cfg import single_def
    r, p = operand_root(b, op)
    if r is not None and depth < 6 and not (1 <= r <= b.nargs):
        sd = single_def(b, r)
        if sd and sd[1] == 'term' and (callee(sd[2])[1] or '').split('::')[-1] in ('deref_mut', 'deref', 'as_mut', 'borrow_mut') and sd[2][3]:
            r2, p2 = _ctx_key(b, sd[2][3][0], depth + 1)
            return (r2, tuple(p2) + field_names(p))
    return (r, field_names(p))


def scope_depths(b):
    """context key -> {block: depth at block entry} (None when paths disagree)."""
    cfg = cfg_of(b)
    ctxs = set()
    ev = {}
    for bi, bl in enumerate(b.blocks):
        if bl.cleanup:
            continue
        t = bl.term
        if t[0] == 'call' and t[3]:
            nm = (callee(t)[1] or '').split('::')[-1]
            if nm in ('push_scope', 'pop_scope'):
                k = _ctx_key(b, t[3][0])
                ctxs.add(k)
                ev[(bi, k)] = 1 if nm == 'push_scope' else -1
    out = {}
    for k in ctxs:
        depth = {0: 0}
        work = [0]
        while work:
            bi = work.pop()
            d = depth[bi]
            if d is None:
                nd = None
            else:
                nd = d + ev.get((bi, k), 0)
            for s in cfg.succ[bi]:
                if b.blocks[s].cleanup:
                    continue
                if s not in depth:
                    depth[s] = nd
                    work.append(s)
                elif depth[s] != nd and depth[s] is not None:
                    depth[s] = None
                    work.append(s)
        out[k] = depth
    return out, ev


def _recursive_partners(prog, b):
    """Functions g called by b from which b is reachable again (the recursive descent)."""
    scope = '::'.join(b.name.split('::')[:2])
    memo = {}

    def reaches(g, seen):
        if g == b.id:
            return True
        if g in seen or g not in prog.bodies or not prog.bodies[g].name.startswith(scope):
            return False
        seen.add(g)
        return any(reaches(x, seen) for x in body_refs(prog.bodies[g]))
    out = set()
    for g in body_refs(b):
        if g in prog.bodies and prog.bodies[g].name.startswith(scope) and prog.bodies[g].kind != 'closure':
            if reaches(g, set()) if g != b.id else True:
                out.add(g)
    return out


def run_bracket(prog, tier, repo):
    res = RuleResult('SCOPE-BRACKET', 'C02: an optimisation never lets facts learnt in a conditionally executed region leak '
                     'out of it - scopes of the stacked contexts are balanced, and every recursive descent is bracketed by '
                     'the same contexts as its sibling descents')
    n_fn = 0
    n_desc = 0
    for b in sorted(prog.bodies.values(), key=lambda x: x.name):
        # contexts of the optimizer hold path-dependent facts and the checker's context is the language's scoping; the
        # source->HIR lowering context only maps unique source names to temporaries, where an unbalanced scope is harmless
        if b.crate not in ('samlang_optimization', 'samlang_checker') or b.kind == 'closure':
            continue
        depths, ev = scope_depths(b)
        if not depths:
            continue
        # wrappers that only forward push/pop (e.g. fn push_scope(cx..) { a.push_scope(); b.push_scope(); }) are not bracketing
        pushes = sum(1 for v in ev.values() if v == 1)
        pops = sum(1 for v in ev.values() if v == -1)
        if pushes == 0 or pops == 0:
            continue
        n_fn += 1
        cfg = cfg_of(b)
        for k, depth in sorted(depths.items(), key=lambda x: str(x[0])):
            key = f'balanced:{b.name}:{b.var_name(k[0]) or k[0]}{"." + ".".join(k[1]) if k[1] else ""}'
            bad = [ex for ex in cfg.exits if depth.get(ex) != 0]
            if bad:
                res.violation(key, b.loc(), f'{b.name} can return with a different scope depth of this context than it was entered '
                              f'with (depth at return: {depth.get(bad[0])}): bindings of a nested region stay visible afterwards, or an '
                              f'enclosing scope is popped too early')
            else:
                res.ok(key, b.loc(), 'push_scope / pop_scope balanced on every path')
        # S2: sibling descents with explicit context parameters
        partners = _recursive_partners(prog, b)
        param_ctx = {k for k in depths if 1 <= k[0] <= b.nargs and not k[1]}
        if len(param_ctx) < 1:
            continue
        descents = []
        for bi, bl in enumerate(b.blocks):
            t = bl.term
            if bl.cleanup or t[0] != 'call' or callee(t)[0] not in partners:
                continue
            passed = {_ctx_key(b, o) for o in t[3] if o[0] in ('c', 'm')} & param_ctx
            if not passed:
                continue
            bracket = frozenset(k for k in passed if (depths[k].get(bi) or 0) >= 1)
            descents.append((bi, t, passed, bracket))
        nested = [d for d in descents if d[3]]      # descents made inside at least one pushed scope
        if len(nested) < 2:
            continue
        counts = {}
        for d in nested:
            counts[d[3]] = counts.get(d[3], 0) + 1
        ref = max(counts, key=lambda s_: (counts[s_], len(s_)))
        seen = {}
        for bi, t, passed, bracket in nested:
            n_desc += 1
            base = f'descent:{b.name}'
            seen[base] = seen.get(base, 0) + 1
            key = f'{base}#{seen[base]}'
            names = lambda ks: sorted((b.var_name(k[0]) or str(k[0])) for k in ks)
            if bracket == ref:
                res.ok(key, b.loc(t[7]), f'descent bracketed by scopes of {names(bracket)} like its siblings')
            else:
                missing = ref - bracket
                res.violation(key, b.loc(t[7]), f'{b.name}: this recursive descent into a nested statement list is bracketed by '
                              f'push_scope/pop_scope of {names(bracket)} only, while the sibling descents also bracket '
                              f'{names(missing)}: what is recorded in {names(missing)} inside the conditionally executed region '
                              f'stays visible after it, so later code is rewritten using facts that hold on one path only')
    res.floor('functions with scoped contexts', n_fn, 7)
    res.floor('nested recursive descents', n_desc, 6)
    return [res]


def run_iflet_else(prog, tier, repo):
    res = RuleResult('SCOPE-IFLET-ELSE', 'C06/C15: names bound by an `if let` pattern are visible in the then-block only - the scope '
                     'analysis visits the else-branch outside the pattern scope')
    IFELSE = 'samlang_ast::source::expr::IfElse'
    n = 0
    for b in prog.bodies.values():
        if b.crate != 'samlang_checker' or '::ssa_analysis::' not in b.name or b.kind == 'closure':
            continue
        if not any(strip_refs(b.locals[i]).k == 'adt' and strip_refs(b.locals[i]).name == IFELSE for i in range(1, b.nargs + 1)):
            continue
        depths, ev = scope_depths(b)
        if not depths:
            continue
        for bi, bl in enumerate(b.blocks):
            t = bl.term
            if bl.cleanup or t[0] != 'call':
                continue
            for o in t[3]:
                if o[0] not in ('c', 'm'):
                    continue
                r, p = operand_root(b, o)
                fs = [e for e in p if e[0] == 'f']
                if fs and fs[-1][1] == IFELSE and fs[-1][4] == 'e2':
                    n += 1
                    key = f'else-scope:{b.name}'
                    bad = [k for k, d in depths.items() if d.get(bi) != 0]
                    if bad:
                        res.violation(key, b.loc(t[7]), f'{b.name} visits the else-branch of an if-else while a scope pushed for the '
                                      f'`if let` pattern is still open: variables bound by the pattern resolve in the else-branch, '
                                      f'so a use of a variable that is never bound on that path is accepted')
                    else:
                        res.ok(key, b.loc(t[7]), 'else-branch visited at the scope depth of the whole if-else')
    res.floor('else-branch visits in the scope analysis', n, 2)
    return [res]


def run_counter_sync(prog, tier, repo):
    """COUNTER-SYNC (C02): a temp-name counter handed to the parallel passes is synchronised back into the heap on every path
    before the next counter is created or the function returns; otherwise the next round restarts at the same id and two
    different temporaries share one name."""
    res = RuleResult('COUNTER-SYNC', 'C02: optimisation rounds never reuse a temporary name - every create_temp_counter() is '
                     'paired with sync_temp_counter() of that counter on every path')
    n = 0
    for b in sorted(prog.bodies.values(), key=lambda x: x.name):
        if b.crate not in ('samlang_optimization', 'samlang_compiler'):
            continue
        creates = call_sites(b, lambda nm: nm.endswith('Heap::create_temp_counter'))
        if not creates:
            continue
        cfg = cfg_of(b)
        syncs = call_sites(b, lambda nm: nm.endswith('Heap::sync_temp_counter'))
        create_blocks = {bi for bi, _ in creates}
        for cb, ct in creates:
            n += 1
            key = f'counter:{b.name}'
            mine = [sb for sb, st in syncs if len(st[3]) > 1 and operand_root(b, st[3][1])[0] == ct[4].local]
            ends = set(cfg.exits) | create_blocks
            start = ct[5]
            reach = cfg.reachable(start, removed_nodes=mine) if start is not None else set()
            if not mine or (start not in mine and (reach & ends)):
                res.violation(key, b.loc(ct[7]), f'{b.name}: a path from create_temp_counter() reaches the next round (or the return) '
                              f'without sync_temp_counter() of that counter: the following counter starts at an id that was '
                              f'already handed out, so two live temporaries can get the same name and one overwrites the other')
            else:
                res.ok(key, b.loc(ct[7]), 'counter synchronised into the heap on every path before the next counter or return')
    res.floor('temp counters created', n, 2)
    return [res]


# ---------------------------------------------------------------------------------------------------------------------
# REENTRANT-RESTORE (C03 / C06)
#
# A method that overwrites a field of its `&mut` receiver and then re-enters itself (directly, through its call family,
# through a closure it builds, or by handing the receiver to a caller-supplied closure) has made that field a dynamically
# scoped context: the nested invocation sees the override, and the code that runs after the nested invocation - in this
# invocation and in every enclosing one - must see the value from before. So on every path from the override to the
# return, the last write to the field must put back a value that was read from the field before the override.
# (wasm lowering: a `break` of the outer loop lowered after an inner loop unwraps the loop context.)

REENTRANT_EXEMPT = {
    # the field is an accumulator, not a scoped context: comments already collected are appended to what is pending and the
    # whole list is consumed by the next token
    ('samlang_parser::source_parser::expression_parser::parse_base_expression', 'pending_comments'):
        'accumulator of pending comments (the old value is appended into the new one)',
}


def _recv_field(b, pl):
    if 1 <= pl.local <= b.nargs and b.locals[pl.local].k == 'ref' and len(pl.proj) == 2 and pl.proj[0][0] == 'd' \
            and pl.proj[1][0] == 'f':
        return (pl.local, pl.proj[1][4])
    return None


def run_reentrant_restore(prog, tier, repo, crates=('samlang_compiler', 'samlang_checker')):
    from ..cfg import single_def
    res = RuleResult('REENTRANT-RESTORE', 'a receiver field overwritten before a re-entrant call is restored, on every path to '
                     'the return, from a value read out of it before the overwrite (dynamic scoping of lowering / checking '
                     'contexts such as the current loop)')
    reach = {}

    def reach_of(i):
        if i in reach:
            return reach[i]
        seen = set()
        st = [i]
        while st:
            x = st.pop()
            bb = prog.bodies.get(x)
            if not bb:
                continue
            for r in body_refs(bb):
                if r not in seen:
                    seen.add(r)
                    st.append(r)
        reach[i] = seen
        return seen
    n_inst = 0
    for b in prog.bodies.values():
        if not b.crate.startswith('samlang') or b.kind == 'closure':
            continue
        cfg = cfg_of(b)
        # events per block in statement order: ('save', field, local) ('write', field, value-operand|None, via)
        writes = []
        for bi in sorted(cfg.reach):
            bl = b.blocks[bi]
            if bl.cleanup:
                continue
            for si, st in enumerate(bl.stmts):
                if st[0] == 'a':
                    rf = _recv_field(b, st[1])
                    if rf:
                        writes.append((bi, si, rf, st[2], st[3]))
        # `let saved = mem::replace(&mut self.f, new)` / `self.f.replace(new)` / `self.f.take()`: an override whose old value is
        # the call result
        replaced = {}
        for bi in sorted(cfg.reach):
            bl = b.blocks[bi]
            t = bl.term
            if bl.cleanup or t[0] != 'call' or not t[3] or t[4] is None or t[4].proj:
                continue
            nm = callee(t)[1] or ''
            if nm.split('::')[-1] in ('replace', 'take') and ('mem::' in nm or 'Option' in nm):
                o = t[3][0]
                if o[0] in ('c', 'm') and not o[1].proj:
                    sd0 = single_def(b, o[1].local)
                    if sd0 and sd0[1] != 'term' and sd0[2][0] == 'ref':
                        rf = _recv_field(b, sd0[2][2])
                        if rf:
                            writes.append((bi, len(bl.stmts), rf, ('call',), t[7]))
                            replaced[t[4].local] = (rf, bi)
        if not writes:
            continue

        def saved_from(op, rf, wpos, depth=0):
            """is operand op (through whole-local copies) a value read from receiver field rf before position wpos?"""
            if op[0] not in ('c', 'm') or depth > 6:
                return False
            pl = op[1]
            if pl.proj:
                return False
            if pl.local in replaced and replaced[pl.local][0] == rf:
                rb = replaced[pl.local][1]
                return rb == wpos[0] or cfg.nodes_dominate([rb], wpos[0])
            sd = single_def(b, pl.local)
            if not sd:
                return False
            if sd[1] == 'term':
                t = sd[2]
                nm = (callee(t)[1] or '').split('::')[-1]
                if nm in ('clone', 'dupe') and t[3]:
                    r0 = t[3][0]
                    if r0[0] in ('c', 'm') and not r0[1].proj:
                        rd = single_def(b, r0[1].local)
                        if rd and rd[1] != 'term' and rd[2][0] == 'ref' and _recv_field(b, rd[2][2]) == rf:
                            return sd[0] != wpos[0] and cfg.nodes_dominate([sd[0]], wpos[0])
                return False
            rv = sd[2]
            if rv[0] == 'use' and rv[1][0] in ('c', 'm'):
                if _recv_field(b, rv[1][1]) == rf:
                    # the read must happen before the override
                    if sd[0] == wpos[0]:
                        return sd[1] < wpos[1]
                    return cfg.nodes_dominate([sd[0]], wpos[0])
                return saved_from(rv[1], rf, wpos, depth + 1)
            return False
        for (bi, si, rf, rv, line) in writes:
            key_sym = (b.id, rf[1])
            # is there a re-entrant transfer after this write?
            later = cfg.reachable(bi)
            reentry = None
            for bj in sorted(later):
                refs = []
                for k2, st2 in enumerate(b.blocks[bj].stmts):
                    if bj == bi and k2 <= si:
                        continue
                    if st2[0] == 'a' and st2[2][0] == 'agg' and st2[2][1][0] == 'closure':
                        refs.append((st2[2][1][1], st2[3]))
                t = b.blocks[bj].term
                if t[0] == 'call':
                    cid, cname = callee(t)
                    if cid and (cname or '').split('::')[-1] not in ('call_once', 'call_mut', 'call'):
                        refs.append((cid, t[7]))
                    elif (cname or '').split('::')[-1] in ('call_once', 'call_mut', 'call'):
                        # caller-supplied closure: re-entrant when it is handed the receiver
                        for o in t[3]:
                            r_, _p = operand_root(b, o)
                            if r_ == rf[0]:
                                refs.append((b.id, t[7]))
                        for o in t[3]:
                            if o[0] in ('c', 'm') and not o[1].proj:
                                sdd = single_def(b, o[1].local)
                                if sdd and sdd[1] != 'term' and sdd[2][0] == 'agg' and sdd[2][1][0] == 'tuple':
                                    for oo in sdd[2][2]:
                                        r_, _p = operand_root(b, oo)
                                        if r_ == rf[0]:
                                            refs.append((b.id, t[7]))
                for cid, ln in refs:
                    if cid == b.id or b.id in reach_of(cid):
                        reentry = ln
                        break
                if reentry:
                    break
            if not reentry:
                continue
            if rv[0] == 'use' and saved_from(rv[1], rf, (bi, si)):
                continue        # this write is itself a restore
            if key_sym in REENTRANT_EXEMPT:
                continue
            if b.crate not in crates:
                continue
            n_inst += 1
            key = f'{b.id}:{rf[1]}'
            # every path from the override to return passes a restoring write
            restores = set()
            same_block_restore = False
            for (bj, sj, rf2, rv2, l2) in writes:
                if rf2 != rf or (bj, sj) == (bi, si):
                    continue
                if rv2[0] == 'use' and saved_from(rv2[1], rf, (bi, si)):
                    if bj == bi and sj > si:
                        same_block_restore = True
                    elif bj != bi:
                        restores.add(bj)
            # the last write on each path must be a restore: remove non-restoring later writes' blocks from consideration by
            # checking that after each non-restoring write a restore still post-dominates
            ok = same_block_restore or cfg.nodes_postdominate(restores, bi) if restores or same_block_restore else False
            bad_after = None
            if ok:
                for (bj, sj, rf2, rv2, l2) in writes:
                    if rf2 != rf or (bj, sj) == (bi, si) or bj not in later:
                        continue
                    if rv2[0] == 'use' and saved_from(rv2[1], rf, (bi, si)):
                        continue
                    # another non-restoring write after the override: a restore must follow it as well
                    if not (cfg.nodes_postdominate(restores - {bj}, bj) or any(
                            (bk == bj and sk > sj) for (bk, sk, rf3, rv3, l3) in writes
                            if rf3 == rf and rv3[0] == 'use' and saved_from(rv3[1], rf, (bi, si)))):
                        ok = False
                        bad_after = l2
            if ok:
                res.ok(key, b.loc(line), f'{b.name}: `{rf[1]}` overridden at line {line}, re-entered at line {reentry}, restored from a '
                       f'saved copy on every path to the return')
            else:
                res.violation(key, b.loc(line), f'{b.name}: receiver field `{rf[1]}` is overwritten at line {line} and the function is '
                              f're-entered afterwards (line {reentry}), but some path to the return does not put back the value '
                              f'the field had before' + (f' (line {bad_after} writes something else last)' if bad_after else '') +
                              '; code after a nested construct then runs with the wrong (or no) context')
    res.floor('re-entrant overrides', n_inst, len([c for c in crates if c in ('samlang_compiler', 'samlang_checker')]))
    return [res]


# ---------------------------------------------------------------------------------------------------------------------
# SAVE-CALL-RESTORE (C05 / C06): the parser keeps the set of type parameters in scope in a field of the parser itself. A
# production that lets a sub-production extend the set brackets the call: it clones the field, calls, and assigns the
# clone back. If a saved copy of a field exists and a call that can modify the field is made after it, then every path from
# that call to the end of the function - or to the next trip of the enclosing loop - has to pass the restoring
# assignment; a path around it leaks the callee's additions (a method's own type parameters) into whatever is parsed next.

def run_save_call_restore(prog, tier, repo, crate='samlang_parser'):
    from ..cfg import single_def
    res = RuleResult('SAVE-CALL-RESTORE', 'a parser field that is saved before a call which can modify it is restored from the saved '
                     'copy on every path from that call to the function\'s end or the next loop trip (scoping of type parameters)')
    bodies = {i: b for i, b in prog.bodies.items() if b.crate == crate and '::tests' not in b.name}

    def field_of(b, pl):
        """(param local, field name) when the place is a field of a by-reference parameter"""
        r, path = root_local(b, pl.local)
        full = tuple(path) + tuple(e for e in pl.proj if e[0] == 'f')
        fs = [e for e in full if e[0] == 'f']
        if 1 <= r <= b.nargs and b.locals[r].k == 'ref' and fs:
            return r, fs[0][4], fs[0][1]
        return None
    MUT = ('insert', 'remove', 'extend', 'clear', 'push', 'pop', 'retain', 'append', 'drain', 'truncate', 'take')
    direct = {}    # body id -> set of (adt, field) it writes
    for i, b in bodies.items():
        w = set()
        for bl in b.blocks:
            if bl.cleanup:
                continue
            for st in bl.stmts:
                if st[0] == 'a' and st[1].proj:
                    f = field_of(b, st[1])
                    if f:
                        w.add((f[2], f[1]))
            t = bl.term
            if t[0] == 'call' and t[3] and (callee(t)[1] or '').split('::')[-1] in MUT and t[3][0][0] in ('c', 'm'):
                r, path = operand_root(b, t[3][0])
                fs = [e for e in path if e[0] == 'f']
                if r is not None and 1 <= r <= b.nargs and fs:
                    w.add((fs[0][1], fs[0][4]))
        direct[i] = w
    trans = {}

    def writes(i, seen=None):
        if i in trans:
            return trans[i]
        seen = seen if seen is not None else set()
        if i in seen or i not in bodies:
            return set()
        seen.add(i)
        w = set(direct[i])
        for r in body_refs(bodies[i]):
            w |= writes(r, seen)
        for c in prog.closures_of.get(i, []):
            w |= writes(c, seen)
        return w
    for i in bodies:
        trans[i] = writes(i)
    n = 0
    for i in sorted(bodies, key=lambda x: bodies[x].name):
        b = bodies[i]
        if b.kind == 'closure':
            continue
        # saves: local = Clone::clone(&param.F)
        saves = {}     # local -> (field key, block)
        for bi, bl in enumerate(b.blocks):
            t = bl.term
            if bl.cleanup or t[0] != 'call' or t[4] is None or not t[3] or (callee(t)[1] or '').split('::')[-1] != 'clone':
                continue
            if t[3][0][0] not in ('c', 'm'):
                continue
            f = field_of(b, t[3][0][1])
            if f and not t[4].proj:
                saves[t[4].local] = ((f[2], f[1]), bi)
        if not saves:
            continue

        def saved_origin(op, depth=0):
            if op[0] not in ('c', 'm') or depth > 4:
                return None
            r, _ = operand_root(b, op)
            if r in saves:
                return saves[r]
            sd = single_def(b, r) if r is not None else None
            if sd and sd[1] == 'term' and (callee(sd[2])[1] or '').split('::')[-1] == 'clone' and sd[2][3]:
                return saved_origin(sd[2][3][0], depth + 1)
            return None
        restores = {}   # field key -> [blocks]
        for bi, bl in enumerate(b.blocks):
            if bl.cleanup:
                continue
            for st in bl.stmts:
                if st[0] == 'a' and st[1].proj and st[2][0] == 'use':
                    f = field_of(b, st[1])
                    so = saved_origin(st[2][1])
                    if f and so and so[0] == (f[2], f[1]):
                        restores.setdefault(so[0], []).append(bi)
        cfg = cfg_of(b)
        back = cfg.back_edges()
        for fk in sorted({v[0] for v in saves.values()}):
            save_blocks = [v[1] for v in saves.values() if v[0] == fk]
            rs = restores.get(fk, [])
            if not rs:
                continue       # a copy that is never written back is not a bracket
            for bi, bl in enumerate(b.blocks):
                t = bl.term
                if bl.cleanup or t[0] != 'call':
                    continue
                cid = callee(t)[0]
                if cid not in bodies or fk not in trans.get(cid, ()):
                    continue
                if not cfg.nodes_dominate(save_blocks, bi) or bi in save_blocks:
                    continue
                n += 1
                k = sum(1 for x in res.instances if x.key.startswith(f'bracket:{b.name}:{fk[1]}#')) + 1
                key = f'bracket:{b.name}:{fk[1]}#{k}'
                free = cfg.reachable(bi, removed_nodes=[x for x in rs if x != bi])
                leak = None
                if any(x in free for x in cfg.exits):
                    leak = 'the end of the function'
                else:
                    for (u, h) in back:
                        if u in free and h in free and cfg.nodes_dominate([h], bi):
                            leak = 'the next trip of the enclosing loop'
                if leak:
                    res.violation(key, b.loc(t[7]), f'{b.name} saves `{fk[1]}`, calls {bodies[cid].name.split("::")[-1]} (which can '
                                  f'change it) and reaches {leak} on a path that does not assign the saved copy back: what the callee '
                                  f'added (the type parameters of a member) stays in scope for the code parsed afterwards')
                else:
                    res.ok(key, b.loc(t[7]), f'`{fk[1]}` is restored on every path after the call')
    res.floor('save / call / restore brackets', n, 2)
    return [res]
