"""SWEEP-WINDOW (C17): the incremental sweeper's window arithmetic.

Every call of the sweeper clears the mark bit of (or reclaims) the slots in one window [a, b) of the slot table. Between two
calls the marker may run again only for modules that changed, so a slot whose mark was cleared must not be looked at again
before the cursor has wrapped: consecutive windows have to tile the table. Necessary conditions, decided with the zone
interpreter of LEX-BOUNDS extended with variables for the integer fields and vector lengths of `*self`:
  (W1) a equals the cursor field as it was on entry;
  (W2) on every path the cursor field ends up equal to b, or equal to 0 where b equals the table length.
A window expressed in any other way than a range index on the slot table is not understood and reported (fail closed)."""
from ..core import RuleResult
from ..cfg import cfg_of, single_def
from ..dataflow import operand_root, root_local
from ..facts import callee
from ..zone import Zone
from .lex_bounds import Interp, is_int, lenlike, inner, is_range_like, _holds_disjunctively


class FieldInterp(Interp):
    """Interp + zone variables for `(*_1).<int field>` (F), its entry value (F0) and `len((*_1).<vec field>)` (LF)."""

    def __init__(self, prog, b):
        super().__init__(prog, b)
        self.self_adt = None
        t = inner(b.locals[1]) if b.nargs >= 1 else None
        if t is not None and t.k == 'adt' and t.id in prog.adts:
            self.self_adt = prog.adts[t.id]
            for f in self.self_adt.variants[0].fields:
                if is_int(f.ty):
                    self._var(('F', f.name), f.ty.s.startswith('u'))
                    self._var(('F0', f.name), f.ty.s.startswith('u'))
                elif lenlike(f.ty):
                    self._var(('LF', f.name), True)
        self.n = len(self.keys)
        self.windows = []

    def initial(self):
        z = super().initial()
        for k, i in list(self.keys.items()):
            if k[0] == 'F':
                z.assign_var(i, self.v(('F0', k[1])), 0)
        return z

    def _self_field(self, pl):
        if pl.local == 1 and len(pl.proj) == 2 and pl.proj[0][0] == 'd' and pl.proj[1][0] == 'f':
            return pl.proj[1][4]
        return None

    def ev(self, op):
        if op[0] in ('c', 'm'):
            f = self._self_field(op[1])
            if f is not None:
                i = self.v(('F', f))
                return ('var', i, 0) if i is not None else None
        return super().ev(op)

    def stmt(self, z, st):
        if st[0] == 'a':
            dst, rv = st[1], st[2]
            f = self._self_field(dst)
            if f is not None and self.v(('F', f)) is not None:
                x = self.v(('F', f))
                if rv[0] == 'use':
                    self.assign(z, x, self.ev(rv[1]))
                else:
                    self.fresh(z, x)
                return
            if not dst.proj and rv[0] == 'ref' and lenlike(self.b.locals[dst.local]):
                f2 = self._self_field(rv[2])
                if f2 is not None and self.v(('LF', f2)) is not None and self.v(('L', dst.local)) is not None:
                    z.assign_var(self.v(('L', dst.local)), self.v(('LF', f2)), 0)
                    return
        super().stmt(z, st)

    def call(self, z, bi, t, collect):
        b = self.b
        name = callee(t)[1] or ''
        short = name.split('::')[-1]
        args = t[3]
        # record the window of a range index on a vector field of self
        if short in ('index', 'index_mut') and len(args) == 2 and collect:
            r0, p0 = operand_root(b, args[0])
            fs = [e for e in p0 if e[0] == 'f']
            rr, _ = operand_root(b, args[1])
            if r0 == 1 and fs and rr is not None and is_range_like(b.locals[rr]) and self.range_kind.get(rr) == 'Range':
                self.windows.append((bi, t[7], fs[-1][4], rr))
        # a call that may write through `&mut *self` (or through a tracked vector field) forgets what is known about them
        for o in args:
            if o[0] not in ('c', 'm') or o[1].proj:
                continue
            at = b.locals[o[1].local]
            if at.k != 'ref' or at.extra != 1:
                continue
            sd = single_def(b, o[1].local)
            if not sd or sd[1] == 'term' or sd[2][0] != 'ref':
                continue
            pl = sd[2][2]
            if pl.local == 1 and len(pl.proj) == 1 and pl.proj[0][0] == 'd':
                for k, i in self.keys.items():
                    if k[0] in ('F', 'LF'):
                        self.fresh(z, i)
            f = self._self_field(pl)
            if f is not None and self.v(('LF', f)) is not None and short not in ('index_mut', 'iter_mut', 'as_mut_slice', 'get_mut'):
                self.fresh(z, self.v(('LF', f)))
        super().call(z, bi, t, collect)

    def name_of(self, idx):
        for k, v in self.keys.items():
            if v == idx and k[0] in ('F', 'F0', 'LF'):
                return {'F': 'self.', 'F0': 'entry value of self.', 'LF': 'len self.'}[k[0]] + k[1]
        return super().name_of(idx)


def run(prog, tier, repo):
    from .heap import _anchors
    res = RuleResult('SWEEP-WINDOW', 'C17: consecutive windows of the incremental sweeper tile the slot table - a window starts at '
                     'the cursor found on entry and the cursor is left at the window\'s end (or 0 at the end of the table)')
    anchors = _anchors(prog, res)
    if anchors is None:
        return [res]
    heap = anchors[0]
    # the sweeper: unique Heap method that writes `false` to a mark bit / produces reclaimed slots; reuse DEALLOC-OWNER's choice
    from .heap import run_dealloc
    sweeper = None
    for r in run_dealloc(prog, tier, repo):
        nm = r.analysed.get('sweeper')
        if nm:
            sweeper = [b for b in prog.bodies.values() if b.name == nm]
    if not sweeper:
        res.cannot_decide('the sweeper (see DEALLOC-OWNER)')
        return [res]
    b = sweeper[0]
    it = FieldInterp(prog, b)
    inn = it.run()
    # cursor = the integer field of self the sweeper writes
    written = set()
    for bl in b.blocks:
        for st in bl.stmts:
            if st[0] == 'a':
                f = it._self_field(st[1])
                if f is not None and it.v(('F', f)) is not None:
                    written.add(f)
    if len(written) != 1:
        res.cannot_decide(f'the sweep cursor: the integer field of the heap written by {b.name} (found {sorted(written)})', b.loc())
        return [res]
    cur = written.pop()
    F, F0 = it.v(('F', cur)), it.v(('F0', cur))
    wins = [w for w in it.windows]
    if len(wins) != 1:
        res.violation('window:' + b.name, b.loc(), f'{b.name}: the swept window is not a single range index `table[a..b]` on a vector '
                      f'field of the heap (found {len(wins)}): SWEEP-WINDOW cannot relate the visited slots to the cursor `{cur}`, '
                      f'so it cannot show that consecutive sweeps tile the table')
        return [res]
    bi, line, table, rl = wins[0]
    A, B, LF = it.v(('A', rl)), it.v(('B', rl)), it.v(('LF', table))

    def eq(z, i, j):
        return z.entails(i, j, 0) and z.entails(j, i, 0)
    # state just before the index call = state at entry of block bi after its statements
    def at_call(z):
        return it.block_stmts_only(bi, z) if hasattr(it, 'block_stmts_only') else z
    z_in = inn.get(bi)
    if z_in is None:
        res.cannot_decide('the window is unreachable', b.loc(line))
        return [res]

    def with_stmts(z):
        z = z.copy()
        for st in b.blocks[bi].stmts:
            it.stmt(z, st)
        return z
    w1 = _holds_disjunctively_after(it, inn, bi, with_stmts, lambda z: eq(z, A, F0))
    w2 = _holds_disjunctively_after(it, inn, bi, with_stmts, lambda z: eq(z, F, B) or (eq(z, F, 0) and eq(z, B, LF)))
    if w1:
        res.ok('window-start:' + b.name, b.loc(line), f'window starts at the value `{cur}` had on entry')
    else:
        res.violation('window-start:' + b.name, b.loc(line), f'{b.name}: cannot prove that the swept window starts at the cursor `{cur}` '
                      f'found on entry: slots between the old cursor and the window start are skipped, or slots already visited in '
                      f'this cycle are visited again after their mark was cleared (a live string is then reclaimed)')
    if w2:
        res.ok('window-end:' + b.name, b.loc(line), f'`{cur}` is left at the window end, or at 0 where the window ends at len({table})')
    else:
        res.violation('window-end:' + b.name, b.loc(line), f'{b.name}: cannot prove that the cursor `{cur}` is left at the end of the '
                      f'swept window `{table}[a..b]` (b, or 0 when b == len): the next sweep then revisits slots whose mark was just '
                      f'cleared (and reclaims live strings) or skips slots')
    res.analysed.update(sweeper=b.name, cursor=cur, table=table)
    return [res]


def _holds_disjunctively_after(it, inn, bi, post, pred, depth=0):
    """like lex_bounds._holds_disjunctively, but the predicate is evaluated after the statements of block bi"""
    z = inn.get(bi)
    if z is None or z.bottom:
        return True
    if pred(post(z)):
        return True
    b = it.b
    ok_all = True
    any_pred = False
    for p_ in it.cfg.pred[bi]:
        if p_ not in inn or b.blocks[p_].cleanup:
            continue
        any_pred = True
        out = it.block(p_, inn[p_])
        e = it.edge(p_, bi, out)
        if e.bottom or pred(post(e)):
            continue
        # look one level further up through pure join blocks
        if b.blocks[p_].term[0] in ('goto', 'false_edge', 'false_unwind', 'drop') and depth < 6:
            def post2(zz, p_=p_):
                zz = it.block(p_, zz)
                zz = it.edge(p_, bi, zz)
                return post(zz)
            if _holds_disjunctively_after(it, inn, p_, post2, pred, depth + 1):
                continue
        ok_all = False
    return any_pred and ok_all
