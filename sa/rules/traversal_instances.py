"""Frozen instance table for TRAVERSAL. Exemptions: one symbol, one reason each (established by reading)."""
from .traversal import run_instance

SRC = 'samlang_ast::source::'
E = SRC + 'expr::E'
PAT = SRC + 'pattern::MatchingPattern'
ANN = SRC + 'annotation::T'
BLOCK = SRC + 'expr::Block'
MOD = SRC + 'Module'
MS = 'samlang_ast::mir::Statement'
ME = 'samlang_ast::mir::Expression'
CALLEE = 'samlang_ast::mir::Callee'    # an invoked closure variable is a use like any operand


def scope(*mods):
    return lambda b: any(b.name.startswith(m + '::') for m in mods) or b.crate == 'samlang_ast'


def named(*names):
    s = set(names)
    return lambda b: b.name in s


def takes(mod, root):
    """Entry by role: every non-closure function of module `mod` with a parameter that is (a container of) `root`."""
    def peel(t):
        while t.k in ('ref', 'ptr', 'slice', 'arr') or (
                t.k == 'adt' and t.name.split('<')[0] in ('std::vec::Vec', 'std::option::Option', 'std::boxed::Box')
                and t.args):
            t = t.args[0]
        return t

    def pred(b):
        if not b.name.startswith(mod + '::') or b.kind == 'closure':
            return False
        return any(peel(b.locals[i]).k == 'adt' and peel(b.locals[i]).name == root for i in range(1, b.nargs + 1))
    return pred


SELECTOR = 'member selectors are resolved by the type checker against the receiver type, not by lexical scoping'
PRE_TAILREC = 'this pass runs before the tail-recursion rewrite creates loops; the arm is an explicit panic'

INSTANCES = {}


def _add(**cfg):
    INSTANCES[cfg['id']] = cfg


_add(id='T-gc', clause='C11: the GC marker reads every string-handle-bearing field of a checked module',
     entry=takes('samlang_services::gc', MOD), entry_desc='function of services::gc taking &Module',
     roots=[MOD], targets=['samlang_heap::PStr'], scope=scope('samlang_services::gc'),
     what='GC mark', consequence='strings stored there are never marked, so the sweeper reclaims them while still '
     'referenced and a later request that prints them aborts',
     floor_required=130, floor_family=25,
     exempt={(SRC + 'OptionallyAnnotatedId', 'OptionallyAnnotatedId', 'type_'):
             'inferred lambda-parameter types only mention class names and type parameters, each an interned handle that is '
             'marked at its declaration (class name / type-parameter list) or at the explicit annotation next to it',
             (SRC + 'expr::Lambda', 'Lambda', 'captured'):
             'keys are the names of enclosing bindings; the same interned handle is marked at the binding site '
             '(pattern id, lambda parameter, member parameter)'})

_add(id='T-dce', clause='C02: dead-code elimination counts every operand of every statement as a use',
     entry=takes('samlang_optimization::dead_code_elimination', MS), entry_desc='DCE functions taking mir::Statement',
     roots=[MS], targets=[ME, CALLEE], scope=scope('samlang_optimization::dead_code_elimination'),
     what='dead-code-elimination', consequence='an operand there is not counted as a use and its definition is deleted',
     floor_required=24, floor_family=8, exempt={})

for _mod, _fl in [('samlang_optimization::conditional_constant_propagation', 25),
                  ('samlang_optimization::inlining', 20),
                  ('samlang_optimization::local_value_numbering', 8),
                  ('samlang_optimization::scalar_replacement', 8),
                  ('samlang_optimization::unused_name_elimination', 3),
                  ('samlang_optimization::loop_induction_variable_elimination', 10)]:
    _add(id='T-' + _mod.split('::')[-1], clause='C02: the pass visits every operand field of every mid-level statement',
         entry=takes(_mod, MS), entry_desc=f'functions of {_mod} taking mir::Statement',
         roots=[MS], targets=[ME, CALLEE], scope=scope(_mod), what=_mod.split('::')[-1],
         consequence='operands there are never rewritten / analysed by this pass, so the pass output refers to stale or '
         'unsubstituted values', floor_required=24, floor_family=_fl, exempt={})

for _mod, _fl in [('samlang_compiler::lir_lowering', 15),
                  ('samlang_compiler::mir_constant_param_elimination', 12)]:
    _add(id='T-' + _mod.split('::')[-1], clause='C01: the lowering pass visits every operand field of every mid-level statement',
         entry=takes(_mod, MS), entry_desc=f'functions of {_mod} taking mir::Statement',
         roots=[MS], targets=[ME, CALLEE], scope=scope(_mod), what=_mod.split('::')[-1],
         consequence='operands there are dropped or left unrewritten in the emitted program',
         floor_required=24, floor_family=_fl, exempt={})

_add(id='T-mir_type_deduplication', clause='C01: type deduplication rewrites every operand field of every statement',
     entry=takes('samlang_compiler::mir_type_deduplication', MS), entry_desc='type dedup functions taking mir::Statement',
     roots=[MS], targets=[ME, CALLEE], scope=scope('samlang_compiler::mir_type_deduplication'),
     what='type-deduplication', consequence='operands there keep a type id that was merged away',
     floor_required=24, floor_family=6,
     exempt={('samlang_ast::mir::GenenalLoopVariable', 'GenenalLoopVariable', 'initial_value'): PRE_TAILREC,
             ('samlang_ast::mir::GenenalLoopVariable', 'GenenalLoopVariable', 'loop_value'): PRE_TAILREC,
             ('samlang_ast::mir::Statement', 'Break', '0'): PRE_TAILREC,
             ('samlang_ast::mir::Statement', 'SingleIf', 'condition'): PRE_TAILREC,
             ('samlang_ast::mir::Statement', 'SingleIf', 'statements'): PRE_TAILREC,
             ('samlang_ast::mir::Statement', 'While', 'loop_variables'): PRE_TAILREC,
             ('samlang_ast::mir::Statement', 'While', 'statements'): PRE_TAILREC})

_add(id='T-mir_generics_specialization', clause='C01: generics specialisation rewrites every operand field of every HIR statement',
     entry=takes('samlang_compiler::mir_generics_specialization', 'samlang_ast::hir::Statement'),
     entry_desc='specialisation functions taking hir::Statement',
     roots=['samlang_ast::hir::Statement'], targets=['samlang_ast::hir::Expression'],
     scope=scope('samlang_compiler::mir_generics_specialization'), what='generics-specialisation',
     consequence='operands there are dropped from the specialised program', floor_required=17, floor_family=25, exempt={})

_add(id='T-wasm', clause='C01: the WebAssembly lowering visits every operand field of every LIR statement',
     entry=takes('samlang_compiler::wasm_lowering', 'samlang_ast::lir::Statement'),
     entry_desc='wasm lowering functions taking lir::Statement',
     roots=['samlang_ast::lir::Statement'], targets=['samlang_ast::lir::Expression'],
     scope=scope('samlang_compiler::wasm_lowering'), what='wasm-lowering',
     consequence='operands there never reach the emitted module', floor_required=21, floor_family=25, exempt={})

_add(id='T-lune', clause='C01: LIR unused-name elimination counts every operand of every LIR statement',
     entry=takes('samlang_compiler::lir_unused_name_elimination', 'samlang_ast::lir::Statement'),
     entry_desc='LIR unused-name functions taking lir::Statement',
     roots=['samlang_ast::lir::Statement'], targets=['samlang_ast::lir::Expression'],
     scope=scope('samlang_compiler::lir_unused_name_elimination'), what='LIR unused-name-elimination',
     consequence='a function or global referenced only there is deleted although still used',
     floor_required=21, floor_family=4, exempt={})

_add(id='T-hir', clause='C01: source->HIR lowering visits every sub-expression, block, pattern and literal',
     entry=takes('samlang_compiler::hir_lowering', E), entry_desc='hir_lowering functions taking expr::E',
     roots=[E], targets=[E, PAT, BLOCK, SRC + 'Literal'], scope=scope('samlang_compiler::hir_lowering'),
     what='HIR lowering', consequence='the sub-term there is never lowered, so its effects and value vanish from the program',
     floor_required=44, floor_family=40, exempt={})

_add(id='T-chk', clause='C06: the type checker visits every sub-expression, block, pattern and annotation',
     entry=named('samlang_checker::main_checker::type_check_module'), entry_desc='main_checker::type_check_module',
     roots=[MOD], targets=[E, PAT, BLOCK, ANN], scope=scope('samlang_checker::main_checker'),
     what='type checker', consequence='a sub-term there is never checked, so an ill-typed operand in it cannot be rejected',
     floor_required=78, floor_family=60, exempt={})

_add(id='T-ssa', clause='C06/C15: the scope (SSA) analysis visits every identifier-bearing child',
     entry=takes('samlang_checker::ssa_analysis', MOD), entry_desc='ssa_analysis functions taking &Module',
     roots=[MOD], targets=[E, PAT, ANN, SRC + 'Id'], scope=scope('samlang_checker::ssa_analysis'),
     what='scope analysis', consequence='names there are never resolved: unbound variables go unreported and '
     'definition/reference queries miss them',
     floor_required=95, floor_family=30,
     exempt={(SRC + 'expr::E', 'ClassId', '2'): SELECTOR + ' (class ids are validated by the checker against the global signature)',
             (SRC + 'expr::FieldAccess', 'FieldAccess', 'field_name'): SELECTOR,
             (SRC + 'expr::MethodAccess', 'MethodAccess', 'method_name'): SELECTOR,
             (SRC + 'pattern::ObjectPatternElement', 'ObjectPatternElement', 'field_name'): SELECTOR,
             (SRC + 'pattern::VariantPattern', 'VariantPattern', 'tag'): SELECTOR})

_add(id='T-ren', clause='C15: rename rewrites every expression- and pattern-bearing child',
     entry=takes('samlang_services::variable_definition', MOD), entry_desc='variable_definition functions taking &Module',
     roots=[MOD], targets=[E, PAT], scope=scope('samlang_services::variable_definition'),
     what='rename', consequence='occurrences of the renamed variable there keep the old name',
     floor_required=48, floor_family=40, exempt={})

_add(id='T-prt', clause='C08: the printer visits every expression, pattern, annotation, identifier and literal',
     entry=takes('samlang_printer::source_printer', MOD), entry_desc='source_printer functions taking &Module',
     roots=[MOD], targets=[E, PAT, ANN, SRC + 'Id', SRC + 'Literal'], scope=scope('samlang_printer'),
     what='pretty-printer', consequence='the syntax stored there is missing from the formatted output',
     floor_required=95, floor_family=60, exempt={})

_add(id='T-prc', clause='C09: the printer reads every comment slot of the syntax tree',
     entry=takes('samlang_printer::source_printer', MOD), entry_desc='source_printer functions taking &Module',
     roots=[MOD], targets=[SRC + 'CommentReference'], scope=scope('samlang_printer'),
     what='pretty-printer', consequence='comments the parser attached there are silently dropped by formatting',
     floor_required=140, floor_family=60, exempt={})


# ---- per-function exemptions (function, slot) -> reason ----
INSTANCES['T-scalar_replacement']['dispatch_exempt'] = {
    ('samlang_optimization::scalar_replacement::EscapeAnalysis::visit_statement',
     ('samlang_ast::mir::Statement', 'IndexedAccess', 'pointer_expression')):
        'escape analysis: loading a field through the pointer does not make the allocation escape, so the arm is a no-op'}
INSTANCES['T-inlining']['sibling_exempt'] = {
    ('samlang_optimization::inlining::estimator::estimate_stmt_inline_cost',
     ('samlang_ast::mir::Statement', 'IfElse', 'condition')):
        'cost estimator: a condition operand is a leaf expression with no cost of its own'}
INSTANCES['T-chk']['sibling_exempt'] = {
    ('samlang_checker::main_checker::if_else_should_be_checked_without_hint',
     ('samlang_ast::source::expr::IfElse', 'IfElse', 'condition')):
        'hint heuristic: only the branches decide whether the if-else needs a contextual hint'}
INSTANCES['T-ssa']['sibling_exempt'] = {
    ("samlang_checker::ssa_analysis::SsaAnalysisState::<'a>::visit_member_declaration",
     ('samlang_ast::source::ClassMemberDeclaration', 'ClassMemberDeclaration', 'name')):
        'member names are not lexical bindings; they are resolved through the global signature'}
_IFACE = 'interfaces carry no type definition (always None; only classes print one, in class_to_doc)'
INSTANCES['T-prt']['sibling_exempt'] = {
    ('samlang_printer::source_printer::interface_to_doc',
     ('samlang_ast::source::InterfaceDeclarationCommon', 'InterfaceDeclarationCommon', 'type_definition')): _IFACE}
_CHAIN = ('inner nodes of a dotted call chain: the parser builds them with an empty comment reference '
          '(create_comment_reference(Vec::new())), leading comments live on the chain base')
INSTANCES['T-prc']['sibling_exempt'] = {
    ('samlang_printer::source_printer::interface_to_doc',
     ('samlang_ast::source::InterfaceDeclarationCommon', 'InterfaceDeclarationCommon', 'type_definition')): _IFACE,
    ('samlang_printer::source_printer::create_chainable_ir_docs', ('samlang_ast::source::expr::Call', 'Call', 'common')): _CHAIN,
    ('samlang_printer::source_printer::create_chainable_ir_docs', ('samlang_ast::source::expr::FieldAccess', 'FieldAccess', 'common')): _CHAIN,
    ('samlang_printer::source_printer::create_chainable_ir_docs', ('samlang_ast::source::expr::MethodAccess', 'MethodAccess', 'common')): _CHAIN}

# PEEK-THEN-VISIT exemptions: (function, slot) -> reason
PEEK_EXEMPT = {
    'T-inlining': {('samlang_optimization::inlining::perform_inline_rewrite_on_function_stmt', 'callee'):
                   'this function replaces calls of inlinable functions and recurses into nested statement lists; every other '
                   'statement (and so every other callee) is kept verbatim by design - `_ => vec![stmt]`'}}
# instances whose family has no visitor for a child type, or where peeking is about comments only
PEEK_SKIP = {'T-prc', 'T-gc'}

STATEMENT_WALKERS = {k for k, c in INSTANCES.items() if c['roots'][0].endswith('::Statement')}


def make(ids):
    from .traversal import run_dispatch, run_sibling

    def runner(prog, tier, repo):
        out = []
        for i in ids:
            out.append(run_instance(prog, INSTANCES[i]))
            if i in STATEMENT_WALKERS:
                out.append(run_dispatch(prog, INSTANCES[i]))
            out.append(run_sibling(prog, INSTANCES[i]))
            if i not in PEEK_SKIP:
                from .delegate import run_instance as run_peek
                out.append(run_peek(prog, INSTANCES[i], PEEK_EXEMPT.get(i)))
        return out
    return runner
