"""COMMENT-LINEAR (C09): a linear-resource typestate analysis over mir_built of samlang-parser.

Comments are carried by value: consume()/assert_and_consume_* return the pending Vec<Comment>, which must end
up in CommentStore::create_comment_reference, whose result must end up in a field of the returned AST node.
Tracked places: locals / tuple fields of type Vec<Comment>; typestate Moved < Empty < MaybeNonEmpty (join = max).
 L1  non-cleanup Drop (or mem::drop) of a place that may be MaybeNonEmpty
 L2  a create_comment_reference(..) result that is never used
 L3  non-cleanup Drop of a whole, never-moved-from AST node that carries comment references
Each is allowed only when dominated or post-dominated by an error report in the same body.
"""
from ..core import RuleResult
from ..cfg import cfg_of, single_def, def_sites, reach_known_variants
from ..dataflow import root_local
from ..facts import callee, strip_refs
from ..callgraph import iter_operands_rvalue
from ..typewalk import Walk

COMMENT = 'samlang_ast::source::Comment'
CREF = 'samlang_ast::source::CommentReference'
M, E, N = 0, 1, 2
NAMES = {M: 'moved', E: 'empty', N: 'maybe-non-empty'}
# the parser's own buffer of comments that were lexed but not yet attached (a Vec<Comment> field reached through the `&mut`
# parser parameter); tracked as one pseudo slot
PENDING = (-1, ('pending',))


def is_pending_place(pl):
    """`(*parser).<field>` where the field is the parser's Vec<Comment> buffer"""
    if len(pl.proj) == 2 and pl.proj[0][0] == 'd' and pl.proj[1][0] == 'f':
        e = pl.proj[1]
        return e[1].endswith('SourceParser') and e[4] == 'pending_comments'
    return False


def is_comvec(t):
    return t.k == 'adt' and t.name.startswith('std::vec::Vec') and t.args and t.args[0].k == 'adt' and t.args[0].name == COMMENT


def tracked_slots(t):
    """[()] if t is Vec<Comment>; [(i,)] for tuple fields that are; [] otherwise."""
    if is_comvec(t):
        return [()]
    if t.k == 'tup':
        return [(i,) for i, a in enumerate(t.args) if is_comvec(a)]
    return []


def slot_of_place(b, pl):
    """(local, slotpath) if the place denotes a tracked Vec<Comment> storage, else None."""
    t = b.locals[pl.local]
    if not pl.proj:
        if is_comvec(t):
            return (pl.local, ())
        return None
    if len(pl.proj) == 1 and pl.proj[0][0] == 't' and t.k == 'tup':
        i = pl.proj[0][1]
        if i < len(t.args) and is_comvec(t.args[i]):
            return (pl.local, (i,))
    return None


class Analysis:
    def __init__(self, prog, b, reporters, node_adts=frozenset()):
        self.prog, self.b = prog, b
        self.cfg = cfg_of(b)
        self.reporters = reporters
        self.slots = []
        self.node_locals = set()
        for l, t in enumerate(b.locals):
            for s in tracked_slots(t):
                self.slots.append((l, s))
            if t.k == 'adt' and t.id in node_adts and l > b.nargs:
                self.slots.append((l, 'node'))
                self.node_locals.add(l)
        self.slots.append(PENDING)
        self.slotset = set(self.slots)
        self.origin = {PENDING: {"the parser's pending comments"}}

    def ref_target(self, op):
        """For an operand that is a reference to a tracked slot, the slot."""
        if op[0] not in ('c', 'm'):
            return None
        pl = op[1]
        if pl.proj:
            return None
        cur = pl.local
        for _ in range(6):
            sd = single_def(self.b, cur)
            if sd is None or sd[1] == 'term':
                return None
            rv = sd[2]
            if rv[0] == 'ref':
                tgt = rv[2]
                if tgt.proj and tgt.proj[0][0] == 'd' and len(tgt.proj) == 1:
                    cur = tgt.local      # reborrow &mut *r
                    continue
                if is_pending_place(tgt):
                    return PENDING
                return slot_of_place(self.b, tgt)
            if rv[0] == 'use' and rv[1][0] in ('c', 'm') and not rv[1][1].proj:
                cur = rv[1][1].local
                continue
            return None
        return None

    def initial(self):
        st = {PENDING: N}
        for (l, s) in self.slots:
            if (l, s) == PENDING:
                continue
            st[(l, s)] = N if 1 <= l <= self.b.nargs else M
            if 1 <= l <= self.b.nargs:
                self.origin[(l, s)] = {f'parameter {self.b.var_name(l) or l}'}
        return st

    def move_out(self, st, op):
        """An operand `move place`: returns the typestate moved out (or None if untracked) and marks the source."""
        if op[0] in ('c', 'm') and op[1].local in self.node_locals:
            # whole move, or a field moved / copied out (destructuring): the node is accounted for
            if op[0] == 'm' or op[1].proj:
                st[(op[1].local, 'node')] = M
            return None
        if op[0] != 'm':
            return None
        pl = op[1]
        sl = slot_of_place(self.b, pl)
        if sl is not None and sl in st:
            v = st[sl]
            st[sl] = M
            return v, sl
        # whole tuple moved
        t = self.b.locals[pl.local]
        if not pl.proj and t.k == 'tup':
            worst = None
            for s in tracked_slots(t):
                k = (pl.local, s)
                if k in st:
                    worst = st[k] if worst is None else max(worst, st[k])
            if worst is not None:
                vals = {s: st[(pl.local, s)] for s in tracked_slots(t)}
                for s in tracked_slots(t):
                    st[(pl.local, s)] = M
                return ('tuple', vals), (pl.local, None)
        return None

    def transfer(self, bi, st):
        b = self.b
        bl = b.blocks[bi]
        events = []
        for st_ in bl.stmts:
            if st_[0] != 'a':
                continue
            dst, rv = st_[1], st_[2]
            dsl = PENDING if is_pending_place(dst) else slot_of_place(b, dst)
            if rv[0] not in ('use', 'agg'):
                for o in iter_operands_rvalue(rv):
                    if o[0] in ('c', 'm') and o[1].local in self.node_locals:
                        self.move_out(st, o)
            if rv[0] == 'use':
                mo = self.move_out(st, rv[1])
                if mo is not None:
                    val, src = mo
                    if isinstance(val, tuple) and val[0] == 'tuple':
                        if not dst.proj and b.locals[dst.local].k == 'tup':
                            for s, v in val[1].items():
                                st[(dst.local, s)] = v
                                self.origin.setdefault((dst.local, s), set()).update(self.origin.get((src[0], s), set()))
                    elif dsl is not None:
                        st[dsl] = val
                        self.origin.setdefault(dsl, set()).update(self.origin.get(src, set()))
                    # moved into an untracked destination (e.g. _0 or a struct field): consumed
            elif rv[0] == 'agg':
                ak = rv[1]
                for idx, o in enumerate(rv[2]):
                    mo = self.move_out(st, o)
                    if mo is None:
                        continue
                    val, src = mo
                    if ak[0] == 'tuple' and not dst.proj and (dst.local, (idx,)) in self.slotset and not isinstance(val, tuple):
                        st[(dst.local, (idx,))] = val
                        self.origin.setdefault((dst.local, (idx,)), set()).update(self.origin.get(src, set()))
            elif dsl is not None and rv[0] not in ('ref',):
                st[dsl] = N
        t = bl.term
        if t[0] == 'call':
            name = callee(t)[1] or ''
            short = name.split('::')[-1]
            args = t[3]
            # by-value arguments are consumed
            moved_vals = []
            for o in args:
                mo = self.move_out(st, o)
                if mo is not None:
                    moved_vals.append(mo)
            if name in ('std::mem::drop', 'core::mem::drop') or name.endswith('mem::drop'):
                for val, src in moved_vals:
                    worst = max(val[1].values()) if isinstance(val, tuple) else val
                    if worst == N:
                        events.append(('L1', src, t[7], 'explicit drop(..)'))
            # by-reference effects
            refs = [self.ref_target(o) for o in args]
            if name.endswith('Vec::<T, A>::append') and len(args) == 2:
                a, c = refs[0], refs[1]
                if c is not None and c in st:
                    if a is not None and a in st:
                        st[a] = max(st[a], st[c]) if st[c] == N else max(st[a], E) if st[a] != N else N
                        if st[a] == M:
                            st[a] = E
                        self.origin.setdefault(a, set()).update(self.origin.get(c, set()))
                    st[c] = E
            elif name.endswith('mem::take') and refs and refs[0] is not None and refs[0] in st:
                old = st[refs[0]]
                st[refs[0]] = E
                dsl = slot_of_place(b, t[4])
                if dsl is not None:
                    st[dsl] = old
                    self.origin.setdefault(dsl, set()).update(self.origin.get(refs[0], set()))
            elif name.endswith(('Vec::<T, A>::extend', 'Vec::<T, A>::push', 'Vec::<T, A>::insert', 'Vec::<T, A>::extend_from_slice')) \
                    and refs and refs[0] is not None and refs[0] in st:
                st[refs[0]] = N
            elif name.endswith(('Vec::<T, A>::clear', 'Vec::<T, A>::truncate')):
                pass
            else:
                # unknown callee receiving &mut Vec<Comment>: may fill it
                for i, r in enumerate(refs):
                    if r is not None and r in st and args[i][0] in ('c', 'm'):
                        lt = b.locals[args[i][1].local]
                        if lt.k == 'ref' and lt.extra == 1 and not name.endswith(('::len', '::is_empty', '::iter', '::deref')):
                            st[r] = N
            # any other call that is handed the parser may lex further and refill its pending buffer
            if not name.endswith(('Vec::<T, A>::append', 'mem::take', 'Vec::<T, A>::is_empty', 'Vec::<T, A>::len')):
                for o in args:
                    if o[0] in ('c', 'm') and not o[1].proj:
                        lt = b.locals[o[1].local]
                        if lt.k == 'ref' and lt.extra == 1 and lt.args and lt.args[0].k == 'adt' and lt.args[0].name.endswith('SourceParser'):
                            st[PENDING] = N
            # result
            dst = t[4]
            if not dst.proj and dst.local in self.node_locals:
                st[(dst.local, 'node')] = N
                self.origin[(dst.local, 'node')] = {short}
            if not dst.proj:
                for s in tracked_slots(b.locals[dst.local]):
                    k = (dst.local, s)
                    if name.endswith(('Vec::<T>::new', 'Vec::<T>::with_capacity', 'Default::default')):
                        st[k] = E
                    elif name.endswith('mem::take'):
                        pass
                    else:
                        st[k] = N
                    if not name.endswith('mem::take'):
                        self.origin[k] = {short}
        elif t[0] == 'drop':
            pl = t[1]
            if not pl.proj and pl.local in self.node_locals:
                if st.get((pl.local, 'node')) == N:
                    events.append(('L3', (pl.local, 'node'), t[5], 'scope-end drop'))
                st[(pl.local, 'node')] = M
            if not pl.proj:
                for s in tracked_slots(b.locals[pl.local]):
                    k = (pl.local, s)
                    if st.get(k) == N:
                        events.append(('L1', k, t[5], 'scope-end drop'))
                    if k in st:
                        st[k] = M
            elif is_pending_place(pl):
                if st.get(PENDING) == N:
                    events.append(('L4', PENDING, t[5], 'overwritten'))
                st[PENDING] = M
            else:
                sl = slot_of_place(b, pl)
                if sl is not None and st.get(sl) == N:
                    events.append(('L1', sl, t[5], 'scope-end drop'))
                    st[sl] = M
        return events

    def refine(self, bi, succ, st):
        """Branch refinement on `v.is_empty()`: on the true edge v is Empty."""
        b = self.b
        t = b.blocks[bi].term
        if t[0] != 'switch' or t[1][0] not in ('c', 'm'):
            return st
        r, _ = root_local(b, t[1][1].local)
        sd = single_def(b, r)
        neg = False
        if sd and sd[1] != 'term' and sd[2][0] == 'un' and sd[2][1] == 'Not' and sd[2][2][0] in ('c', 'm'):
            neg = True
            r, _ = root_local(b, sd[2][2][1].local)
            sd = single_def(b, r)
        if not (sd and sd[1] == 'term'):
            return st
        ct = sd[2]
        if not (callee(ct)[1] or '').endswith('Vec::<T, A>::is_empty') or not ct[3]:
            return st
        tgt = self.ref_target(ct[3][0])
        if tgt is None or tgt not in st:
            return st
        zero = {tg for v, tg in t[2] if v == 0}
        is_true_edge = succ not in zero
        if is_true_edge != neg and st[tgt] == N:
            st = dict(st)
            st[tgt] = E
        return st

    def run(self):
        cfg = self.cfg
        inn = {0: self.initial()}
        work = [0]
        events = {}
        it = 0
        while work and it < 20000:
            it += 1
            bi = work.pop()
            st = dict(inn[bi])
            ev = self.transfer(bi, st)
            events[bi] = ev
            for s in cfg.succ[bi]:
                if self.b.blocks[s].cleanup:
                    continue
                out = self.refine(bi, s, st)
                old = inn.get(s)
                if old is None:
                    inn[s] = dict(out)
                    work.append(s)
                else:
                    ch = False
                    for k, v in out.items():
                        if v > old.get(k, M):
                            old[k] = v
                            ch = True
                    if ch:
                        work.append(s)
        # final pass over converged in-states
        final = []
        for bi in sorted(inn):
            st = dict(inn[bi])
            for e in self.transfer(bi, st):
                final.append((bi,) + e)
        return final


def run(prog, tier, repo):
    res = RuleResult('COMMENT-LINEAR', 'C09: every comment of a syntactically valid file is kept - the parser never drops a '
                     'possibly non-empty comment vector, a created comment reference, or a comment-carrying node on a '
                     'path that reports no syntax error')
    bodies = [b for b in prog.bodies.values() if b.crate == 'samlang_parser' and '::source_parser::' in b.name]
    if not bodies:
        res.cannot_decide('parser bodies')
        return [res]
    is_report = lambda n: n.endswith(('SourceParser::<\'a>::report', 'ErrorSet::report_invalid_syntax_error')) or \
        ('::report' in n and 'ErrorSet' in n)
    n_tracked = 0
    n_drops = 0
    n_refs = 0
    # structs that hold comment references directly (the nodes whose own comments are lost when dropped)
    node_adts = frozenset(a.id for a in prog.adts.values() if a.crate == 'samlang_ast' and a.kind == 'struct' and
                          any(f.ty.k == 'adt' and f.ty.name == CREF for f in a.variants[0].fields))
    for b in sorted(bodies, key=lambda x: x.name):
        cfg = cfg_of(b)
        report_blocks = [bi for bi, bl in enumerate(b.blocks) if not bl.cleanup and bl.term[0] == 'call'
                         and is_report(callee(bl.term)[1] or '')]

        def on_error_path(bi):
            return bool(report_blocks) and (cfg.nodes_dominate(report_blocks, bi) or
                                            (cfg.exits and cfg.nodes_postdominate(report_blocks, bi)))
        an = Analysis(prog, b, report_blocks, node_adts)
        if an.slots:
            n_tracked += len([x for x in an.slots if x[1] != 'node'])
            seen = {}
            for bi, kind, slot, line, how in an.run():
                n_drops += 1
                var = b.var_name(slot[0]) if slot[0] >= 0 else 'pending_comments'
                org = sorted(an.origin.get(slot if slot[1] is not None else (slot[0], (1,)), set()) or
                             an.origin.get((slot[0], ()), set()))
                label = var or ('result of ' + '/'.join(org) if org else f'temporary')
                base = f'{kind}:{b.name}:{label}'
                seen[base] = seen.get(base, 0) + 1
                key = base if seen[base] == 1 else f'{base}#{seen[base]}'
                if on_error_path(bi):
                    res.ok(key, b.loc(line), 'dropped on a path that reports a syntax error')
                elif kind == 'L4':
                    res.violation(key, b.loc(line), f'{b.name}: the parser\'s pending comment buffer is overwritten while it may '
                                  f'still hold comments (they were lexed by a look-ahead and not yet attached to any token), on a '
                                  f'path without an error report: those comments are lost by formatting')
                elif kind == 'L3':
                    res.violation(key, b.loc(line), f'{b.name}: the {b.locals[slot[0]].name.split("::")[-1]} node `{label}` returned by '
                                  f'a production is dropped whole on a path that neither moves it into the result nor reads its '
                                  f'fields: the comment references it holds (comments after `(` / before `)`) are lost')
                else:
                    res.violation(key, b.loc(line), f'{b.name}: the comment vector `{label}` ({how}) may be non-empty here and is '
                                  f'neither stored in a comment reference nor handed on, on a path without an error report: '
                                  f'comments written at that position are lost by formatting')
        # L2: unused comment references
        for bi, bl in enumerate(b.blocks):
            if bl.cleanup:
                continue
            t = bl.term
            if t[0] == 'call' and (callee(t)[1] or '').endswith('CommentStore::create_comment_reference'):
                n_refs += 1
                d = t[4].local
                used = False
                for bl2 in b.blocks:
                    for st in bl2.stmts:
                        if st[0] == 'a':
                            for o in iter_operands_rvalue(st[2]):
                                if o[0] in ('c', 'm') and o[1].local == d:
                                    used = True
                            if st[2][0] == 'ref' and st[2][2].local == d:
                                used = True
                    tt = bl2.term
                    if tt[0] == 'call' and any(o[0] in ('c', 'm') and o[1].local == d for o in tt[3]):
                        used = True
                if d == 0:
                    used = True
                key = f'L2:{b.name}'
                # argument provably empty?
                arg_empty = False
                a0 = t[3][1] if len(t[3]) > 1 else None
                if a0 is not None and a0[0] in ('c', 'm'):
                    sd = single_def(b, a0[1].local)
                    if sd and sd[1] == 'term' and (callee(sd[2])[1] or '').endswith(('Vec::<T>::new', 'Vec::<T>::with_capacity')):
                        arg_empty = True
                if used or arg_empty or on_error_path(bi):
                    res.ok(key, b.loc(t[7]), 'comment reference is stored')
                else:
                    res.violation(key, b.loc(t[7]), f'{b.name} creates a comment reference and discards it: the comments it holds '
                                  f'are unreachable from the syntax tree and are not printed')
    res.floor('tracked comment-vector places', n_tracked, 100)
    res.floor('comment references created', n_refs, 60)
    res.analysed['drop_events_of_maybe_non_empty_vectors'] = n_drops
    return [res]


# ---------------------------------------------------------------------------------------------------------------------
# FRESH-REFERENCE (C09): comment references are unique owners of their store entry.
#
# The parser rewrites entries in place through CommentStore::get_mut (taking the comments of an unwrapped parenthesis,
# prepending comments collected before a comma). That is only sound if no two holders share an entry, i.e. if every
# non-constant CommentReference is the index of an entry pushed for it: the index operand is the store's `len()` read
# before a `push` on the same store, and the push dominates the construction.

def run_fresh_reference(prog, tier, repo):
    from ..cfg import cfg_of, single_def
    from ..dataflow import operand_root, root_local
    from ..facts import callee
    res = RuleResult('FRESH-REFERENCE', 'C09: every comment reference handed out by the comment store names an entry pushed for it '
                     '(entries are rewritten in place through get_mut, so a shared entry loses or duplicates comments)')
    n = 0
    for b in prog.bodies.values():
        if not b.crate.startswith('samlang'):
            continue
        cfg = None
        k = 0
        for bi, bl in enumerate(b.blocks):
            if bl.cleanup:
                continue
            for si, st in enumerate(bl.stmts):
                if st[0] != 'a' or st[2][0] != 'agg' or st[2][1][0] != 'adt' or not st[2][1][1].endswith('::CommentReference'):
                    continue
                if not st[2][2] or st[2][2][0][0] == 'k':
                    continue            # the constant empty reference
                n += 1
                k += 1
                key = f'{b.id}:reference#{k}'
                cfg = cfg or cfg_of(b)
                op = st[2][2][0]
                # the index must be a whole copy of a `len()` result
                r = op[1].local
                seen = 0
                sd = single_def(b, r)
                while sd and sd[1] != 'term' and sd[2][0] == 'use' and sd[2][1][0] in ('c', 'm') and not sd[2][1][1].proj and seen < 8:
                    seen += 1
                    sd = single_def(b, sd[2][1][1].local)
                ok = False
                why = 'the index is not the store length read before a push'
                # form 2: push first, then `len() - 1`
                if sd and sd[1] != 'term' and sd[2][0] in ('bin', 'checked') and sd[2][1] in ('Sub', 'SubWithOverflow', 'SubUnchecked'):
                    pass
                minus_one = None
                sdd = sd
                hops = 0
                while sdd and sdd[1] != 'term' and hops < 6:
                    hops += 1
                    rv = sdd[2]
                    if rv[0] == 'bin' and rv[1] in ('Sub', 'SubWithOverflow', 'SubUnchecked') and rv[3][0] == 'k' and rv[3][1].i == 1 \
                            and rv[2][0] in ('c', 'm') and not rv[2][1].proj:
                        minus_one = single_def(b, rv[2][1].local)
                        while minus_one and minus_one[1] != 'term' and minus_one[2][0] == 'use' and minus_one[2][1][0] in ('c', 'm') \
                                and not minus_one[2][1][1].proj:
                            minus_one = single_def(b, minus_one[2][1][1].local)
                        break
                    if rv[0] == 'use' and rv[1][0] in ('c', 'm'):
                        pl = rv[1][1]
                        # `(_t.0)` of a checked-subtraction pair
                        sdd = single_def(b, pl.local)
                        continue
                    break
                if minus_one and minus_one[1] == 'term' and (callee(minus_one[2])[1] or '').endswith('::len') and minus_one[2][3]:
                    len_bb = minus_one[0]
                    store = operand_root(b, minus_one[2][3][0])
                    store = (store[0], tuple(e[4] for e in store[1] if e[0] == 'f'))
                    for bj, bl2 in enumerate(b.blocks):
                        t = bl2.term
                        if bl2.cleanup or t[0] != 'call' or not (callee(t)[1] or '').endswith('::push') or not t[3]:
                            continue
                        s2 = operand_root(b, t[3][0])
                        s2 = (s2[0], tuple(e[4] for e in s2[1] if e[0] == 'f'))
                        if s2 == store and bj != len_bb and cfg.nodes_dominate([bj], len_bb) and cfg.nodes_dominate([len_bb], bi):
                            ok = True
                    if not ok:
                        why = '`len() - 1` is only the new entry when a push on the same store dominates reading the length'
                if sd and sd[1] == 'term' and (callee(sd[2])[1] or '').endswith('::len') and sd[2][3]:
                    len_bb = sd[0]
                    store = operand_root(b, sd[2][3][0])
                    store = (store[0], tuple(e[4] for e in store[1] if e[0] == 'f'))
                    for bj, bl2 in enumerate(b.blocks):
                        t = bl2.term
                        if bl2.cleanup or t[0] != 'call' or not (callee(t)[1] or '').endswith('::push') or not t[3]:
                            continue
                        s2 = operand_root(b, t[3][0])
                        s2 = (s2[0], tuple(e[4] for e in s2[1] if e[0] == 'f'))
                        if s2 != store:
                            continue
                        if cfg.nodes_dominate([len_bb], bj) and len_bb != bj and cfg.nodes_dominate([bj], bi) and bj != bi:
                            ok = True
                    if not ok:
                        why = 'no push on the same store between reading its length and building the reference, on every path'
                if ok:
                    res.ok(key, b.loc(st[3]), 'index = len() of the store before a dominating push on it')
                else:
                    res.violation(key, b.loc(st[3]), f'{b.name} builds a comment reference that is not the index of an entry pushed for '
                                  f'it ({why}): two syntax nodes can then share one store entry, and rewriting the comments of one '
                                  f'through get_mut silently drops or duplicates the comments of the other')
    res.floor('non-constant comment reference constructions', n, 1)
    return [res]


# ---------------------------------------------------------------------------------------------------------------------
# COMMENT-ORDER (C09): "comments keep their relative order".
#
# The parser glues comment vectors together with `X.append(&mut Y)` / `X.extend(Y)`. Comments reach the parser in source
# order: a vector obtained from an earlier consume()/assert_and_consume_*() call holds comments that precede those obtained
# from a later one, a parameter holds comments collected by the caller (older than anything this function lexes), and the
# parser's own `pending_comments` always holds the newest ones. Concatenation keeps source order only if everything
# already in X is at least as old as Y. Ages are compared by dominance of the producing calls.

def run_comment_order(prog, tier, repo):
    from ..cfg import cfg_of, single_def
    from ..dataflow import operand_root
    from ..facts import callee, strip_refs
    res = RuleResult('COMMENT-ORDER', 'C09: whenever the parser concatenates two comment vectors, the comments already in the '
                     'receiver were lexed before the appended ones (older first), so comments keep their source order')

    def is_comment_vec(t):
        t = strip_refs(t)
        return t.k == 'adt' and t.name.startswith('std::vec::Vec') and t.args and t.args[0].k == 'adt' \
            and t.args[0].name.endswith('::Comment')
    n = 0
    for b in prog.bodies.values():
        if b.crate != 'samlang_parser':
            continue
        sites = []
        for bi, bl in enumerate(b.blocks):
            t = bl.term
            if bl.cleanup or t[0] != 'call' or len(t[3]) != 2:
                continue
            nm = callee(t)[1] or ''
            short = nm.split('::')[-1]
            if short not in ('append', 'extend'):
                continue
            ok_ty = True
            for o in t[3]:
                if o[0] not in ('c', 'm') or not is_comment_vec(b.locals[o[1].local]):
                    ok_ty = False
            if not ok_ty:
                continue
            sites.append((bi, t))
        if not sites:
            continue
        cfg = cfg_of(b)

        def age(op, at=None, depth=0):
            r, p = operand_root(b, op)
            if r is None:
                return None, None
            names = [e[4] for e in p if e[0] == 'f']
            if 1 <= r <= b.nargs:
                if names:
                    # `mem::replace(&mut parser.field, v)` before this point: the field now holds v
                    if at is not None and depth < 3:
                        for bj, blj in enumerate(b.blocks):
                            tj = blj.term
                            if blj.cleanup or tj[0] != 'call' or len(tj[3]) != 2 or not (callee(tj)[1] or '').endswith('mem::replace'):
                                continue
                            rj, pj = operand_root(b, tj[3][0])
                            if rj == r and [e[4] for e in pj if e[0] == 'f'] == names and bj != at and cfg.nodes_dominate([bj], at):
                                return age(tj[3][1], bj, depth + 1)[0], (r, tuple(names))
                    return ('now',), (r, tuple(names))
                return ('entry',), (r, ())
            sd = single_def(b, r)
            if sd and sd[1] == 'term':
                cn = (callee(sd[2])[1] or '').split('::')[-1]
                if cn in ('new', 'default', 'with_capacity'):
                    return ('empty',), (r, ())
                if (callee(sd[2])[1] or '').endswith(('mem::replace', 'mem::take')) and sd[2][3]:
                    # the previous content of the place it was taken out of
                    r0, p0 = operand_root(b, sd[2][3][0])
                    if r0 is not None and 1 <= r0 <= b.nargs and [e for e in p0 if e[0] == 'f']:
                        return ('now',), (r, ())
                return ('call', sd[0]), (r, ())
            if sd and sd[1] != 'term' and sd[2][0] == 'agg':
                return ('empty',), (r, ())
            return None, (r, ())

        def older(a, c):
            """a strictly older than c"""
            if a is None or c is None or a[0] == 'empty' or c[0] == 'empty':
                return False
            if a[0] == 'entry':
                return c[0] in ('call', 'now')
            if a[0] == 'call':
                if c[0] == 'now':
                    return True
                if c[0] == 'call':
                    return a[1] != c[1] and cfg.nodes_dominate([a[1]], c[1]) and not cfg.can_reach(c[1], a[1])
            return False
        seen = {}
        for bi, t in sites:
            ax, kx = age(t[3][0], bi)
            ay, ky = age(t[3][1], bi)
            if kx is None or ky is None:
                continue
            n += 1
            contents = [ax]
            for bj, t2 in sites:
                if bj == bi or not cfg.nodes_dominate([bj], bi):
                    continue
                a2x, k2x = age(t2[3][0])
                if k2x == kx:
                    contents.append(age(t2[3][1])[0])
            xname = b.var_name(kx[0]) or ('.'.join(kx[1]) if kx[1] else f'_{kx[0]}')
            if kx[1]:
                xname = '.'.join(kx[1])
            yname = ('.'.join(ky[1]) if ky[1] else (b.var_name(ky[0]) or 'a fresh result'))
            base = f'{b.name}:{xname}<-{yname}'
            seen[base] = seen.get(base, 0) + 1
            key = base if seen[base] == 1 else f'{base}#{seen[base]}'
            bad = [c for c in contents if older(ay, c)]
            if bad:
                res.violation(key, b.loc(t[7]), f'{b.name}: `{yname}` is appended to `{xname}`, but `{yname}` was obtained from the lexer '
                              f'before what `{xname}` already holds: the earlier comments end up after the later ones and the '
                              f'formatter prints them in swapped order')
            else:
                res.ok(key, b.loc(t[7]), 'receiver holds comments lexed no later than the appended ones')
    res.floor('comment vector concatenations', n, 30)
    return [res]


# ---------------------------------------------------------------------------------------------------------------------
# COMMENT-REF-UNIQUE (C09): every comment reference has exactly one holder in the tree. A reference that is read out of a
# node and stored in a new node while the first node itself is also kept (moved into the tree) is printed by both holders:
# the comment appears twice, and on the next format four times.

def run_comment_ref_unique(prog, tier, repo):
    from ..dataflow import operand_root
    res = RuleResult('COMMENT-REF-UNIQUE', 'C09: the parser never stores a comment reference read out of a node into another node '
                     'while the first node is kept as well (two holders print the comment twice)')
    n = 0
    for b in sorted(prog.bodies.values(), key=lambda x: x.name):
        if b.crate != 'samlang_parser' or '::source_parser::' not in b.name + '::' or '::tests' in b.name:
            continue
        aggs = []
        for bi, bl in enumerate(b.blocks):
            if bl.cleanup:
                continue
            for st in bl.stmts:
                if st[0] == 'a' and st[2][0] == 'agg' and st[2][1][0] == 'adt' and st[2][1][1].startswith('samlang_ast::source'):
                    aggs.append((bi, st))
        # locals moved whole into a source node
        kept = {}
        for bi, st in aggs:
            for o in st[2][2]:
                if o[0] in ('c', 'm') and not o[1].proj:
                    r, p_ = operand_root(b, o)
                    if r is not None and not [e for e in p_ if e[0] == 'f']:
                        kept.setdefault(r, st[3])
                    kept.setdefault(o[1].local, st[3])
        for bi, st in aggs:
            adt = prog.adts.get(st[2][1][1])
            if adt is None:
                continue
            fields = adt.variants[st[2][1][2]].fields
            for k, o in enumerate(st[2][2]):
                if k >= len(fields) or not (fields[k].ty.k == 'adt' and fields[k].ty.name == CREF) or o[0] not in ('c', 'm'):
                    continue
                r, p_ = operand_root(b, o)
                fs = [e for e in p_ if e[0] == 'f']
                if r is None or not fs:
                    continue        # a fresh reference (create_comment_reference result) or a parameter value
                n += 1
                nb = sum(1 for i in res.instances if i.key.startswith(f'copy:{b.name}#')) + 1
                key = f'copy:{b.name}#{nb}'
                if r in kept and kept[r] is not None:
                    res.violation(key, b.loc(st[3]), f'{b.name} copies the comment reference `{fs[-1][4]}` out of a node into a new '
                                  f'{adt.name.split("::")[-1]} while the node it was read from is stored in the tree as well (line '
                                  f'{kept[r]}): both nodes print the comment, so formatting duplicates it on every pass')
                else:
                    res.ok(key, b.loc(st[3]), 'the node the reference is taken from is not kept (destructured / replaced)')
    res.analysed['references_copied_out_of_nodes'] = n
    return [res]


# ---------------------------------------------------------------------------------------------------------------------
# COMMENT-TOKEN-KEPT (C09): the lexer hands comments to the parser as tokens; the parser's token pump turns each of them into
# a pending comment. Wherever a parser function asks the lexer for the next token and branches on a comment variant of the
# token content, every path from that arm back to the next request (or to the function's return) pushes a comment onto a
# vector. A path that skips the push loses that comment before any production can attach it.

def run_comment_token_kept(prog, tier, repo):
    res = RuleResult('COMMENT-TOKEN-KEPT', 'C09: every comment token the parser receives from the lexer is stored as a pending comment '
                     'on every path (none is filtered out by content or context)')
    tc = [a for a in prog.adts.values() if a.name == 'samlang_parser::lexer::TokenContent']
    if len(tc) != 1:
        res.cannot_decide('samlang_parser::lexer::TokenContent')
        return [res]
    comment_variants = {i: v.name for i, v in enumerate(tc[0].variants) if 'Comment' in v.name}
    if not comment_variants:
        res.cannot_decide('no comment variant in TokenContent')
        return [res]
    n = 0
    for b in sorted(prog.bodies.values(), key=lambda x: x.name):
        if b.crate != 'samlang_parser' or '::tests' in b.name or '::lexer::' in b.name:
            continue
        pumps = [bi for bi, bl in enumerate(b.blocks) if not bl.cleanup and bl.term[0] == 'call'
                 and (callee(bl.term)[1] or '').split('::')[-1] == 'next_token' and '::lexer::' in (callee(bl.term)[1] or '')]
        if not pumps:
            continue
        cfg = cfg_of(b)
        pushes = []
        for bi, bl in enumerate(b.blocks):
            t = bl.term
            if bl.cleanup or t[0] != 'call' or (callee(t)[1] or '').split('::')[-1] not in ('push', 'push_back', 'insert', 'extend'):
                continue
            if any(o[0] in ('c', 'm') and 'Comment' in strip_refs(b.locals[o[1].local]).s for o in t[3][1:]):
                pushes.append(bi)
        for bi, bl in enumerate(b.blocks):
            t = bl.term
            if bl.cleanup or t[0] != 'switch':
                continue
            # a switch on the discriminant of a TokenContent place
            sd = single_def(b, t[1][1].local) if t[1][0] in ('c', 'm') else None
            if not (sd and sd[1] != 'term' and sd[2][0] == 'disc'):
                continue
            pl = sd[2][1]
            pty = b.locals[pl.local]
            for e in pl.proj:
                if e[0] == 'f':
                    pty = e[5]
                elif e[0] == 't':
                    pty = e[2]
                elif e[0] == 'd' and pty.args:
                    pty = pty.args[0]
            if strip_refs(pty).k != 'adt' or strip_refs(pty).name != tc[0].name:
                continue
            for v, tgt in t[2]:
                if v not in comment_variants:
                    continue
                n += 1
                key = f'kept:{b.name}:{comment_variants[v]}'
                # can the arm reach the next token request or the return without pushing a comment?
                r = reach_known_variants(b, tgt, pushes)
                leak = [x for x in r if x in pumps or x in cfg.exits]
                if leak:
                    res.violation(key, b.loc(t[4]), f'{b.name} receives a {comment_variants[v]} token from the lexer and there is a '
                                  f'path from that arm to the next token request (or the return) on which no comment is pushed: '
                                  f'comments that take this path never reach a syntax node, so formatting drops them')
                else:
                    res.ok(key, b.loc(t[4]), 'stored on every path')
    res.floor('comment-token arms of the parser\'s token pump', n, 3)
    return [res]
