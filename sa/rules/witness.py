"""E3: compile-fail witnesses (rustdoc compile_fail,E0xxx under nightly) paired with compiling twins.
Nothing is executed: twins are `no_run`, witnesses must fail to compile with the stated error code."""
import os, re, shutil, subprocess
from ..core import RuleResult

VERIF = os.path.dirname(os.path.dirname(os.path.dirname(os.path.abspath(__file__))))


def run_for(prefixes, clause):
    def runner(prog, tier, repo):
        res = RuleResult('WITNESS', clause)
        wdir = os.path.join(VERIF, 'witness')
        try:
            shutil.copyfile(os.path.join(repo, 'Cargo.lock'), os.path.join(wdir, 'Cargo.lock'))
        except OSError:
            pass
        env = dict(os.environ, CARGO_NET_OFFLINE='true', CARGO_TARGET_DIR=os.path.join(VERIF, '.work', 'witness-target'))
        env.pop('RUSTC_WORKSPACE_WRAPPER', None)
        r = subprocess.run(['cargo', '+nightly', 'test', '--doc', '--offline'], cwd=wdir, env=env,
                           stdout=subprocess.PIPE, stderr=subprocess.STDOUT, text=True)
        tests = re.findall(r'^test src/lib\.rs - (\w+) \(line (\d+)\)( - compile fail| - compile)? \.\.\. (\w+)', r.stdout, re.M)
        if not tests:
            res.cannot_decide('witness crate did not build or produced no doctests: ' + r.stdout[-400:].replace('\n', ' | '))
            return [res]
        # key witnesses by group and ordinal inside the group (not by line)
        counters = {}
        n = 0
        for group, line, kind, status in tests:
            if not group.startswith(tuple(prefixes)):
                continue
            n += 1
            counters[group] = counters.get(group, 0) + 1
            k = 'witness' if 'fail' in (kind or '') else 'twin'
            key = f'{group}:{counters[group]}:{k}'
            if status == 'ok':
                res.ok(key, f'witness/src/lib.rs:{line}', 'fails to compile with the stated error code' if k == 'witness'
                       else 'compiles (the witness differs only in the offending line)')
            else:
                res.violation(key, f'witness/src/lib.rs:{line}',
                              f'{group} #{counters[group]}: ' + ('the forbidden access now compiles (or fails for another reason): '
                              'the type-level barrier the MIR rules rely on is gone' if k == 'witness' else
                              'the compiling twin no longer compiles: the witness next to it proves nothing'))
        res.floor('witness doctests', n, 4)
        return [res]
    runner.needs_repo_build = True
    return runner
