"""C10 rules over the three state mutators (DESIGN.md §3.4): SIG-KEY, UPDATE-ORDER, ERRORS-OVERWRITE."""
from ..core import RuleResult
from ..cfg import cfg_of, single_def
from ..dataflow import operand_root, root_local, field_names, call_sites
from ..facts import callee

STATE = 'samlang_services::server_state::ServerState'


from .lookup_unwrap import _ROLE_OF_FIELD, _install_roles


def _state_field(body, op):
    """role name (parsed_modules, global_cx, ...) of the ServerState field an operand refers to"""
    r, p = operand_root(body, op)
    fs = [e for e in p if e[0] == 'f']
    if r == 1 and fs and fs[-1][1] == STATE:
        return _ROLE_OF_FIELD.get(fs[-1][4], fs[-1][4])
    return None


def _key(body, op):
    r, p = operand_root(body, op)
    return (r, field_names(p))


def _map_calls(body, method_suffixes):
    """[(bb, term, field)] for HashMap calls on a ServerState field of self."""
    out = []
    for bi, bl in enumerate(body.blocks):
        if bl.cleanup:
            continue
        t = bl.term
        if t[0] == 'call' and t[3]:
            nm = callee(t)[1] or ''
            if nm.startswith(('std::collections::HashMap', '<std::collections::HashMap')) and nm.endswith(method_suffixes):
                f = _state_field(body, t[3][0])
                if f:
                    out.append((bi, t, f))
    return out


def _mutators(prog):
    _install_roles(prog)
    state_methods = [b for b in prog.bodies.values() if b.crate == 'samlang_services' and b.kind == 'assoc'
                     and b.self_ty is not None and b.self_ty.k == 'adt' and b.self_ty.id == STATE]
    recheck = [b for b in state_methods if any(f == 'errors' for _, _, f in _map_calls(b, ('::insert', '::extend')))]
    muts = []
    if len(recheck) == 1:
        rc = recheck[0]
        for b in state_methods:
            if b.id != rc.id and any(callee(bl.term)[0] == rc.id for bl in b.blocks if bl.term[0] == 'call'):
                muts.append(b)
        return rc, muts
    return None, []


def run_sigkey(prog, tier, repo):
    res = RuleResult('SIG-KEY', 'C10: the signature stored for module k is built for k from the module stored under k')
    rc, muts = _mutators(prog)
    if rc is None or len(muts) < 3:
        res.cannot_decide('recheck and its three callers (update / rename / remove)')
        return [res]
    n = 0
    for b in sorted(muts, key=lambda x: x.name):
        parsed_inserts = [(bi, t) for bi, t, f in _map_calls(b, ('::insert',)) if f == 'parsed_modules']
        for bi, t, f in _map_calls(b, ('::insert',)):
            if f != 'global_cx':
                continue
            n += 1
            key = f'sig-insert:{b.name}'
            k = _key(b, t[3][1])
            vr, vp = operand_root(b, t[3][2])
            sd = single_def(b, vr) if vr is not None else None
            built = sd is not None and sd[1] == 'term' and (callee(sd[2])[1] or '').endswith('build_module_signature')
            if not built:
                res.violation(key, b.loc(t[7]), f'{b.name} stores under a module key a signature that was not built by '
                              f'build_module_signature for that key (a signature embeds its own module reference): '
                              f'incremental diagnostics differ from a fresh analysis')
                continue
            bt = sd[2]
            if _key(b, bt[3][0]) != k:
                res.violation(key, b.loc(t[7]), f'{b.name}: signature built for one module reference is stored under another key')
                continue
            mr, _ = operand_root(b, bt[3][1])
            ok = False
            for pbi, pt in parsed_inserts:
                pr, _ = operand_root(b, pt[3][2])
                if pr == mr and _key(b, pt[3][1]) == k:
                    ok = True
            if ok:
                res.ok(key, b.loc(t[7]), 'signature built for the same key from the module stored under that key')
            else:
                res.violation(key, b.loc(t[7]), f'{b.name}: the signature stored under a key is not built from the module that '
                              f'is stored in parsed_modules under the same key')
    res.floor('global_cx inserts in mutators', n, 2)
    return [res]


def run_order(prog, tier, repo):
    res = RuleResult('UPDATE-ORDER', 'C10: every mutator rebuilds the dependency graph after its last source mutation and '
                     'before the recheck, always rechecks, and mutates the paired maps together')
    rc, muts = _mutators(prog)
    if rc is None or len(muts) < 3:
        res.cannot_decide('recheck and its three callers (update / rename / remove)')
        return [res]
    for b in sorted(muts, key=lambda x: x.name):
        cfg = cfg_of(b)
        dep_assign = []
        for bi, bl in enumerate(b.blocks):
            if bl.cleanup:
                continue
            for st in bl.stmts:
                if st[0] == 'a' and st[1].proj and st[1].proj[-1][0] == 'f' and st[1].proj[-1][1] == STATE \
                        and _ROLE_OF_FIELD.get(st[1].proj[-1][4]) == 'dep_graph':
                    vr, _ = operand_root(b, st[2][1]) if st[2][0] == 'use' else (None, ())
                    sd = single_def(b, vr) if vr is not None else None
                    from_parsed = sd is not None and sd[1] == 'term' and sd[2][3] and _state_field(b, sd[2][3][0]) == 'parsed_modules'
                    dep_assign.append((bi, from_parsed))
        # ... or through a small method of the state that does exactly that (`self.rebuild_dep_graph()`)
        for bi, bl in enumerate(b.blocks):
            t = bl.term
            if bl.cleanup or t[0] != 'call':
                continue
            hb = prog.bodies.get(callee(t)[0])
            if hb is None or hb.id == b.id or hb.crate != 'samlang_services' or hb.self_ty is None or hb.self_ty.k != 'adt' \
                    or hb.self_ty.id != STATE or len(hb.blocks) > 120:
                continue
            from ..core import places_read
            reads_parsed = any(_ROLE_OF_FIELD.get(e[4]) == 'parsed_modules' for pl, _b, _l in places_read(hb)
                               for e in pl.proj if e[0] == 'f' and e[1] == STATE)
            found_ = False
            for hbl in hb.blocks:
                if hbl.cleanup or found_:
                    continue
                for st in hbl.stmts:
                    if found_:
                        break
                    if st[0] == 'a' and st[1].proj and st[1].proj[-1][0] == 'f' and st[1].proj[-1][1] == STATE \
                            and _ROLE_OF_FIELD.get(st[1].proj[-1][4]) == 'dep_graph':
                        if reads_parsed:
                            dep_assign.append((bi, True))
                            found_ = True
        rechecks = [bi for bi, bl in enumerate(b.blocks) if bl.term[0] == 'call' and callee(bl.term)[0] == rc.id and not bl.cleanup]
        muts_parsed = [(bi, t) for bi, t, f in _map_calls(b, ('::insert', '::remove')) if f == 'parsed_modules']
        key = f'order:{b.name}'
        if len(dep_assign) != 1 or not dep_assign[0][1]:
            res.violation(key + ':depgraph', b.loc(), f'{b.name} does not rebuild dep_graph from parsed_modules exactly once')
            continue
        da = dep_assign[0][0]
        bad = [bi for bi, t in muts_parsed if cfg.can_reach(da, bi)]
        if bad:
            res.violation(key + ':depgraph', b.loc(b.blocks[bad[0]].term[7]), f'{b.name} mutates parsed_modules after rebuilding the '
                          f'dependency graph: the affected set is computed from stale imports')
        elif not muts_parsed:
            res.violation(key + ':depgraph', b.loc(), f'{b.name} never mutates parsed_modules')
        elif not all(cfg.nodes_dominate([da], r) for r in rechecks):
            res.violation(key + ':depgraph', b.loc(), f'{b.name}: recheck is reachable without rebuilding the dependency graph')
        else:
            res.ok(key + ':depgraph', b.loc(), 'dep_graph rebuilt from parsed_modules after the last source mutation and before recheck')
        # the set of modules to re-check is a closure over the dependency graph. A mutator that only adds or replaces sources
        # (no removal) can introduce import edges that did not exist before, so it has to take the closure over the graph it has
        # just rebuilt; the removing mutators look up the dependents of the vanished keys and are free to use the old graph.
        aff = [bi for bi, bl in enumerate(b.blocks) if not bl.cleanup and bl.term[0] == 'call'
               and (callee(bl.term)[1] or '').endswith('DependencyGraph::affected_set')]
        removes = [bi for bi, t in muts_parsed if (callee(t)[1] or '').endswith('::remove')]
        if aff and not removes:
            if all(cfg.nodes_dominate([da], a) for a in aff):
                res.ok(key + ':affected-set', b.loc(b.blocks[aff[0]].term[7]), 'the re-check set is computed on the rebuilt graph')
            else:
                res.violation(key + ':affected-set', b.loc(b.blocks[aff[0]].term[7]), f'{b.name} only adds or replaces sources but '
                              f'computes the set of modules to re-check on the dependency graph of the previous state: import edges '
                              f'introduced by this edit (and every edge of a new module) are missing from it, so modules reached only '
                              f'through the new imports are not re-checked and keep diagnostics a from-scratch analysis would not give')
        if rechecks and cfg.nodes_postdominate(rechecks, 0):
            res.ok(key + ':recheck', b.loc(), 'every path through the mutator ends in recheck')
        else:
            res.violation(key + ':recheck', b.loc(), f'{b.name} has a path that returns without rechecking: diagnostics go stale')
        # paired maps: a module enters / leaves all per-module maps together (the key-set inclusions the request API
        # relies on); checked_modules is filled by recheck, so it only takes part in removals
        groups = {'::insert': ('parsed_modules', 'global_cx', 'string_sources'),
                  '::remove': ('parsed_modules', 'global_cx', 'string_sources', 'checked_modules')}
        for kind, maps in groups.items():
            keysets = {m: {_key(b, t[3][1]) for bi, t, f in _map_calls(b, (kind,)) if f == m} for m in maps}
            k2 = f'pair:{b.name}:{kind.strip(":")}'
            nonempty = {m: ks for m, ks in keysets.items() if ks}
            ref = keysets['parsed_modules']
            bad = [m for m in maps if keysets[m] != ref]
            # ... and on the same paths: wherever parsed_modules is mutated, every trip through that loop iteration (or every
            # path through the function, outside loops) also mutates each paired map
            cond = []
            if not bad:
                heads = {h for (_, h) in cfg.back_edges()}
                pm_blocks = [bi for bi, t, f in _map_calls(b, (kind,)) if f == 'parsed_modules']
                for m in maps:
                    if m == 'parsed_modules':
                        continue
                    mb = {bi for bi, t, f in _map_calls(b, (kind,)) if f == m}
                    for pbi in pm_blocks:
                        ok_here = False
                        in_loop = False
                        for h in heads:
                            if cfg.can_reach(h, pbi) and cfg.can_reach(pbi, h):
                                in_loop = True
                                fwd = cfg.reachable(h, removed_nodes=mb)
                                if not (pbi in fwd and h in cfg.reachable(pbi, removed_nodes=mb - {pbi})):
                                    ok_here = True
                        if not in_loop:
                            ok_here = cfg.nodes_dominate(mb, pbi) or cfg.nodes_postdominate(mb, pbi)
                        if not ok_here:
                            cond.append(m)
            if not bad and cond:
                res.violation(k2, b.loc(), f'{b.name}: {", ".join(sorted(set(cond)))} is {kind.strip(":")}-ed only on some of the paths '
                              f'on which parsed_modules is: on the other paths the module keeps a stale (or no) entry there, so it '
                              f'is checked against an outdated signature and the stale entry is a GC root nobody marks')
            elif not bad:
                res.ok(k2, b.loc(), f'{", ".join(maps)} are {kind.strip(":")}-ed under the same keys ({len(ref)}) on the same paths')
            else:
                res.violation(k2, b.loc(), f'{b.name}: {", ".join(bad)} {"is" if len(bad) == 1 else "are"} not '
                              f'{kind.strip(":")}-ed under the same key(s) as parsed_modules: after this operation one module '
                              f'map has an entry the others lack, so a module is checked against a signature set that '
                              f'misses (or still has) it, or a request unwraps a lookup that now fails')
        # a module map must never be inserted into and *then* removed from within one request element: when the removed key can
        # equal the inserted one (renaming a module onto itself, or onto a name handled earlier in the batch) the fresh entry is
        # deleted again and the module vanishes from that map while the other maps still hold it
        heads_ = {h for (_, h) in cfg.back_edges()}
        for m in ('parsed_modules', 'global_cx', 'string_sources', 'checked_modules'):
            ins = [bi for bi, t, f in _map_calls(b, ('::insert',)) if f == m]
            rem = [bi for bi, t, f in _map_calls(b, ('::remove',)) if f == m]
            if not ins or not rem:
                continue
            k3 = f'order:{b.name}:{m}:remove-before-insert'
            late = [(i, r) for i in ins for r in rem if r in cfg.reachable(i, removed_nodes=list(heads_ - {i}))]
            if late:
                res.violation(k3, b.loc(b.blocks[late[0][1]].term[7]), f'{b.name} removes an entry of {m} after inserting one in the same '
                              f'step: if the two keys coincide the entry just stored is deleted and the module disappears from {m} '
                              f'(its importers then report it as unresolvable although a fresh analysis finds it)')
            else:
                res.ok(k3, b.loc(), f'{m}: entries are removed before new ones are inserted')
    return [res]


def run_errors(prog, tier, repo):
    res = RuleResult('ERRORS-OVERWRITE', 'C10: no error is lost - parse diagnostics exist only as by-products of parsing, so '
                     'overwriting errors[m] for a module that was not re-parsed must carry its previous syntax errors over')
    rc, muts = _mutators(prog)
    if rc is None:
        res.cannot_decide('the function that overwrites state.errors (recheck)')
        return [res]
    cfg = cfg_of(rc)
    inserts = [bi for bi, t, f in _map_calls(rc, ('::insert', '::extend')) if f == 'errors']
    # reads of the previous errors: direct field read or a ServerState method that returns from self.errors
    readers = set()
    for b in prog.bodies.values():
        if b.crate == 'samlang_services' and b.self_ty is not None and b.self_ty.k == 'adt' and b.self_ty.id == STATE:
            if any(f == 'errors' for _, _, f in _map_calls(b, ('::get',))):
                readers.add(b.id)
    reads = []
    for bi, bl in enumerate(rc.blocks):
        if bl.cleanup:
            continue
        t = bl.term
        if t[0] == 'call':
            nm = callee(t)[1] or ''
            if callee(t)[0] in readers:
                reads.append(bi)
            elif nm.startswith('std::collections::HashMap') and nm.endswith(('::get', '::iter', '::remove', '::get_mut')) \
                    and t[3] and _state_field(rc, t[3][0]) == 'errors':
                reads.append(bi)
    # re-reports into the ErrorSet parameter
    es_param = [i for i in range(1, rc.nargs + 1) if rc.locals[i].k == 'adt' and rc.locals[i].name.endswith('ErrorSet')]
    reports = []
    for bi, t in call_sites(rc, lambda n: 'ErrorSet::report_' in n):
        r, _ = operand_root(rc, t[3][0])
        if r in es_param:
            reports.append(bi)
    key = f'carry-over:{rc.name}'
    if not inserts:
        res.cannot_decide('errors.insert in recheck')
    elif reads and reports and all(any(cfg.can_reach(r, rp) for r in reads) for rp in reports) \
            and all(any(cfg.can_reach(rp, i) for rp in reports) for i in inserts) \
            and not any(cfg.can_reach(i, rp) for i in inserts for rp in reports):
        res.ok(key, rc.loc(), 'previous errors entry is read and re-reported into the error set before errors[m] is overwritten')
    else:
        # alternative: every caller parses exactly what it rechecks (not the case for an affected-set design)
        res.violation(key, rc.loc(), f'{rc.name} overwrites errors[m] for every rechecked module but never reads the previous '
                      f'entry: syntax errors of a dependent module that is rechecked without being re-parsed disappear '
                      f'(a fresh server still reports them)')
    # every rechecked module gets its entry overwritten - with the empty list when it has no errors any more. The grouped map
    # is padded in a loop over the recheck set; each trip of that loop has to consult the grouped map itself (contains_key /
    # insert / entry) on every path: a test of some other state in front of it lets a rechecked module keep its old entry.
    grouped = [bl.term[4].local for bl in rc.blocks if not bl.cleanup and bl.term[0] == 'call' and bl.term[4] is not None
               and (callee(bl.term)[1] or '').endswith('ErrorSet::group_errors')]
    pad = []
    for bi, bl in enumerate(rc.blocks):
        t = bl.term
        if bl.cleanup or t[0] != 'call' or not t[3] or not (callee(t)[1] or '').startswith('std::collections::HashMap'):
            continue
        r, _ = operand_root(rc, t[3][0])
        if r in grouped and (callee(t)[1] or '').split('::')[-1] in ('contains_key', 'insert', 'entry', 'get', 'get_mut', 'remove',
                                                                      'remove_entry'):
            pad.append(bi)
    k2 = f'clear:{rc.name}'
    if not grouped or not pad:
        res.cannot_decide('the grouped error map padded with empty entries in recheck', rc.loc())
    else:
        heads = {h for (_, h) in cfg.back_edges()}
        loops = [h for h in heads if any(cfg.can_reach(h, x) and cfg.can_reach(x, h) for x in pad)]
        bad = None
        for h in loops:
            # a trip: from a successor of the head that stays in the loop back to the head, avoiding the pad blocks
            body_ = {x for x in cfg.reachable(h) if cfg.can_reach(x, h)}
            nxt = [x for x in body_ if rc.blocks[x].term[0] == 'call' and (callee(rc.blocks[x].term)[1] or '').split('::')[-1] == 'next']
            for nb in nxt:
                free = cfg.reachable(nb, removed_nodes=pad)
                # the Some-edge side: reaching the head again without a pad block, through at least one other block of the loop
                if any(u in free and u != nb and u in body_ and h in cfg.succ[u] for u in body_):
                    # the None edge leaves the loop, it never returns to the head; so this is a real skipping trip unless the
                    # only such path is the immediate exit
                    bad = nb
        if bad is not None:
            res.violation(k2, rc.loc(rc.blocks[bad].term[7]), f'{rc.name} pads the grouped error map with an empty entry for a rechecked '
                          f'module only on some paths of the loop trip: a rechecked module that is skipped keeps its previous '
                          f'errors entry (a module that no longer exists, or whose errors were fixed, still reports them; the stale '
                          f'entry also keeps strings alive that no marked module mentions)')
        elif loops:
            res.ok(k2, rc.loc(), 'every rechecked module gets its errors entry overwritten (empty when it has no errors)')
        else:
            res.cannot_decide('the loop padding the grouped error map', rc.loc())
    return [res]


def _chain_closures(prog, b, local, depth=0, seen=None):
    """Closures (and a flag for `whole element`) met while tracing how an iterator/collection value was built."""
    from ..cfg import def_sites
    seen = seen if seen is not None else set()
    out = []
    if depth > 12 or local in seen:
        return out
    seen.add(local)
    for dbb, si, rv in def_sites(b).get(local, []):
        if b.blocks[dbb].cleanup:
            continue
        if si == 'term':
            t = rv
            for o in t[3]:
                if o[0] in ('c', 'm'):
                    r, p = operand_root(b, o)
                    if r is None:
                        continue
                    sd = single_def(b, r)
                    if sd and sd[1] != 'term' and sd[2][0] == 'agg' and sd[2][1][0] == 'closure':
                        out.append(sd[2][1][1])
                    else:
                        out += _chain_closures(prog, b, r, depth + 1, seen)
        else:
            for o in ([rv[1]] if rv[0] in ('use',) else []):
                if o[0] in ('c', 'm'):
                    out += _chain_closures(prog, b, o[1].local, depth + 1, seen)
            if rv[0] == 'ref':
                out += _chain_closures(prog, b, rv[2].local, depth + 1, seen)
    return out


def _tuple_components_read(prog, cid, depth=0):
    """Tuple component indices of the element a closure (and closures nested in it) reads."""
    from ..core import places_read
    cb = prog.bodies.get(cid)
    comps = set()
    if cb is None or depth > 3:
        return comps
    for pl, bi, line in places_read(cb):
        for e in pl.proj:
            if e[0] == 't':
                comps.add(e[1])
    # pattern parameters `|(a, b)|` are destructured into locals straight from the argument
    for bl in cb.blocks:
        for st in bl.stmts:
            if st[0] == 'a' and st[2][0] in ('use', 'ref', 'copyderef'):
                pl = st[2][1][1] if st[2][0] == 'use' and st[2][1][0] in ('c', 'm') else (st[2][2] if st[2][0] == 'ref' else (st[2][1] if st[2][0] == 'copyderef' else None))
                if pl is not None:
                    for e in pl.proj:
                        if e[0] == 't':
                            comps.add(e[1])
    for c in prog.closures_of.get(cb.parent or cid, []):
        pass
    return comps


def run_dirty(prog, tier, repo):
    res = RuleResult('DIRTY-COVERS', 'C10: no error in a dependent module is missed - the dirty set handed to the dependency '
                     'graph names every module the mutator adds or removes, and every module announced as re-parsed is parsed')
    rc, muts = _mutators(prog)
    if rc is None or len(muts) < 3:
        res.cannot_decide('recheck and its three callers (update / rename / remove)')
        return [res]
    # which HashSet parameter of recheck is the "re-parsed" set: the one it queries with contains()
    reparsed_idx = None
    for bi, t in call_sites(rc, lambda n: n.endswith('HashSet::<T, S, A>::contains')):
        r, _ = operand_root(rc, t[3][0])
        if r is not None and 1 <= r <= rc.nargs:
            reparsed_idx = r
    for b in sorted(muts, key=lambda x: x.name):
        cfg = cfg_of(b)
        # ---- dirty set covers every mutated key ----
        aff = call_sites(b, lambda n: n.endswith('DependencyGraph::affected_set'))
        key = f'dirty:{b.name}'
        if len(aff) != 1:
            res.cannot_decide(f'the affected_set call of {b.name}', b.loc())
        else:
            ab, at = aff[0]
            r, _ = operand_root(b, at[3][1])
            closures = _chain_closures(prog, b, r) if r is not None else []
            dirty = None if not closures else set()
            for c in closures:
                dirty |= _tuple_components_read(prog, c)
            mut_comps = set()
            whole = False
            for bi, t, f in _map_calls(b, ('::insert', '::remove')):
                if f != 'parsed_modules':
                    continue
                kr, kp = operand_root(b, t[3][1])
                ts = [e[1] for e in kp if e[0] == 't']
                # element of a Vec<(A, B)> iterated by value: path is (opt as Some).0.<component>
                if ts:
                    mut_comps.add(ts[-1])
                else:
                    whole = True
            incremental_problem = None
            if dirty is None:
                # not an iterator chain over the request: accept only a set that starts empty and receives one insert per
                # mutated key on every path through the mutating loop iteration (a filtered dirty set skips dependants)
                from ..cfg import def_sites
                defs = [d for d in def_sites(b).get(r, []) if not b.blocks[d[0]].cleanup] if r is not None else []
                # look through `.clone()` of the set
                if len(defs) == 1 and defs[0][1] == 'term' and (callee(defs[0][2])[1] or '').split('::')[-1] == 'clone' and defs[0][2][3]:
                    r0, _ = operand_root(b, defs[0][2][3][0])
                    if r0 is not None:
                        r = r0
                        closures = _chain_closures(prog, b, r)
                        if closures:
                            dirty = set()
                            for c in closures:
                                dirty |= _tuple_components_read(prog, c)
                        defs = [d for d in def_sites(b).get(r, []) if not b.blocks[d[0]].cleanup]
            if dirty is None:
                starts_empty = any(d[1] == 'term' and (callee(d[2])[1] or '').endswith(('HashSet::<T>::new', 'HashSet::<T, S>::default',
                                                                                         'HashSet::<T, S>::with_capacity'))
                                   for d in defs)
                ins = [(bi, t) for bi, t in call_sites(b, lambda n: n.endswith('HashSet::<T, S, A>::insert'))
                       if operand_root(b, t[3][0])[0] == r]
                if not starts_empty and not ins:
                    incremental_problem = None if defs else 'cannot see how the dirty set is built'
                    if not defs:
                        res.cannot_decide(f'how the dirty set of {b.name} is built', b.loc(at[7]))
                        continue
                else:
                    ins_blocks = {bi for bi, _ in ins}
                    heads = {h for (_, h) in cfg.back_edges()}
                    for mbi, mt, f in _map_calls(b, ('::insert', '::remove')):
                        if f != 'parsed_modules':
                            continue
                        covered = True
                        in_loop = False
                        for h in heads:
                            if cfg.can_reach(h, mbi) and cfg.can_reach(mbi, h):
                                in_loop = True
                                # a trip h -> M -> h that avoids every dirty insert?
                                fwd = cfg.reachable(h, removed_nodes=ins_blocks)
                                if mbi in fwd and h in cfg.reachable(mbi, removed_nodes=ins_blocks - {mbi}) and mbi not in ins_blocks:
                                    covered = False
                        if not in_loop and not (cfg.nodes_dominate(ins_blocks, mbi) or cfg.nodes_postdominate(ins_blocks, mbi)):
                            covered = False
                        if not covered:
                            incremental_problem = (f'the module mutated at line {mt[7]} is added to the dirty set only on some paths '
                                                   f'(the insert into the set is conditional)')
            if incremental_problem:
                res.violation(key, b.loc(at[7]), f'{b.name}: {incremental_problem}: when the condition is false the dependants of a '
                              f'changed module are not rechecked and keep stale diagnostics')
            elif dirty is None or (mut_comps <= dirty):
                res.ok(key, b.loc(at[7]), f'dirty set is built from {"whole elements" if dirty is None else "components " + str(sorted(dirty))} '
                       f'of the request, mutation keys use components {sorted(mut_comps) if mut_comps else "(whole element)"}')
            else:
                res.violation(key, b.loc(at[7]), f'{b.name}: parsed_modules is mutated under request components {sorted(mut_comps)} but the '
                              f'dirty set given to DependencyGraph::affected_set is built only from components {sorted(dirty)}: '
                              f'modules depending on the omitted names (e.g. importers of a name that only now starts to exist) '
                              f'are not rechecked and keep stale diagnostics')
        # ---- every module announced as re-parsed is parsed ----
        if reparsed_idx is None:
            continue
        rcalls = [(bi, bl.term) for bi, bl in enumerate(b.blocks) if bl.term[0] == 'call' and callee(bl.term)[0] == rc.id and not bl.cleanup]
        parses = [bi for bi, t in call_sites(b, lambda n: n.endswith('parse_source_module_from_text'))]
        for rb, rt in rcalls:
            key2 = f'reparsed:{b.name}'
            rr, _ = operand_root(b, rt[3][reparsed_idx - 1])
            from ..cfg import def_sites
            defs = [d for d in def_sites(b).get(rr, []) if not b.blocks[d[0]].cleanup] if rr is not None else []
            kinds = set()
            for dbb, si, rv in defs:
                if si == 'term':
                    nm = callee(rv)[1] or ''
                    kinds.add('empty' if nm.endswith(('HashSet::<T>::new', 'HashSet::<T, S>::default')) else 'bulk')
            inserts = [bi for bi, t in call_sites(b, lambda n: n.endswith('HashSet::<T, S, A>::insert'))
                       if operand_root(b, t[3][0])[0] == rr]
            heads = {h for (_, h) in cfg.back_edges()}
            problem = None
            if 'bulk' in kinds:
                # built from the whole request: the loop that parses must parse in every iteration
                if not parses:
                    problem = 'announces the whole request as re-parsed but never parses'
                for pb in parses:
                    for h in heads:
                        if cfg.can_reach(h, pb) and cfg.can_reach(pb, h):
                            body_succ = [x for x in cfg.succ[h]]
                            r_ = cfg.reachable(h, removed_nodes=[pb])
                            # is there a cycle through h that avoids the parse?
                            cyc = any(h in cfg.reachable(x, removed_nodes=[pb]) for x in cfg.succ[h] if x in r_)
                            if cyc:
                                problem = ('announces every module of the request as re-parsed, but an iteration of the parse loop '
                                           'can skip parse_source_module_from_text')
            for ib in inserts:
                ends = set(cfg.exits) | heads
                if parses and not cfg.nodes_dominate(parses, ib):
                    r_ = cfg.reachable(ib, removed_nodes=parses)
                    if (r_ - {ib}) & ends:
                        problem = 'adds a module to the re-parsed set on a path that does not parse it'
                elif not parses:
                    problem = 'adds a module to the re-parsed set but never parses'
            if problem:
                res.violation(key2, b.loc(rt[7]), f'{b.name} {problem}: recheck carries syntax errors over only for modules that are '
                              f'not in that set, so the syntax errors of such a module silently disappear')
            else:
                res.ok(key2, b.loc(rt[7]), 'every module announced to recheck as re-parsed is parsed on every path')
    return [res]


# ---------------------------------------------------------------------------------------------------------------------
# SIG-ALL-MODULES (C10): module existence is decided by key presence in the global signature ("Cannot resolve module" when
# the key is absent). The incremental path stores a signature for every module it parses (UPDATE-ORDER pairing); the
# from-scratch path must do the same for every module of the sources map, so the map it returns is built from an iteration
# over *all* sources through element-preserving adapters only (map / collect / chain), never through a filtering one.

FILTERING = ('filter', 'filter_map', 'skip', 'take', 'skip_while', 'take_while', 'step_by', 'flat_map', 'find', 'find_map',
             'filter_map_ok', 'dedup', 'unique', 'take_any', 'skip_any', 'positions')


def run_sig_all(prog, tier, repo):
    from ..cfg import single_def
    res = RuleResult('SIG-ALL-MODULES', 'C10: the from-scratch analysis stores a signature for every module of the sources map (no '
                     'filtering between iterating the sources and collecting the signature map), as the incremental path does')
    n = 0
    for b in prog.bodies.values():
        if b.crate != 'samlang_checker' or b.kind == 'closure' or not b.pub or b.nargs < 1:
            continue
        r0, p1 = b.locals[0], b.locals[1]
        if not (r0.k == 'adt' and r0.name.startswith('std::collections::HashMap') and 'ModuleSignature' in r0.s
                and p1.k == 'ref' and 'HashMap' in p1.s and 'Module<' in p1.s):
            continue
        n += 1
        key = f'sig-all:{b.name}'
        # trace the returned map back through its producing calls
        cur = 0
        chain = []
        problem = None
        reached = False
        for _ in range(20):
            sd = single_def(b, cur)
            if not sd:
                problem = 'the returned map cannot be traced to an iteration over the sources'
                break
            if sd[1] != 'term':
                rv = sd[2]
                if rv[0] == 'use' and rv[1][0] in ('c', 'm') and not rv[1][1].proj:
                    cur = rv[1][1].local
                    continue
                if rv[0] == 'ref' and rv[2].local == 1:
                    reached = True
                    break
                problem = 'the returned map cannot be traced to an iteration over the sources'
                break
            t = sd[2]
            short = (callee(t)[1] or '').split('::')[-1]
            if short in ('new', 'with_capacity', 'default', 'with_capacity_and_hasher', 'with_hasher'):
                # an empty map filled afterwards: follow what it is extended with
                ext = [bl2.term for bl2 in b.blocks if not bl2.cleanup and bl2.term[0] == 'call' and len(bl2.term[3]) >= 2
                       and (callee(bl2.term)[1] or '').split('::')[-1] == 'extend' and operand_root(b, bl2.term[3][0])[0] == cur]
                if len(ext) == 1 and ext[0][3][1][0] in ('c', 'm'):
                    chain.append(('extend', ext[0][7]))
                    cur = operand_root(b, ext[0][3][1])[0]
                    continue
            chain.append((short, t[7]))
            if short in FILTERING:
                problem = f'`{short}` (line {t[7]}) drops modules before their signatures are collected'
                break
            if not t[3] or t[3][0][0] not in ('c', 'm'):
                problem = 'the returned map cannot be traced to an iteration over the sources'
                break
            r, _ = operand_root(b, t[3][0])
            if r == 1:
                reached = True
                break
            cur = t[3][0][1].local
        if problem is None and not reached:
            problem = 'the returned map cannot be traced to an iteration over the sources'
        if problem:
            res.violation(key, b.loc(), f'{b.name}: {problem}: a module without a signature entry is reported as unresolvable by the '
                          f'from-scratch analysis while the incremental path (which always stores an entry) accepts imports of it')
        else:
            res.ok(key, b.loc(), 'signature map = ' + ' <- '.join(c for c, _ in chain) + ' over all sources')
    res.floor('from-scratch signature builders', n, 1)
    return [res]


# ---------------------------------------------------------------------------------------------------------------------
# AFFECTED-CLOSURE (C10): the set of modules rechecked after a change. `recheck` replaces the stored diagnostics of every
# module in the set by what that round produced for it, and checking a module can produce diagnostics located in a module it
# imports. The set therefore has to contain (a) every module that transitively imports a changed module - they see the changed
# signatures - and (b) every module that one of those transitively imports - their stored diagnostics are rewritten by the round.
# In terms of the dependency graph: affected = closure over the import edges of (closure over the imported-by edges of the dirty
# set). The rule follows the value returned by the graph's query back through the two closure calls.

def run_affected_closure(prog, tier, repo):
    from ..facts import strip_refs
    res = RuleResult('AFFECTED-CLOSURE', 'C10: the recheck set is the import closure of the importer closure of the changed modules '
                     '(forward over reverse, both transitive)')
    mod = 'samlang_services::dep_graph::'
    bodies = [b for b in prog.bodies.values() if b.name.startswith(mod) and '::tests' not in b.name and b.kind != 'closure']
    dg = [a for a in prog.adts.values() if a.name == 'samlang_services::dep_graph::DependencyGraph']
    if len(dg) != 1:
        res.cannot_decide('samlang_services::dep_graph::DependencyGraph')
        return [res]
    dg = dg[0]
    map_fields = [f.name for f in dg.variants[0].fields if 'HashMap' in f.ty.s and 'HashSet' in f.ty.s]
    if len(map_fields) != 2:
        res.cannot_decide(f'the two edge maps of DependencyGraph (found {map_fields})')
        return [res]

    def is_set(t):
        t = strip_refs(t)
        return t.k == 'adt' and t.name.startswith('std::collections::HashSet') and 'ModuleReference' in t.s
    # the closure function: (&edge map, seed set) -> set, with a loop
    closure_fns = {b.id for b in bodies if b.nargs == 2 and 'HashMap' in strip_refs(b.locals[1]).s and is_set(b.locals[2])
                   and is_set(b.locals[0]) and cfg_of(b).back_edges()}
    query = [b for b in bodies if b.self_ty is not None and strip_refs(b.self_ty).k == 'adt' and strip_refs(b.self_ty).id == dg.id
             and b.nargs == 2 and is_set(b.locals[2]) and is_set(b.locals[0])]
    if len(query) != 1:
        res.cannot_decide(f'the affected-set query of the dependency graph (found {len(query)})')
        return [res]
    if len(closure_fns) != 1:
        # the closure is computed in another shape (a method parameterised by a direction, an inline worklist): the composition
        # cannot be read off two calls; not decided rather than reported
        # (no instance is recorded under the obligation's key: an undecided view must not count as a clean second opinion)
        res.analysed['decided'] = False
        res.analysed['undecided_because'] = f'no single closure function over an edge map ({len(closure_fns)} found)'
        return [res]
    q = query[0]
    # which map holds the imported-by edges: the one `new` fills under the key `import.imported_module`
    reverse = None
    for b in bodies:
        if not (strip_refs(b.locals[0]).k == 'adt' and strip_refs(b.locals[0]).id == dg.id):
            continue
        for bl in b.blocks:
            t = bl.term
            if bl.cleanup or t[0] != 'call' or len(t[3]) < 2 or (callee(t)[1] or '').split('::')[-1] not in ('insert', 'get_mut', 'entry'):
                continue
            r0, p0 = operand_root(b, t[3][0])
            f0 = [e[4] for e in p0 if e[0] == 'f' and e[4] in map_fields]
            r1, p1 = operand_root(b, t[3][1])
            if f0 and any(e[0] == 'f' and e[4] == 'imported_module' for e in tuple(p1) + (tuple(t[3][1][1].proj) if t[3][1][0] in ('c', 'm') else ())):
                reverse = f0[-1]
    if reverse is None:
        # built in locals and moved into the struct afterwards: fall back to what the fields are called
        named = [f for f in map_fields if any(w in f.lower() for w in ('rev', 'imported_by', 'importer', 'dependent'))]
        if len(named) == 1:
            reverse = named[0]
    if reverse is None:
        res.analysed['decided'] = False
        res.analysed['undecided_because'] = 'cannot tell which edge map holds the imported-by edges'
        return [res]
    forward = [f for f in map_fields if f != reverse][0]

    def closure_call(local):
        """(edge map field, seed local) if `local` is the result of the closure function"""
        r, _ = root_local(q, local)
        sd = single_def(q, r)
        if not (sd and sd[1] == 'term' and callee(sd[2])[0] in closure_fns and len(sd[2][3]) == 2):
            return None
        t = sd[2]
        _r0, p0 = operand_root(q, t[3][0])
        f0 = [e[4] for e in p0 if e[0] == 'f' and e[4] in map_fields]
        seed = t[3][1][1].local if t[3][1][0] in ('c', 'm') else None
        return (f0[-1] if f0 else None, seed, t[7])
    outer = closure_call(0)
    key = f'query:{q.name}'
    if outer is None:
        res.violation(key, q.loc(), f'{q.name} does not return the result of the closure function: the recheck set is not closed under '
                      f'the import edges, so stored diagnostics of a dependency of a rechecked module are overwritten by a round that did '
                      f'not check that dependency')
        return [res]
    inner = closure_call(outer[1]) if outer[1] is not None else None
    problems = []
    if outer[0] != forward:
        problems.append(f'the outer closure runs over `{outer[0]}`, not over the import edges `{forward}`')
    if inner is None:
        problems.append('the seed of the outer closure is not itself a closure: importers of importers of a changed module are not rechecked')
    else:
        if inner[0] != reverse:
            problems.append(f'the inner closure runs over `{inner[0]}`, not over the imported-by edges `{reverse}`')
        r_seed, _ = root_local(q, inner[1]) if inner[1] is not None else (None, ())
        sdc = single_def(q, r_seed) if r_seed is not None else None
        if sdc and sdc[1] == 'term' and (callee(sdc[2])[1] or '').split('::')[-1] == 'clone' and sdc[2][3] and sdc[2][3][0][0] in ('c', 'm'):
            r_seed, _ = root_local(q, sdc[2][3][0][1].local)
        if r_seed != 2:
            problems.append('the inner closure does not start from the set of changed modules')
    if problems:
        res.violation(key, q.loc(outer[2]), f'{q.name}: ' + '; '.join(problems) + ' - after an edit some module whose diagnostics can change '
                      f'(a transitive importer, or a module whose stored diagnostics the round rewrites) is left with stale diagnostics')
    else:
        res.ok(key, q.loc(outer[2]), f'closure over `{forward}` of the closure over `{reverse}` of the changed set')
    return [res]
