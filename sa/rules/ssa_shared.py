"""SSA-SHARED (C15): go-to-definition, find-references and rename obtain definition/use sets only from the
checker's own scope analysis - no second scope resolver exists in the services crate (DESIGN.md §3.12)."""
from ..core import RuleResult, field_reads
from ..facts import callee
from ..cfg import single_def
from ..dataflow import operand_root
from ..callgraph import body_refs

SSA = 'samlang_checker::ssa_analysis::SsaAnalysisResult'


def run(prog, tier, repo):
    res = RuleResult('SSA-SHARED', 'C15: navigation and rename agree with the checker\'s scoping because they use the checker\'s own '
                     'definition/use maps')
    ssa = [a for a in prog.adts.values() if a.name == SSA]
    if len(ssa) != 1:
        res.cannot_decide('the checker\'s SsaAnalysisResult type')
        return [res]
    ssa = ssa[0]
    services = [b for b in prog.bodies.values() if b.crate == 'samlang_services']
    # D: the (definition, uses) record of the services crate: a struct with a Location and a Vec<Location>
    D = [a for a in prog.adts.values() if a.crate == 'samlang_services' and a.kind == 'struct'
         and sorted(f.ty.s for f in a.variants[0].fields) == sorted(['samlang_ast::Location', 'std::vec::Vec<samlang_ast::Location>'])]
    if len(D) != 1:
        res.cannot_decide(f'the definition-and-uses record of samlang_services (found {len(D)})')
        return [res]
    D = D[0]
    producers = [b for b in prog.bodies.values() if any(bl.term[0] == 'call' and (callee(bl.term)[1] or '').endswith('perform_ssa_analysis_on_module')
                                                       for bl in b.blocks) and b.crate == 'samlang_services']
    n = 0
    for b in services:
        for bi, bl in enumerate(b.blocks):
            if bl.cleanup:
                continue
            for st in bl.stmts:
                if st[0] == 'a' and st[2][0] == 'agg' and st[2][1][0] == 'adt':
                    if st[2][1][1] == ssa.id:
                        res.violation(f'ssa-forged:{b.name}', b.loc(st[3]), f'{b.name} builds a scope-analysis result by hand instead of '
                                      f'obtaining it from the checker')
                    if st[2][1][1] == D.id:
                        n += 1
                        reads = {s for s in field_reads(b) if s[0] == ssa.id}
                        key = f'def-use-source:{b.name}'
                        if reads:
                            res.ok(key, b.loc(st[3]), f'definition/use record built from {len(reads)} field(s) of the checker\'s SsaAnalysisResult')
                        else:
                            res.violation(key, b.loc(st[3]), f'{b.name} builds a definition/uses record without reading the checker\'s '
                                          f'scope-analysis maps: navigation can disagree with the checker\'s resolution')
    res.floor('definition/use record constructions', n, 1)
    if len(producers) >= 1:
        for pfn in producers:
            res.ok(f'ssa-producer:{pfn.name}', pfn.loc(), 'scope analysis obtained from samlang_checker::perform_ssa_analysis_on_module')
    else:
        res.cannot_decide('no call to perform_ssa_analysis_on_module in samlang_services')
    # the request API reaches the producer: every services function that consumes D comes through it
    consumers = [b for b in services if any(t.k == 'adt' and t.id == D.id for t in b.locals) and b.kind != 'closure']
    res.analysed['consumers'] = sorted(b.name for b in consumers)
    return [res]


# ---------------------------------------------------------------------------------------------------------------------
# NAV-VIA-SSA (C15): a navigation query that resolves local names through the checker's SSA result (it calls
# find_all_definition_and_uses) does so for *every* local-name hit of the cursor search. An arm that answers a TypedName hit
# without the lookup substitutes its own notion of "binding occurrence" for the checker's (an identifier in a later
# alternative of an or-pattern is a use, not a binding) and go-to-definition then disagrees with find-references and rename.

def run_nav_via_ssa(prog, tier, repo):
    from ..tables import enum_switches
    from ..cfg import cfg_of
    from ..facts import callee
    res = RuleResult('NAV-VIA-SSA', 'C15: in every service query that resolves local names through the SSA result, each path that '
                     'handles a local-name hit of the cursor search passes through the SSA definition/uses lookup')
    adt = [a for a in prog.adts.values() if a.name.endswith('location_cover::LocationCoverSearchResult')]
    if len(adt) != 1:
        res.cannot_decide('location_cover::LocationCoverSearchResult')
        return [res]
    adt = adt[0]
    tn = [i for i, v in enumerate(adt.variants) if v.name == 'TypedName']
    if not tn:
        res.cannot_decide('the local-name variant of the cursor search result')
        return [res]
    tn = tn[0]
    n = 0
    # small service functions that wrap the lookup count as the lookup
    wrappers = {b.id for b in prog.bodies.values() if b.crate == 'samlang_services' and b.kind != 'closure' and len(b.blocks) <= 40
                and any(not bl.cleanup and bl.term[0] == 'call' and (callee(bl.term)[1] or '').endswith('find_all_definition_and_uses')
                        for bl in b.blocks)}
    for b in prog.bodies.values():
        if b.crate != 'samlang_services' or b.kind == 'closure':
            continue
        lookups = [bi for bi, bl in enumerate(b.blocks) if not bl.cleanup and bl.term[0] == 'call'
                   and ((callee(bl.term)[1] or '').endswith('find_all_definition_and_uses')
                        or (callee(bl.term)[0] in wrappers and callee(bl.term)[0] != b.id))]
        if not lookups:
            continue
        cfg = cfg_of(b)
        for tb in enum_switches(prog, b, adt.id):
            if tn not in tb.arms:
                continue
            n += 1
            key = f'nav:{b.name}'
            if cfg.nodes_postdominate(lookups, tb.arms[tn]):
                res.ok(key, b.loc(b.blocks[tb.bb].term[4]), 'every path of the local-name arm reaches find_all_definition_and_uses')
            else:
                res.violation(key, b.loc(b.blocks[tb.bb].term[4]), f'{b.name} answers a local-name hit on some path without consulting '
                              f'find_all_definition_and_uses: that path decides by itself what the name resolves to, which differs '
                              f'from the checker\'s scoping for e.g. identifiers in later alternatives of an or-pattern')
    res.floor('navigation queries with a local-name arm', n, 3)
    return [res]


# ---------------------------------------------------------------------------------------------------------------------
# IDENT-ALPHABET (C15): the lexer's identifier alphabet is ASCII (`[a-z][A-Za-z0-9]*`). The rename entry point promises a
# document that parses, so the new name may only be validated with ASCII character classes; a Unicode class
# (`char::is_alphanumeric`, `is_alphabetic`, `is_lowercase`, ...) accepts letters and digits the lexer rejects.

UNICODE_CLASSES = ('is_alphanumeric', 'is_alphabetic', 'is_lowercase', 'is_uppercase', 'is_numeric', 'is_control')


def run_ident_alphabet(prog, tier, repo):
    from ..callgraph import iter_operands_rvalue
    res = RuleResult('IDENT-ALPHABET', 'C15: the rename entry point validates the new name with ASCII character classes only (the '
                     'lexer\'s identifier alphabet), never with Unicode classes')
    n_ascii = 0
    for b in prog.bodies.values():
        if b.crate != 'samlang_services' or '::rewrite::' not in b.name + '::':
            continue
        names = []
        for bl in b.blocks:
            if bl.cleanup:
                continue
            for st in bl.stmts:
                if st[0] == 'a':
                    for o in iter_operands_rvalue(st[2]):
                        if o[0] == 'k' and o[1].fn is not None:
                            names.append((o[1].fn[1], st[3]))
            t = bl.term
            if t[0] == 'call':
                names.append((callee(t)[1] or '', t[7]))
                for o in t[3]:
                    if o[0] == 'k' and o[1].fn is not None:
                        names.append((o[1].fn[1], t[7]))
        for nm, line in names:
            if '<impl char>' not in nm and 'char::' not in nm:
                continue
            short = nm.split('::')[-1]
            if short.startswith('is_ascii_'):
                n_ascii += 1
                res.ok(f'alphabet:{b.name}:{short}', b.loc(line), 'ASCII character class')
            elif short in UNICODE_CLASSES and _reads_name_back(prog, b):
                res.ok(f'alphabet:{b.name}:{short}', b.loc(line), 'Unicode class, but the name is read back by the parser before it is '
                       'used: the lexer\'s own alphabet decides')
            elif short in UNICODE_CLASSES:
                res.violation(f'alphabet:{b.name}:{short}', b.loc(line), f'{b.name} validates an identifier with the Unicode class '
                              f'`char::{short}`: names such as `naïve` or `x٣` pass the check, but the lexer only accepts '
                              f'[A-Za-z0-9], so the renamed document does not parse and cannot be renamed back')
    # ... and with the parser's own notion of a name: the alphabet also spells every keyword. The entry point that applies a
    # renaming hands the new name to the parser first, on every path to the application.
    from ..cfg import cfg_of
    n_entry = 0
    for b in sorted(prog.bodies.values(), key=lambda x: x.name):
        if b.crate != 'samlang_services' or '::rewrite::' not in b.name + '::' or b.kind == 'closure':
            continue
        applies = [bi for bi, bl in enumerate(b.blocks) if not bl.cleanup and bl.term[0] == 'call'
                   and (callee(bl.term)[1] or '').endswith('variable_definition::apply_renaming')]
        if not applies:
            continue
        n_entry += 1
        strs = [i for i in range(1, b.nargs + 1) if b.locals[i].s in ('&str', '&std::string::String')]
        parses = []
        for bi, bl in enumerate(b.blocks):
            t = bl.term
            if bl.cleanup or t[0] != 'call' or not (callee(t)[1] or '').startswith('samlang_parser::'):
                continue
            for o in t[3]:
                if o[0] not in ('c', 'm'):
                    continue
                cur, ok = o, False
                for _ in range(5):
                    r, _p = operand_root(b, cur)
                    if r in strs:
                        ok = True
                        break
                    sd = single_def(b, r) if r is not None else None
                    if sd and sd[1] == 'term' and sd[2][3] and (callee(sd[2])[1] or '').split('::')[-1] in ('trim', 'trim_start', 'trim_end', 'as_str', 'deref', 'as_ref'):
                        cur = sd[2][3][0]
                        continue
                    break
                if ok:
                    parses.append(bi)
        cfg = cfg_of(b)
        key = f'keyword-gate:{b.name}'
        implied = _bool_implied_edges(b, cfg, parses) if parses else []
        if parses and all(cfg.nodes_dominate(parses, a) or (implied and cfg.edges_dominate(implied, a)) for a in applies):
            res.ok(key, b.loc(), 'the new name is read back by the parser before the renaming is applied')
        else:
            res.violation(key, b.loc(b.blocks[applies[0]].term[7]), f'{b.name} applies a renaming without having the parser read the new '
                          f'name back: every keyword (`match`, `if`, `let`, ...) passes the alphabet test, and the renamed document '
                          f'then does not parse')
    res.floor('ASCII class tests in the rename entry point', n_ascii, 2)
    res.floor('rename entry points', n_entry, 1)
    return [res]


def _reads_name_back(prog, b):
    """the function hands a string parameter (or a trimmed view of it) to the parser before any call that applies a renaming"""
    from .. import cfg as _cfg
    applies = [bi for bi, bl in enumerate(b.blocks) if not bl.cleanup and bl.term[0] == 'call'
               and (callee(bl.term)[1] or '').endswith('variable_definition::apply_renaming')]
    strs = [i for i in range(1, b.nargs + 1) if b.locals[i].s in ('&str', '&std::string::String')]
    parses = []
    for bi, bl in enumerate(b.blocks):
        t = bl.term
        if bl.cleanup or t[0] != 'call' or not (callee(t)[1] or '').startswith('samlang_parser::'):
            continue
        for o in t[3]:
            if o[0] not in ('c', 'm'):
                continue
            cur = o
            for _ in range(5):
                r, _p = operand_root(b, cur)
                if r in strs:
                    parses.append(bi)
                    break
                sd = single_def(b, r) if r is not None else None
                if sd and sd[1] == 'term' and sd[2][3] and (callee(sd[2])[1] or '').split('::')[-1] in ('trim', 'trim_start', 'trim_end', 'as_str', 'deref', 'as_ref'):
                    cur = sd[2][3][0]
                    continue
                break
    if not applies or not parses:
        return False
    g = _cfg.cfg_of(b)
    implied = _bool_implied_edges(b, g, parses)
    return all(g.nodes_dominate(parses, a) or (implied and g.edges_dominate(implied, a)) for a in applies)


def _bool_implied_edges(b, cfg, blocks):
    """Edges of switches on a boolean local whose value can only be that of the edge if control passed through `blocks`: every
    assignment to the local that may produce the edge's value is dominated by them (`fn valid(..) -> bool { if !shape { return
    false } parse..; ok }` inlined into `if !valid(..) { return None }`)."""
    from ..cfg import def_sites
    defs = def_sites(b)
    out = []

    def origin_defs(l, depth=0, seen=None):
        seen = seen if seen is not None else set()
        if l in seen or depth > 6:
            return None
        seen.add(l)
        res_ = []
        for d in defs.get(l, []):
            if b.blocks[d[0]].cleanup:
                continue
            if d[1] != 'term' and d[2][0] == 'use' and d[2][1][0] in ('c', 'm') and not d[2][1][1].proj:
                sub = origin_defs(d[2][1][1].local, depth + 1, seen)
                if sub is None:
                    return None
                res_ += sub
            elif d[1] != 'term' and d[2][0] == 'un' and d[2][1] == 'Not':
                return None       # negations flip the meaning: keep it simple, do not look through them
            else:
                res_.append(d)
        return res_
    for bi, bl in enumerate(b.blocks):
        t = bl.term
        if bl.cleanup or t[0] != 'switch' or t[1][0] not in ('c', 'm') or t[1][1].proj or b.locals[t[1][1].local].s != 'bool':
            continue
        ds = origin_defs(t[1][1].local)
        if not ds or len(ds) < 2:
            continue
        for want, edges in ((1, [(bi, t[3])] + [(bi, tg) for v, tg in t[2] if v != 0]), (0, [(bi, tg) for v, tg in t[2] if v == 0])):
            may = []
            for d in ds:
                if d[1] != 'term' and d[2][0] == 'use' and d[2][1][0] == 'k' and d[2][1][1].i is not None:
                    if (1 if d[2][1][1].i else 0) == want:
                        may.append(d[0])
                else:
                    may.append(d[0])
            if may and all(cfg.nodes_dominate(blocks, x) for x in may):
                out += edges
    return out
