"""REL-FIELDS (C06, C03): binary relations over checker types compare every identity-bearing field.

A function of the type checker that takes two values of the same samlang type and reads fields of a payload struct S from
*both* of them is deciding a relation between two S values (same type / assignable / meet / subtype). Every field of S
other than source-location metadata (`Reason`) takes part in the identity of the type, so such a function must read each
of them from both sides; a relation that skips one identifies types that differ in it (e.g. the class-statics type
`class Foo` with the instance type `Foo`), and the checker then accepts programs the back end cannot lower."""
from ..core import RuleResult, places_read
from ..cfg import single_def
from ..dataflow import root_local
from ..facts import strip_refs, callee

EXEMPT = {
    # (function id, struct, field): reason
    ('samlang_checker::type_system::solve_type_constraints_internal', 'NominalType', 'is_class_statics'):
        'inference only: the solved substitution is validated afterwards by assignability / bound checks, which compare the field',
}


def _resolve(b, pl, depth=0):
    """(parameter local or None, field path) of a place, looking through references, copies and tuple scrutinees"""
    loc, path = root_local(b, pl.local)
    path = tuple(path) + tuple(e for e in pl.proj if e[0] in ('f', 't', 'v'))
    while depth < 8 and not (1 <= loc <= b.nargs):
        depth += 1
        sd = single_def(b, loc)
        if sd and sd[1] != 'term' and sd[2][0] == 'agg' and sd[2][1][0] == 'tuple' and path and path[0][0] in ('t', 'f'):
            idx = path[0][1]
            if idx >= len(sd[2][2]):
                return None, path
            o = sd[2][2][idx]
            if o[0] not in ('c', 'm'):
                return None, path
            l2, p2 = root_local(b, o[1].local)
            path = tuple(p2) + tuple(e for e in o[1].proj if e[0] in ('f', 't', 'v')) + path[1:]
            loc = l2
        else:
            return None, path
    return loc, path


def _reads_with_delegates(prog, b, depth):
    """parameter -> {(adt, variant): {field: line}} read through that parameter, in b itself and in the checker functions b
    hands (parts of) the parameter to (a guard factored out into a helper still compares the fields for its caller)"""
    reads = {}
    for pl, bi, line in places_read(b):
        loc, path = _resolve(b, pl)
        if loc is None:
            continue
        for e in path:
            if e[0] == 'f':
                reads.setdefault(loc, {}).setdefault((e[1], e[2]), {})[e[3]] = line
    if depth >= 2:
        return reads
    for bl in b.blocks:
        t = bl.term
        if bl.cleanup or t[0] != 'call':
            continue
        cid = callee(t)[0]
        g = prog.bodies.get(cid) if cid else None
        if g is None or g.crate != b.crate or g.id == b.id or g.kind == 'closure':
            continue
        # only a helper that is handed (parts of) two different parameters compares them on the caller's behalf; a unary
        # accessor called on each operand in turn (to_description, get_reason) compares nothing
        passed = []
        for k, o in enumerate(t[3]):
            if o[0] not in ('c', 'm'):
                continue
            loc, _path = _resolve(b, o[1])
            if loc is not None:
                passed.append((k, loc))
        if len({loc for _, loc in passed}) < 2:
            continue
        greads = _reads_with_delegates(prog, g, depth + 1)
        for k, loc in passed:
            for key, fields in greads.get(k + 1, {}).items():
                for fi in fields:
                    reads.setdefault(loc, {}).setdefault(key, {}).setdefault(fi, t[7])
    return reads


def run(prog, tier, repo):
    res = RuleResult('REL-FIELDS', 'C06: a checker function relating two values of one type reads every identity field (all but '
                     'Reason metadata) of each payload struct it compares, from both sides')
    n_rel = 0
    for b in prog.bodies.values():
        if b.crate != 'samlang_checker' or b.kind == 'closure':
            continue
        tys = [strip_refs(b.locals[i]) for i in range(1, b.nargs + 1)]
        pairs = [(i + 1, j + 1) for i in range(len(tys)) for j in range(i + 1, len(tys))
                 if tys[i].k == 'adt' and tys[j].k == 'adt' and tys[i].id == tys[j].id and tys[i].id.startswith('samlang_checker::type_')]
        if not pairs:
            continue
        own = _reads_with_delegates(prog, b, 2)       # depth 2 = no delegation: the function's own MIR only
        reads = _reads_with_delegates(prog, b, 0)
        # a helper that compares part of the payload for a caller that compares the rest: credit the direct callers' own reads
        for c in prog.bodies.values():
            if c.crate != b.crate or c.id == b.id:
                continue
            for bl in c.blocks:
                t = bl.term
                if bl.cleanup or t[0] != 'call' or callee(t)[0] != b.id:
                    continue
                cown = None
                for k, o in enumerate(t[3]):
                    if o[0] not in ('c', 'm'):
                        continue
                    loc, _path = _resolve(c, o[1])
                    if loc is None:
                        continue
                    if cown is None:
                        cown = _reads_with_delegates(prog, c, 2)
                    for key2, fields in cown.get(loc, {}).items():
                        for fi in fields:
                            reads.setdefault(k + 1, {}).setdefault(key2, {}).setdefault(fi, t[7])
        for (i, j) in pairs:
            ra, rb = reads.get(i, {}), reads.get(j, {})
            oa, ob = own.get(i, {}), own.get(j, {})
            for (adt_id, var) in sorted(set(oa) & set(ob)):
                adt = prog.adts.get(adt_id)
                if adt is None or var >= len(adt.variants):
                    continue
                fields = adt.variants[var].fields
                ident = [k for k, f in enumerate(fields) if not (f.ty.k == 'adt' and f.ty.id.endswith('::Reason'))]
                if not (set(oa[(adt_id, var)]) & set(ob[(adt_id, var)]) & set(ident)):
                    continue        # the function itself does not compare this payload
                both = set(ra.get((adt_id, var), {})) & set(rb.get((adt_id, var), {})) & set(ident)
                n_rel += 1
                sname = adt.name.split('::')[-1] + (f'::{adt.variants[var].name}' if adt.kind == 'enum' else '')
                for k in ident:
                    fname = fields[k].name
                    key = f'{b.id}:{sname}.{fname}'
                    if k in both:
                        res.ok(key, b.loc(ra[(adt_id, var)][k]), f'{sname}.{fname} read from both operands (here, in a helper, or in the caller)')
                    elif (b.id, adt.name.split('::')[-1], fname) in EXEMPT:
                        res.ok(key, b.loc(), 'exempt: ' + EXEMPT[(b.id, adt.name.split('::')[-1], fname)])
                    else:
                        side = 'neither operand' if k not in ra.get((adt_id, var), {}) and k not in rb.get((adt_id, var), {}) else 'only one operand'
                        res.violation(key, b.loc(), f'{b.name} relates two {sname} values (it compares ' +
                                      ', '.join(sorted(fields[x].name for x in both)) + f') but reads `{fname}` from {side}: two types '
                                      f'that differ only in `{fname}` are treated as the same type')
    res.floor('payload relations', n_rel, 20)
    return [res]


# ---------------------------------------------------------------------------------------------------------------------
# REL-FIELDS, pairwise form: the relation does not have to be between two *parameters*. Wherever a checker function compares
# the same field of two different values of one payload struct with `==` (e.g. the declared upper bound of a type and a
# required bound), it is relating those two values and must look at every identity field of the struct on both of them.

def run_pairwise(prog, tier, repo):
    from ..dataflow import operand_root
    res = RuleResult('REL-FIELDS-PAIR', 'C06: a checker function that compares one identity field of two values of a payload struct '
                     'with `==` reads every identity field of that struct from both values')
    n = 0
    for b in sorted(prog.bodies.values(), key=lambda x: x.name):
        if b.crate != 'samlang_checker' or '::tests' in b.name:
            continue
        pairs = {}
        for bl in b.blocks:
            t = bl.term
            if bl.cleanup or t[0] != 'call' or len(t[3]) != 2:
                continue
            nm = callee(t)[1] or ''
            if not nm.endswith(('PartialEq>::eq', 'PartialEq>::ne', 'PartialEq::eq', 'PartialEq::ne')):
                continue
            ends = []
            for o in t[3]:
                if o[0] not in ('c', 'm'):
                    ends.append(None)
                    continue
                r, p = operand_root(b, o)
                fs = [e for e in p if e[0] == 'f']
                if r is None or not fs:
                    ends.append(None)
                    continue
                last = fs[-1]
                prefix = tuple((e[1], e[2], e[3]) for e in fs[:-1])
                ends.append(((r, prefix), (last[1], last[2]), last[3], t[7]))
            if ends[0] is None or ends[1] is None:
                continue
            (ra, sa, fa, line), (rb, sb, fb, _) = ends
            if sa != sb or fa != fb or ra == rb:
                continue
            adt = prog.adts.get(sa[0])
            if adt is None or not adt.name.startswith('samlang_checker::type_') or adt.kind != 'struct':
                continue
            key = (tuple(sorted([ra, rb], key=str)), sa)
            pairs.setdefault(key, {'roots': (ra, rb), 'cmp': set(), 'line': line})['cmp'].add(fa)
        if not pairs:
            continue
        # all field reads per (root, prefix)
        reads = {}
        for pl, bi, line in places_read(b):
            r, p0 = root_local(b, pl.local)
            full = tuple(p0) + tuple(e for e in pl.proj if e[0] in ('f', 't', 'v'))
            fs = [e for e in full if e[0] == 'f']
            for k, e in enumerate(fs):
                prefix = tuple((x[1], x[2], x[3]) for x in fs[:k])
                reads.setdefault(((r, prefix), (e[1], e[2])), set()).add(e[3])
        for (rs, sa), info in pairs.items():
            adt = prog.adts[sa[0]]
            fields = adt.variants[sa[1]].fields
            ident = [k for k, f in enumerate(fields) if not (f.ty.k == 'adt' and f.ty.id.endswith('::Reason'))]
            if not (info['cmp'] & set(ident)):
                continue
            n += 1
            ra, rb = info['roots']
            sname = adt.name.split('::')[-1]
            for k in ident:
                fname = fields[k].name
                base = f'{b.id}:{sname}.{fname}:pair'
                dup = sum(1 for i in res.instances if i.key == base or i.key.startswith(base + '#'))
                key = base if dup == 0 else f'{base}#{dup + 1}'
                ina = k in reads.get((ra, sa), set())
                inb = k in reads.get((rb, sa), set())
                if ina and inb:
                    res.ok(key, b.loc(info['line']), f'{sname}.{fname} read from both compared values')
                elif (b.id, sname, fname) in EXEMPT:
                    res.ok(key, b.loc(info['line']), 'exempt: ' + EXEMPT[(b.id, sname, fname)])
                else:
                    res.violation(key, b.loc(info['line']), f'{b.name} compares ' + ', '.join(sorted(fields[x].name for x in info['cmp'])) +
                                  f' of two {sname} values with `==` but reads `{fname}` from ' +
                                  ('neither' if not ina and not inb else 'only one') + ' of them: values that differ only in '
                                  f'`{fname}` (e.g. two instantiations of one generic interface) are treated as the same type')
    res.analysed['pairwise_comparisons'] = n
    return [res]
