"""TYPE-WALKER: structural recursions over a recursive type visit every child position.

For a recursive samlang type R (the checker's Type, source annotations, the IR types), the *child slots* are the fields -
in R's variants and in the payload structs reachable from them - through which another R can be reached. A function that
takes an R, calls itself, and reads at least 60 % of the child slots (itself, in its closures, or in the non-recursive
helpers it calls directly) is a structural recursion over R: it must read all of them. A skipped child position means that
whatever the walker validates, substitutes or collects is silently not done for types nested there (e.g. the return type of
a function type)."""
from ..core import RuleResult, field_reads
from ..callgraph import body_refs

ROOTS = ['samlang_checker::type_::Type', 'samlang_ast::source::annotation::T', 'samlang_ast::hir::Type', 'samlang_ast::lir::Type']
WRAPPERS = ('std::vec::Vec', 'std::option::Option', 'std::boxed::Box', 'std::sync::Arc', 'std::rc::Rc')
EXEMPT = {}


def _peel(t):
    while t.k in ('ref', 'ptr', 'slice', 'arr') or (t.k == 'adt' and t.name.split('<')[0] in WRAPPERS and t.args):
        t = t.args[0]
    return t


class Slots:
    def __init__(self, prog):
        self.p = prog
        self._reach = {}

    def adts_in(self, t, acc):
        if t.k == 'adt' and t.id in self.p.adts and t.id.startswith('samlang'):
            acc.add(t.id)
        for x in t.args:
            self.adts_in(x, acc)
        return acc

    def reaches(self, aid, rid, stack=()):
        if aid == rid:
            return True
        if (aid, rid) in self._reach:
            return self._reach[(aid, rid)]
        if aid in stack:
            return False
        self._reach[(aid, rid)] = False
        r = False
        for v in self.p.adts[aid].variants:
            for f in v.fields:
                for x in self.adts_in(f.ty, set()):
                    if self.reaches(x, rid, stack + (aid,)):
                        r = True
        self._reach[(aid, rid)] = r
        return r

    def child_slots(self, R):
        slots = {}
        seen = set()

        def visit(adt):
            if adt.id in seen:
                return
            seen.add(adt.id)
            for vi, v in enumerate(adt.variants):
                for fi, f in enumerate(v.fields):
                    inner = self.adts_in(f.ty, set())
                    if any(self.reaches(x, R.id) for x in inner):
                        slots[(adt.id, vi, fi)] = (adt.name.split('::')[-1], v.name, f.name)
                        for x in inner:
                            if x != R.id and self.reaches(x, R.id):
                                visit(self.p.adts[x])
        visit(R)
        return slots


def run(prog, tier, repo, crates=None):
    res = RuleResult('TYPE-WALKER', 'every structural recursion over a recursive type (checker types, annotations, IR types) reads '
                     'every child position of the type')
    sl = Slots(prog)
    n_walkers = 0
    _reach = {}

    def reach_of(i):
        if i in _reach:
            return _reach[i]
        seen = set()
        st = [i]
        while st:
            x = st.pop()
            bb = prog.bodies.get(x)
            if bb is None:
                continue
            for r in body_refs(bb):
                if r not in seen:
                    seen.add(r)
                    st.append(r)
        _reach[i] = seen
        return seen
    for rn in ROOTS:
        R = [a for a in prog.adts.values() if a.name == rn]
        if len(R) != 1:
            res.cannot_decide(f'recursive type {rn}')
            continue
        R = R[0]
        slots = sl.child_slots(R)
        if len(slots) < 2:
            res.cannot_decide(f'child slots of {rn} (found {len(slots)})')
            continue
        cands = {}
        for b in prog.bodies.values():
            if b.kind == 'closure' or not b.crate.startswith('samlang'):
                continue
            if not any(_peel(b.locals[i]).k == 'adt' and _peel(b.locals[i]).id == R.id for i in range(1, b.nargs + 1)):
                continue
            own = [b] + [prog.bodies[c] for c in prog.closures_of.get(b.id, [])]
            if not any(b.id in body_refs(x) for x in own):
                continue
            cands[b.id] = (b, own)
        for bid, (b, own) in sorted(cands.items()):
            reads = {}
            for x in own:
                for k, v in field_reads(x).items():
                    reads.setdefault(k, (x, v))
            # delegates: helpers of the same crate that are part of the recursion cycle (they call back into the walker),
            # e.g. a function printing a type-argument list that calls the annotation printer for each element
            frontier = list(own)
            seen_h = {x.id for x in own}
            for _depth in range(3):
                nxt = []
                for x in frontier:
                    for cid in body_refs(x):
                        cb = prog.bodies.get(cid)
                        if cb is None or cid in cands or cid in seen_h or cb.crate != b.crate:
                            continue
                        if b.id not in reach_of(cid):
                            continue
                        seen_h.add(cid)
                        for hb in [cb] + [prog.bodies[c] for c in prog.closures_of.get(cid, []) if c in prog.bodies]:
                            seen_h.add(hb.id)
                            nxt.append(hb)
                            for k, v in field_reads(hb).items():
                                reads.setdefault(k, (hb, v))
                frontier = nxt
            have = [s for s in slots if s in reads]
            if len(have) * 10 < len(slots) * 6:
                continue
            if crates is not None and b.crate not in crates:
                continue
            n_walkers += 1
            for s, nm in sorted(slots.items(), key=lambda kv: kv[1]):
                key = f'{b.id}:{nm[0]}::{nm[1]}.{nm[2]}'
                if s in reads:
                    hb, line = reads[s]
                    res.ok(key, hb.loc(line), f'child slot read by {hb.name}')
                elif (b.id, nm) in EXEMPT:
                    res.ok(key, b.loc(), 'exempt: ' + EXEMPT[(b.id, nm)])
                else:
                    res.violation(key, b.loc(), f'{b.name} recurses over {rn.split("::")[-2]}::{rn.split("::")[-1]} and visits '
                                  f'{len(have)} of its {len(slots)} child positions, but never reads `{nm[2]}` of {nm[0]}'
                                  + (f'::{nm[1]}' if nm[0] != nm[1] else '') + ': types nested there are skipped by this walker')
    # closure clause: inside a function that recurses over R, a closure that receives the elements of a child list
    # (`type_arguments.iter().any(|t| ...)`) hands them back to the recursion. A closure that gives them to a function outside
    # the recursion looks only one level deep: types nested further down are not validated / substituted / searched.
    n_clos = 0
    for rn in ROOTS:
        R = [a for a in prog.adts.values() if a.name == rn]
        if len(R) != 1:
            continue
        R = R[0]
        for b in sorted(prog.bodies.values(), key=lambda x: x.name):
            if b.kind == 'closure' or not b.crate.startswith('samlang') or '::tests' in b.name:
                continue
            if crates is not None and b.crate not in crates:
                continue
            if not any(_peel(b.locals[i]).k == 'adt' and _peel(b.locals[i]).id == R.id for i in range(1, b.nargs + 1)):
                continue
            clos = [prog.bodies[c] for c in prog.closures_of.get(b.id, []) if c in prog.bodies]
            if not any(b.id in body_refs(x) for x in [b] + clos):
                continue
            for c in clos:
                if not any(_peel(c.locals[i]).k == 'adt' and _peel(c.locals[i]).id == R.id for i in range(2, c.nargs + 1)):
                    continue
                n_clos += 1
                key = f'closure:{c.name}'
                if any(r == b.id or b.id in reach_of(r) for r in body_refs(c)):
                    res.ok(key, c.loc(), 'the closure hands its element back to the recursion')
                else:
                    res.violation(key, c.loc(), f'{b.name} recurses over {rn.split("::")[-2]}::{rn.split("::")[-1]}, but the closure at '
                                  f'{c.loc()} that receives the elements of a child list never calls back into the recursion: nested '
                                  f'occurrences below the first level are not looked at')
    res.analysed['closures_receiving_elements'] = n_clos
    res.analysed['walkers'] = n_walkers
    return [res], n_walkers


def make(crates, floor):
    def f(prog, tier, repo):
        rs, n = run(prog, tier, repo, crates)
        rs[0].floor('structural recursions', n, floor)
        return rs
    return f
