"""TRAVERSAL: type-directed visitor completeness (DESIGN.md §3.1).

required(root, targets) = every (ADT, variant, field) slot reachable from the instantiated root type whose
substituted field type can hold a target; read(family) = every slot projected in the MIR of the walker
family. A required slot nobody reads cannot be marked / counted / checked / lowered / printed / renamed.
"""
from ..core import RuleResult, field_reads
from ..facts import strip_refs
from ..typewalk import Walk
from ..callgraph import family

AST = 'samlang_ast::'


def _is_named(names):
    names = set(names)
    return lambda t: t.k == 'adt' and t.name in names


def run_instance(prog, cfg):
    res = RuleResult(f'TRAVERSAL({cfg["id"]})', cfg['clause'])
    entries = [b for b in prog.bodies.values() if cfg['entry'](b)]
    if not entries:
        res.cannot_decide(f'no entry function for {cfg["id"]} ({cfg["entry_desc"]})')
        return res
    roots = []
    for e in entries:
        for i in range(1, e.nargs + 1):
            t = strip_refs(e.locals[i])
            if t.k == 'adt' and t.name in cfg['roots']:
                roots.append((e, t))
    if not roots:
        res.cannot_decide(f'entry functions of {cfg["id"]} take no parameter of type {cfg["roots"]}')
        return res
    is_target = _is_named(cfg['targets'])
    stop = _is_named(cfg.get('stop', ()))
    walk = Walk(prog, is_target, stop)
    required = {}
    for e, t in roots:
        for slot, info in walk.required_slots(t).items():
            required.setdefault(slot, info)
    fam = family(prog, [e.id for e in entries], cfg['scope'])
    read = {}
    for b in fam.values():
        for slot, line in field_reads(b).items():
            read.setdefault(slot, (b, line))
    exempt = cfg.get('exempt', {})
    used_exempt = set()
    n_unread = 0
    for slot, info in sorted(required.items(), key=lambda x: (x[1]['adt'], x[1]['variant'], x[1]['field'])):
        nm = (info['adt'], info['variant'], info['field'])
        key = f'{cfg["id"]}:{info["adt"]}::{info["variant"]}.{info["field"]}'
        adt = prog.adts[slot[0]]
        where = f'{adt.file}:{adt.line}'
        if slot in read:
            b, line = read[slot]
            res.ok(key, b.loc(line), f'slot read by {b.name}')
        elif nm in exempt:
            used_exempt.add(nm)
            res.ok(key, where, f'exempt: {exempt[nm]}')
        else:
            n_unread += 1
            res.violation(key, where,
                          f'{cfg["id"]}: field `{info["field"]}` of {info["adt"]}::{info["variant"]} (type {info["ty"]}) can hold '
                          f'{"/".join(x.split("::")[-1] for x in cfg["targets"])} but no function of the {cfg["what"]} family '
                          f'({len(fam)} bodies from {", ".join(sorted(e.name for e in entries))}) ever reads it: {cfg["consequence"]}')
    for nm in exempt:
        if nm not in used_exempt:
            # a stale exemption is harmless for soundness but is reported in the evidence
            res.analysed.setdefault('unused_exemptions', []).append('.'.join(nm))
    res.floor('required slots', len(required), cfg['floor_required'])
    res.floor('family bodies', len(fam), cfg['floor_family'])
    res.analysed['entries'] = sorted(e.name for e in entries)
    res.analysed['roots'] = sorted({t.s for _, t in roots})
    res.analysed['unread'] = n_unread
    return res


# ---------------------------------------------------------------------------------------------------
# Per-function refinements. The union rule above accepts a slot as soon as *any* family member reads
# it; walkers with several readers per slot (checker, printer, passes with a collector and a rewriter)
# would hide the deletion of one recursive call. Two sharper obligations, both derived from what the
# function itself already does (Engler-style "most of the siblings are handled, one is not"):
#
#  DISPATCH  a function whose own MIR (with its closures) reads >= 60 % of all required slots of the
#            root is a full walker of the root and must reach 100 % together with the helpers it calls
#            that are not themselves full walkers.
#  SIBLING   a function that reads >= 60 % (and at least 2) of the target-bearing fields of one struct
#            or enum variant must read the rest too - itself, through a direct callee (accessor or
#            delegate) or through a direct caller (the function that delegated to it).
# ---------------------------------------------------------------------------------------------------
from ..callgraph import body_refs


def _own_reads(prog, b):
    own = dict(field_reads(b))
    for c in prog.closures_of.get(b.id, []):
        for k, v in field_reads(prog.bodies[c]).items():
            own.setdefault(k, v)
    return own


def _setup(prog, cfg, res):
    entries = [b for b in prog.bodies.values() if cfg['entry'](b)]
    roots = []
    for e in entries:
        for i in range(1, e.nargs + 1):
            t = strip_refs(e.locals[i])
            if t.k == 'adt' and t.name in cfg['roots']:
                roots.append((e, t))
    if not entries or not roots:
        res.cannot_decide(f'no entry/root for {cfg["id"]} ({cfg["entry_desc"]})')
        return None
    walk = Walk(prog, _is_named(cfg['targets']), _is_named(cfg.get('stop', ())))
    required = {}
    for e, t in roots:
        for slot, info in walk.required_slots(t).items():
            required.setdefault(slot, info)
    fam = family(prog, [e.id for e in entries], cfg['scope'])
    return entries, required, fam


def run_dispatch(prog, cfg):
    res = RuleResult(f'DISPATCH({cfg["id"]})', cfg['clause'] + ' - per full walker function')
    s = _setup(prog, cfg, res)
    if s is None:
        return res
    entries, required, fam = s
    tops = [b for b in fam.values() if b.kind != 'closure' and b.crate != 'samlang_ast']
    own = {b.id: _own_reads(prog, b) for b in tops}
    thr = 0.6 * len(required)
    full = {b.id for b in tops if sum(1 for s_ in required if s_ in own[b.id]) >= thr}
    exempt = cfg.get('exempt', {})
    dexempt = cfg.get('dispatch_exempt', {})
    for b in sorted(tops, key=lambda x: x.name):
        if b.id not in full:
            continue
        # restricted family: helpers reachable without passing through another full walker
        seen = {}
        stack = [b.id]
        while stack:
            i = stack.pop()
            if i in seen or i not in fam:
                continue
            if i != b.id and (i in full or fam[i].parent in full and fam[i].parent != b.id):
                continue
            seen[i] = fam[i]
            stack.extend(prog.closures_of.get(i, []))
            stack.extend(body_refs(fam[i]))
        rd = {}
        for x in seen.values():
            for k, v in field_reads(x).items():
                rd.setdefault(k, (x, v))
        for slot, info in sorted(required.items(), key=lambda x: (x[1]['adt'], x[1]['variant'], x[1]['field'])):
            nm = (info['adt'], info['variant'], info['field'])
            key = f'{cfg["id"]}:{b.name}:{info["adt"]}::{info["variant"]}.{info["field"]}'
            if slot in rd:
                res.ok(key, rd[slot][0].loc(rd[slot][1]), 'read by the walker or its helpers')
            elif nm in exempt:
                res.ok(key, b.loc(), f'exempt: {exempt[nm]}')
            elif (b.name, nm) in dexempt:
                res.ok(key, b.loc(), f'exempt: {dexempt[(b.name, nm)]}')
            else:
                res.violation(key, b.loc(),
                              f'{b.name} reads {sum(1 for s_ in required if s_ in own[b.id])} of the {len(required)} '
                              f'{"/".join(x.split("::")[-1] for x in cfg["targets"])}-bearing slots of '
                              f'{"/".join(cfg["roots"])} (a full walker) but neither it nor its helpers read '
                              f'`{info["field"]}` of {info["adt"]}::{info["variant"]}: {cfg["consequence"]}')
    res.floor('full walker functions', len(full), cfg.get('floor_dispatch', 1))
    res.analysed['full_walkers'] = sorted(prog.bodies[i].name for i in full)
    return res


def run_sibling(prog, cfg):
    res = RuleResult(f'SIBLING({cfg["id"]})', cfg['clause'] + ' - per function and per struct/variant')
    s = _setup(prog, cfg, res)
    if s is None:
        return res
    entries, required, fam = s
    byvar = {}
    for slot in required:
        byvar.setdefault((slot[0], slot[1]), set()).add(slot)
    tops = [b for b in fam.values() if b.kind != 'closure']
    own = {b.id: _own_reads(prog, b) for b in tops}
    # direct neighbours (callees and callers) among family tops
    topid = lambda i: (fam[i].parent if fam[i].parent in fam else i) if i in fam else None
    callees = {b.id: set() for b in tops}
    callers = {b.id: set() for b in tops}
    for b in fam.values():
        src = topid(b.id)
        for r in body_refs(b):
            dst = topid(r)
            if dst is not None and src in callees and dst in callees and dst != src:
                callees[src].add(dst)
                callers[dst].add(src)
    exempt = cfg.get('exempt', {})
    sexempt = cfg.get('sibling_exempt', {})
    n_groups = 0
    for b in sorted(tops, key=lambda x: x.name):
        if b.crate == 'samlang_ast':
            continue
        for (a, v), req in sorted(byvar.items()):
            if len(req) < 2:
                continue
            got = {s_ for s_ in req if s_ in own[b.id]}
            if len(got) < 2 or len(got) < 0.6 * len(req):
                continue
            n_groups += 1
            near = set()
            for n in callees[b.id] | callers[b.id]:
                near |= set(own[n])
                # accessor methods of the AST crate called by that neighbour (e.g. `expr.common()`)
                for m in callees[n]:
                    if fam[m].crate == 'samlang_ast':
                        near |= set(own[m])
            for slot in sorted(req):
                info = required[slot]
                nm = (info['adt'], info['variant'], info['field'])
                key = f'{cfg["id"]}:{b.name}:{info["adt"]}::{info["variant"]}.{info["field"]}'
                if slot in got:
                    res.ok(key, b.loc(own[b.id][slot]), 'read in the function')
                elif slot in near:
                    res.ok(key, b.loc(), 'read by a direct callee (accessor/delegate) or direct caller')
                elif nm in exempt:
                    res.ok(key, b.loc(), f'exempt: {exempt[nm]}')
                elif (b.name, nm) in sexempt:
                    res.ok(key, b.loc(), f'exempt: {sexempt[(b.name, nm)]}')
                else:
                    res.violation(key, b.loc(),
                                  f'{b.name} reads {len(got)} of the {len(req)} '
                                  f'{"/".join(x.split("::")[-1] for x in cfg["targets"])}-bearing fields of '
                                  f'{info["adt"]}::{info["variant"]} but not `{info["field"]}` (nor does a function it '
                                  f'directly calls or is called by): {cfg["consequence"]}')
    res.floor('(function, struct) groups', n_groups, cfg.get('floor_sibling', 1))
    return res


# ---------------------------------------------------------------------------------------------------------------------
# TUPLE-COMPONENT (C02): SIBLING works at field granularity; a field whose type is a tuple (`break_collector:
# Option<(name, type, value)>`) is "read" as soon as any component is. For functions that SIBLING recognises as walkers of
# a struct (they read >= 60 % of its operand-bearing fields), the operand-bearing *components* of tuple-typed fields must be
# read as well: looking at the collector's name instead of its value misses a use of a variable.

def run_tuple_components(prog, tier, repo, crate='samlang_optimization', target='samlang_ast::mir::Expression'):
    from ..typewalk import Walk, strip_containers
    from ..core import places_read
    from ..dataflow import root_local
    res = RuleResult('TUPLE-COMPONENT', 'C02: a pass that walks the operand-bearing fields of a struct also reads the operand-bearing '
                     'components of its tuple-typed fields')
    is_target = lambda t: t.k == 'adt' and t.name == target
    walk = Walk(prog, is_target)
    # structs with tuple-typed operand-bearing fields
    cands = {}
    for a in prog.adts.values():
        if not (a.crate in (crate, 'samlang_ast')) or a.kind != 'struct':
            continue
        for fi, f in enumerate(a.variants[0].fields):
            t = strip_containers(f.ty)
            if t.k == 'tup' and any(walk.reaches_target(x) for x in t.args):
                cands[(a.id, 0, fi)] = [k for k, x in enumerate(t.args) if walk.reaches_target(x)]
    n = 0
    for (aid, vi, fi), need in sorted(cands.items()):
        adt = prog.adts[aid]
        bearing = [k for k, f in enumerate(adt.variants[0].fields) if walk.reaches_target(f.ty)]
        if len(bearing) < 2:
            continue
        for b in sorted(prog.bodies.values(), key=lambda x: x.name):
            if b.crate != crate or b.kind == 'closure' or '::tests' in b.name:
                continue
            own = [b] + [prog.bodies[c] for c in prog.closures_of.get(b.id, []) if c in prog.bodies]
            fields_read = set()
            comps = set()
            whole = False
            for x in own:
                for pl, bi, line in places_read(x):
                    r, p0 = root_local(x, pl.local)
                    full = tuple(p0) + tuple(e for e in pl.proj if e[0] in ('f', 't', 'v'))
                    for k, e in enumerate(full):
                        if e[0] == 'f' and e[1] == aid and e[2] == vi:
                            fields_read.add(e[3])
                            if e[3] == fi:
                                rest = [z for z in full[k + 1:]]
                                ts = [z[1] for z in rest if z[0] == 't']
                                # components may also be addressed as fields of the tuple (`.0`) after a Some downcast
                                fs_ = [z[3] for z in rest if z[0] == 'f' and not (prog.adts.get(z[1]) and prog.adts[z[1]].name.startswith('samlang'))]
                                if ts:
                                    comps.add(ts[0])
                                elif not rest:
                                    pass
                # a closure parameter that is the tuple itself (`is_some_and(|v| .. v.2 ..)`)
                if x.kind == 'closure':
                    for i in range(2, x.nargs + 1):
                        t = strip_containers(x.locals[i])
                        ft = strip_containers(adt.variants[0].fields[fi].ty)
                        if t.k == 'tup' and ft.k == 'tup' and len(t.args) == len(ft.args) and [a_.s for a_ in t.args] == [a_.s for a_ in ft.args]:
                            for pl, bi, line in places_read(x):
                                r, p0 = root_local(x, pl.local)
                                full = tuple(p0) + tuple(e for e in pl.proj if e[0] in ('f', 't', 'v'))
                                if r == i:
                                    ts = [z[1] for z in full if z[0] == 't']
                                    if ts:
                                        comps.add(ts[0])
            if fi not in fields_read:
                continue
            got = [k for k in bearing if k in fields_read]
            if len(got) < 2 or len(got) < 0.6 * len(bearing):
                continue
            if not comps:
                continue        # the tuple is only passed on / matched as a whole
            n += 1
            fname = adt.variants[0].fields[fi].name
            key = f'tuple:{b.name}:{adt.name.split("::")[-1]}.{fname}'
            missing = [k for k in need if k not in comps]
            if not missing:
                res.ok(key, b.loc(), f'reads component(s) {sorted(comps)} of `{fname}` including the operand-bearing {need}')
            else:
                res.violation(key, b.loc(), f'{b.name} walks the operand-bearing fields of {adt.name.split("::")[-1]} and looks into '
                              f'`{fname}`, but only at component(s) {sorted(comps)}, not at the operand-bearing component(s) {missing}: '
                              f'a variable used there is not seen, and the pass removes or rewrites its definition')
    res.analysed['walker_tuple_reads'] = n
    return [res]
