"""ENUM-EVIDENCE (C01): a variant may be stored unboxed only if its payload type is *known* to be always a
pointer, i.e. its completed definition was looked up and inspected (DESIGN.md §3.11)."""
from ..core import RuleResult
from ..cfg import cfg_of, single_def
from ..dataflow import operand_root, root_local, field_names, call_sites, switch_on_call_result
from ..facts import callee
from .lookup_unwrap import _uses_of_option

ENUM_DEF = 'samlang_ast::mir::EnumTypeDefinition'
TYPE_DEF = 'samlang_ast::mir::TypeDefinition'


def run(prog, tier, repo):
    res = RuleResult('ENUM-EVIDENCE', 'C01: distinct enum values stay distinguishable - the unboxed representation is chosen '
                     'only on evidence that the payload type is always a pointer')
    ed = [a for a in prog.adts.values() if a.name == ENUM_DEF]
    if len(ed) != 1:
        res.cannot_decide('mir::EnumTypeDefinition')
        return [res]
    ed = ed[0]
    uidx = [i for i, v in enumerate(ed.variants) if v.name == 'Unboxed']
    if not uidx:
        res.cannot_decide('EnumTypeDefinition::Unboxed')
        return [res]
    uidx = uidx[0]
    # constructions of Unboxed, and the predicate whose true edge guards them
    preds = {}
    n_sites = 0
    for b in prog.bodies.values():
        if b.crate != 'samlang_compiler':
            continue
        cfg = None
        for bi, bl in enumerate(b.blocks):
            if bl.cleanup:
                continue
            for st in bl.stmts:
                if st[0] == 'a' and st[2][0] == 'agg' and st[2][1][0] == 'adt' and st[2][1][1] == ed.id and st[2][1][2] == uidx:
                    n_sites += 1
                    cfg = cfg or cfg_of(b)
                    guarded = False
                    for cb, t in call_sites(b, lambda n: True):
                        tgt = prog.bodies.get(callee(t)[0])
                        if tgt is None or tgt.crate != 'samlang_compiler' or tgt.locals[0].s != 'bool':
                            continue
                        sw = switch_on_call_result(b, cfg, cb)
                        if sw is None:
                            continue
                        sbb, stt = sw
                        true_edges = [(sbb, stt[3])] + [(sbb, tg) for v, tg in stt[2] if v != 0]
                        if cfg.edges_dominate(true_edges, bi):
                            preds[tgt.id] = tgt
                            guarded = True
                    key = f'unboxed-site:{b.name}'
                    # re-wrapping an existing unboxed variant (type rewriting passes): inside the Unboxed arm of a match
                    from ..tables import enum_switches
                    rewrap = False
                    for tb in enum_switches(prog, b, ed.id):
                        if uidx in tb.arms:
                            raw = [(tb.bb, tg) for v, tg in b.blocks[tb.bb].term[2] if v == uidx]
                            if cfg.edges_dominate(raw, bi):
                                rewrap = True
                    if rewrap:
                        res.ok(key, b.loc(st[3]), 'rebuilds an already unboxed variant inside the Unboxed arm of a match (representation unchanged)')
                        continue
                    if guarded:
                        res.ok(key, b.loc(st[3]), 'construction of an unboxed variant is guarded by a layout predicate')
                    else:
                        res.violation(key, b.loc(st[3]), f'{b.name} chooses the unboxed representation without consulting a layout '
                                      f'predicate: payload values can collide with int31 tags')
    res.floor('Unboxed constructions', n_sites, 1)
    if not preds:
        res.cannot_decide('the predicate guarding EnumTypeDefinition::Unboxed')
        return [res]
    for p in preds.values():
        cfg = cfg_of(p)
        # the evidence: a successful lookup of the payload type's completed definition
        lookups = []
        for bi, t in call_sites(p, lambda n: n.endswith('HashMap::<K, V, S, A>::get')):
            vt = p.locals[t[4].local]
            if vt.k == 'adt' and vt.args and 'TypeDefinition' in vt.s:
                lookups.append((bi, t))
        some_edges = []
        for bi, t in lookups:
            some_edges += _uses_of_option(p, t[4].local)
        n_true = 0
        for bi, bl in enumerate(p.blocks):
            if bl.cleanup:
                continue
            writes = []
            for st in bl.stmts:
                if st[0] == 'a' and st[1].local == 0 and not st[1].proj:
                    rv = st[2]
                    if rv[0] == 'use' and rv[1][0] == 'k' and rv[1][1].i == 0:
                        continue       # returns false: always safe
                    writes.append(st[3])
            t = bl.term
            if t[0] == 'call' and t[4].local == 0 and not t[4].proj:
                writes.append(t[7])
            for line in writes:
                n_true += 1
                key = f'evidence:{p.name}'
                if some_edges and cfg.edges_dominate(some_edges, bi):
                    res.ok(key, p.loc(line), 'a possibly-true answer is dominated by a successful lookup of the payload definition')
                else:
                    res.violation(key, p.loc(line), f'{p.name} can answer "always a pointer" on a path where the payload type\'s '
                                  f'definition was not found (a type still being specialised, i.e. every directly recursive enum): '
                                  f'the variant is stored unboxed although its payload can be an int31 tag, so e.g. '
                                  f'Succ(Succ(Zero)) collapses to Zero')
        res.floor(f'possibly-true answers of the layout predicate', n_true, 1)
    res.analysed['predicates'] = sorted(p.name for p in preds.values())
    return [res]
