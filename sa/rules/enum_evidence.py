"""ENUM-EVIDENCE (C01): a variant may be stored unboxed only if its payload type is *known* to be always a
pointer, i.e. its completed definition was looked up and inspected (DESIGN.md §3.11)."""
from ..core import RuleResult
from ..cfg import cfg_of, single_def
from ..dataflow import operand_root, root_local, field_names, call_sites, switch_on_call_result
from ..facts import callee
from .lookup_unwrap import _uses_of_option

ENUM_DEF = 'samlang_ast::mir::EnumTypeDefinition'
TYPE_DEF = 'samlang_ast::mir::TypeDefinition'


def _option_pred_sources(prog, b, local, depth=0, seen=None):
    """bool-returning compiler functions called inside closures on the chain of Option adapters that produced `local`"""
    from ..cfg import def_sites
    seen = seen if seen is not None else set()
    out = []
    if local in seen or depth > 8:
        return out
    seen.add(local)
    for ds in def_sites(b).get(local, []):
        if b.blocks[ds[0]].cleanup:
            continue
        if ds[1] == 'term':
            t = ds[2]
            for o in t[3]:
                if o[0] in ('c', 'm'):
                    ty = b.locals[o[1].local]
                    if ty.k == 'closure' and ty.id in prog.bodies:
                        cb = prog.bodies[ty.id]
                        for bl in cb.blocks:
                            if bl.cleanup or bl.term[0] != 'call':
                                continue
                            tg = prog.bodies.get(callee(bl.term)[0])
                            if tg is not None and tg.crate == 'samlang_compiler' and tg.locals[0].s == 'bool':
                                out.append(tg)
            if t[3] and t[3][0][0] in ('c', 'm'):
                r, _ = operand_root(b, t[3][0])
                if r is not None:
                    out += _option_pred_sources(prog, b, r, depth + 1, seen)
        else:
            rv = ds[2]
            if rv[0] == 'use' and rv[1][0] in ('c', 'm'):
                r, _ = operand_root(b, rv[1])
                if r is not None:
                    out += _option_pred_sources(prog, b, r, depth + 1, seen)
    return out


def run(prog, tier, repo):
    res = RuleResult('ENUM-EVIDENCE', 'C01: distinct enum values stay distinguishable - the unboxed representation is chosen '
                     'only on evidence that the payload type is always a pointer')
    ed = [a for a in prog.adts.values() if a.name == ENUM_DEF]
    if len(ed) != 1:
        res.cannot_decide('mir::EnumTypeDefinition')
        return [res]
    ed = ed[0]
    uidx = [i for i, v in enumerate(ed.variants) if v.name == 'Unboxed']
    if not uidx:
        res.cannot_decide('EnumTypeDefinition::Unboxed')
        return [res]
    uidx = uidx[0]
    # constructions of Unboxed, and the predicate whose true edge guards them
    preds = {}
    n_sites = 0
    for b in prog.bodies.values():
        if b.crate != 'samlang_compiler':
            continue
        cfg = None
        for bi, bl in enumerate(b.blocks):
            if bl.cleanup:
                continue
            for st in bl.stmts:
                if st[0] == 'a' and st[2][0] == 'agg' and st[2][1][0] == 'adt' and st[2][1][1] == ed.id and st[2][1][2] == uidx:
                    n_sites += 1
                    cfg = cfg or cfg_of(b)
                    guarded = False
                    for cb, t in call_sites(b, lambda n: True):
                        tgt = prog.bodies.get(callee(t)[0])
                        if tgt is None or tgt.crate != 'samlang_compiler' or tgt.locals[0].s != 'bool':
                            continue
                        sw = switch_on_call_result(b, cfg, cb)
                        if sw is None:
                            continue
                        sbb, stt = sw
                        true_edges = [(sbb, stt[3])] + [(sbb, tg) for v, tg in stt[2] if v != 0]
                        if cfg.edges_dominate(true_edges, bi):
                            preds[tgt.id] = tgt
                            guarded = True
                    if not guarded:
                        # the decision may travel as an Option: `Some(t).filter(|t| self.predicate(t))` ... `match .. { Some(t) =>`
                        for bj, bl2 in enumerate(b.blocks):
                            t2 = bl2.term
                            if bl2.cleanup or t2[0] != 'switch' or t2[1][0] not in ('c', 'm'):
                                continue
                            sd2 = single_def(b, t2[1][1].local)
                            if not (sd2 and sd2[1] != 'term' and sd2[2][0] == 'disc'):
                                continue
                            ol = root_local(b, sd2[2][1].local)[0]
                            if not b.locals[ol].s.startswith(('std::option::Option', 'core::option::Option')):
                                continue
                            some_edges = [(bj, tg) for v, tg in t2[2] if v == 1]
                            if some_edges and cfg.edges_dominate(some_edges, bi):
                                for tgt in _option_pred_sources(prog, b, ol):
                                    preds[tgt.id] = tgt
                                    guarded = True
                    key = f'unboxed-site:{b.name}'
                    # re-wrapping an existing unboxed variant (type rewriting passes): inside the Unboxed arm of a match
                    from ..tables import enum_switches
                    rewrap = False
                    for tb in enum_switches(prog, b, ed.id):
                        if uidx in tb.arms:
                            raw = [(tb.bb, tg) for v, tg in b.blocks[tb.bb].term[2] if v == uidx]
                            if cfg.edges_dominate(raw, bi):
                                rewrap = True
                    if rewrap:
                        res.ok(key, b.loc(st[3]), 'rebuilds an already unboxed variant inside the Unboxed arm of a match (representation unchanged)')
                        continue
                    if guarded:
                        res.ok(key, b.loc(st[3]), 'construction of an unboxed variant is guarded by a layout predicate')
                    else:
                        res.violation(key, b.loc(st[3]), f'{b.name} chooses the unboxed representation without consulting a layout '
                                      f'predicate: payload values can collide with int31 tags')
    res.floor('Unboxed constructions', n_sites, 1)
    if not preds:
        res.cannot_decide('the predicate guarding EnumTypeDefinition::Unboxed')
        return [res]
    for p in preds.values():
        cfg = cfg_of(p)
        # the evidence: a successful lookup of the payload type's completed definition
        lookups = []
        for bi, t in call_sites(p, lambda n: n.endswith('HashMap::<K, V, S, A>::get')):
            vt = p.locals[t[4].local]
            if vt.k == 'adt' and vt.args and 'TypeDefinition' in vt.s:
                lookups.append((bi, t))
        some_edges = []
        for bi, t in lookups:
            some_edges += _uses_of_option(p, t[4].local)
        n_true = 0
        for bi, bl in enumerate(p.blocks):
            if bl.cleanup:
                continue
            writes = []
            for st in bl.stmts:
                if st[0] == 'a' and st[1].local == 0 and not st[1].proj:
                    rv = st[2]
                    if rv[0] == 'use' and rv[1][0] == 'k' and rv[1][1].i == 0:
                        continue       # returns false: always safe
                    writes.append(st[3])
            t = bl.term
            if t[0] == 'call' and t[4].local == 0 and not t[4].proj:
                # `lookup.is_some_and(f)` is true only for a found definition: the evidence is built in
                nm_ = callee(t)[1] or ''
                if nm_.endswith(('Option::<T>::is_some_and',)) and t[3] and t[3][0][0] in ('c', 'm'):
                    cur, via_lookup = operand_root(p, t[3][0])[0], False
                    for _d in range(5):
                        if cur in {t2[4].local for _b2, t2 in lookups}:
                            via_lookup = True
                            break
                        sd_ = single_def(p, cur) if cur is not None else None
                        if sd_ and sd_[1] == 'term' and sd_[2][3] and (callee(sd_[2])[1] or '').split('::')[-1] in (
                                'map', 'as_ref', 'copied', 'cloned', 'as_deref', 'filter', 'and_then'):
                            cur = operand_root(p, sd_[2][3][0])[0]
                            continue
                        break
                    if via_lookup:
                        n_true += 1
                        res.ok(f'evidence:{p.name}', p.loc(t[7]), 'the answer is `is_some_and` of the lookup of the payload definition')
                        continue
                writes.append(t[7])
            for line in writes:
                n_true += 1
                key = f'evidence:{p.name}'
                if some_edges and cfg.edges_dominate(some_edges, bi):
                    res.ok(key, p.loc(line), 'a possibly-true answer is dominated by a successful lookup of the payload definition')
                else:
                    res.violation(key, p.loc(line), f'{p.name} can answer "always a pointer" on a path where the payload type\'s '
                                  f'definition was not found (a type still being specialised, i.e. every directly recursive enum): '
                                  f'the variant is stored unboxed although its payload can be an int31 tag, so e.g. '
                                  f'Succ(Succ(Zero)) collapses to Zero')
        res.floor(f'possibly-true answers of the layout predicate', n_true, 1)
    res.analysed['predicates'] = sorted(p.name for p in preds.values())
    return [res]
