"""PEEK-THEN-VISIT: a walker that looks at the variant of a child node still hands the child to the family's visitor.

TRAVERSAL decides that every slot is *read*; this rule decides what happens after a particular kind of read. When a function of
a walker family (collector, renamer, checker, lowering, printer) inspects the discriminant of a child node that it reaches
through a slot of its parent (`if let Expression::Variable(v) = &function.return_value`, `match element.pattern.as_ref()`), it
re-implements part of the visitor inline. The hand-written fast path is fine as long as every path from the inspection to the
function's return still passes the child (or the parent it sits in) to a function of the family that takes that node type - or
the child was handed over before the inspection. A path that does neither treats all variants it did not name as leaves: their
names are not collected, their occurrences not renamed, their sub-terms not checked or lowered.

The rule is per family of a TRAVERSAL instance and per node type T of the instance for which the family has a visitor (a
non-closure function with a parameter of type T / Box<T> / &T). Exemptions: one (function, slot) each, with a reason.
"""
from ..core import RuleResult
from ..cfg import cfg_of, single_def, reach_known_variants
from ..dataflow import root_local
from ..facts import callee, strip_refs
from ..callgraph import family

TRANSPARENT = ('deref', 'deref_mut', 'as_ref', 'as_mut', 'borrow', 'borrow_mut', 'as_deref', 'as_deref_mut', 'as_slice',
               'iter', 'iter_mut', 'into_iter', 'next', 'unwrap', 'expect', 'enumerate', 'rev', 'peekable', 'by_ref', 'first', 'last',
               'get', 'index', 'as_ptr', 'clone', 'cloned', 'copied')
CONTAINERS = ('std::vec::Vec', 'std::option::Option', 'std::boxed::Box', 'std::rc::Rc', 'std::sync::Arc')


def _peel(t):
    while True:
        if t.k in ('ref', 'ptr', 'slice', 'arr'):
            t = t.args[0]
        elif t.k == 'adt' and t.name.split('<')[0] in CONTAINERS and t.args:
            t = t.args[0]
        else:
            return t


def origin(b, local, depth=0):
    """(root local, field path) of a value, looking through copies, references and transparent accessor calls."""
    path = ()
    for _ in range(16):
        r, p = root_local(b, local)
        path = p + path
        if 1 <= r <= b.nargs:
            return r, path
        sd = single_def(b, r)
        if sd is None or sd[1] != 'term':
            return r, path
        t = sd[2]
        short = (callee(t)[1] or '').split('::')[-1]
        if short in TRANSPARENT and t[3] and t[3][0][0] in ('c', 'm'):
            pl = t[3][0][1]
            path = tuple(e for e in pl.proj if e[0] in ('f', 't', 'v')) + path
            local = pl.local
            continue
        return r, path
    return local, path


def _slot_key(path):
    """Field path without variant/tuple noise of Option/iterator plumbing: the names of the ADT fields passed through."""
    return tuple((e[1], e[2], e[4]) for e in path if e[0] == 'f' and str(e[1]).startswith('samlang'))


def run_instance(prog, cfg, exempt=None):
    exempt = exempt or {}
    res = RuleResult(f'PEEK-THEN-VISIT({cfg["id"]})', cfg['clause'] + ' - a child whose variant is inspected is still handed to the visitor')
    entries = [b for b in prog.bodies.values() if cfg['entry'](b)]
    if not entries:
        res.cannot_decide(f'no entry function for {cfg["id"]}')
        return res
    fam = family(prog, [e.id for e in entries], cfg['scope'])
    for x in prog.bodies.values():
        if x.crate != 'samlang_ast' and cfg['scope'](x) and '::tests' not in x.name and '::test' not in x.name:
            fam.setdefault(x.id, x)
    types = list(dict.fromkeys(cfg['targets'] + cfg['roots']))
    # visitors: family functions (not closures, not accessors of the AST crate) with a parameter of node type T
    visitors = {}
    for T in types:
        vs = set()
        for b in fam.values():
            if b.kind == 'closure' or b.crate == 'samlang_ast':
                continue
            for i in range(1, b.nargs + 1):
                pt = _peel(b.locals[i])
                if pt.k == 'adt' and pt.name == T:
                    vs.add(b.id)
        if vs:
            visitors[T] = vs
    n_peeks = 0
    used = set()
    peeks = []
    for b in sorted(fam.values(), key=lambda x: x.name):
        if b.crate == 'samlang_ast':
            continue
        if b.locals[0].k == 'prim' and b.locals[0].s == 'bool':
            continue        # a predicate over a node asks a question about its shape; visiting is the caller's job
        cfgb = None
        for bi, bl in enumerate(b.blocks):
            if bl.cleanup:
                continue
            for st in bl.stmts:
                if not (st[0] == 'a' and st[2][0] == 'disc'):
                    continue
                pl = st[2][1]
                # type of the inspected place
                pty = b.locals[pl.local]
                for e in pl.proj:
                    if e[0] == 'f':
                        pty = e[5]
                    elif e[0] == 't':
                        pty = e[2]
                    elif e[0] == 'deref' or e[0] == 'd':
                        pty = pty.args[0] if pty.k in ('ref', 'ptr') or (pty.k == 'adt' and pty.args) else pty
                pty = strip_refs(pty)
                if pty.k == 'adt' and pty.name.split('<')[0] == 'std::boxed::Box' and pty.args:
                    pty = strip_refs(pty.args[0])
                if not (pty.k == 'adt' and pty.name in visitors):
                    continue
                T = pty.name
                r, p0 = origin(b, pl.local)
                path = p0 + tuple(e for e in pl.proj if e[0] in ('f', 't', 'v'))
                slot = _slot_key(path)
                if not slot or not (1 <= r <= b.nargs):
                    continue        # the function's own node (or a local result): it *is* the visitor / not a child
                # a child only if some field on the way can hold T (a slot of the parent), not e.g. a field of a helper struct
                n_peeks += 1
                cfgb = cfgb or cfg_of(b)
                handed = []
                for bj, bl2 in enumerate(b.blocks):
                    t2 = bl2.term
                    if bl2.cleanup or t2[0] != 'call':
                        continue
                    cid = callee(t2)[0]
                    if cid in fam and fam[cid].crate == 'samlang_ast':
                        continue        # derives and accessors of the AST crate (clone, eq, loc) are not visitors
                    if cid not in visitors[T] and not (cid in fam and any(
                            _peel(fam[cid].locals[i]).k == 'adt' and _peel(fam[cid].locals[i]).name == T
                            for i in range(1, fam[cid].nargs + 1))):
                        continue
                    for o in t2[3]:
                        if o[0] not in ('c', 'm'):
                            continue
                        r2, p2 = origin(b, o[1].local)
                        s2 = _slot_key(p2 + tuple(e for e in o[1].proj if e[0] in ('f', 't', 'v')))
                        if r2 == r and (s2 == slot[:len(s2)]):
                            handed.append(bj)
                            break
                fld = '.'.join(str(x[2]) for x in slot)
                k = sum(1 for p_ in peeks if p_[7].startswith(f'peek:{b.name}:{T.split("::")[-1]}:{fld}#')) + 1
                key = f'peek:{b.name}:{T.split("::")[-1]}:{fld}#{k}'
                peeks.append((b, bi, st, T, r, slot, fld, key, handed))
        # decide the peeks of this body together: a later inspection of the same child cannot take an arm that an earlier
        # inspection on the same path has already excluded
        mine = [p for p in peeks if p[0] is b]
        if not mine:
            continue
        sw = {}
        for (_b, bi, st, T, r, slot, fld, key, handed) in mine:
            d = st[1].local
            for bj, bl2 in enumerate(b.blocks):
                t2 = bl2.term
                if not bl2.cleanup and t2[0] == 'switch' and t2[1][0] in ('c', 'm') and root_local(b, t2[1][1].local)[0] == d:
                    sw[key] = (bj, t2)
        for (_b, bi, st, T, r, slot, fld, key, handed) in mine:
            if key not in sw:
                res.ok(key, b.loc(st[3]), 'discriminant read without a branch')
                continue
            bj, t2 = sw[key]
            other = t2[3]
            named = {v for v, _tb in t2[2]}
            ot = b.blocks[other].term if other is not None else None
            if other is None or (ot is not None and ot[0] in ('unreachable',)) or (ot is not None and ot[0] == 'other' and 'nreachable' in str(ot[1])):
                res.ok(key, b.loc(st[3]), 'every variant is named at the inspection')
                continue
            if other in [tb for _v, tb in t2[2]]:
                res.ok(key, b.loc(st[3]), 'the remaining variants share an arm with a named one')
                continue
            # edges of other inspections of the same child that are infeasible on this path
            dead = set()
            for (_b2, _bi2, _st2, T2, r2, slot2, _f2, key2, _h2) in mine:
                if key2 == key or (r2, slot2, T2) != (r, slot, T) or key2 not in sw:
                    continue
                bk, t3 = sw[key2]
                for v, tb in t3[2]:
                    if v in named:
                        dead.add((bk, tb))
            reach = reach_known_variants(b, other, handed, dead)
            leaks = [e for e in cfgb.exits if e in reach]
            if not leaks or (handed and cfgb.nodes_dominate(handed, bi)):
                res.ok(key, b.loc(st[3]), 'variants not named at the inspection are handed to the visitor on every path')
            elif (b.name, fld) in exempt:
                used.add((b.name, fld))
                res.ok(key, b.loc(st[3]), 'exempt: ' + exempt[(b.name, fld)])
            else:
                res.violation(key, b.loc(st[3]), f'{b.name} inspects the variant of the {T.split("::")[-1]} stored in `{fld}`; for the '
                              f'variants it does not name there is a path to its return on which neither it nor a function it calls '
                              f'hands that child to a {cfg["what"]} function taking {T.split("::")[-1]} '
                              f'({"never handed over" if not handed else "handed over only on other paths"}): those variants are '
                              f'treated as leaves - {cfg["consequence"]}')
    res.analysed['peeks'] = n_peeks
    res.analysed['visitor_types'] = {T.split('::')[-1]: len(v) for T, v in visitors.items()}
    return res
