"""CONST-ARITH (C02/C03): compile-time arithmetic on *program constants* never uses a panicking or
non-target operator. Field-based, flow-insensitive, interprocedural taint from integer literal payloads of
the IRs to `Assert(Overflow|DivisionByZero|RemainderByZero|OverflowNeg)` terminators (DESIGN.md §3.7)."""
from ..core import RuleResult
from ..cfg import cfg_of, single_def
from ..dataflow import operand_root, root_local
from ..facts import callee, callee_decl
from ..callgraph import iter_operands_rvalue

SCOPE = ('samlang_optimization', 'samlang_compiler', 'samlang_ast', 'samlang_parser', 'samlang_checker', 'samlang_printer', 'samlang_services')
INTS = ('i32', 'u32', 'i64', 'u64')   # widths a 32-bit program constant travels in (usize bookkeeping is out of scope)
# literal payloads that hold constants of the compiled program (enum-variant payloads of the IR expression types)
SOURCE_ADTS = ('samlang_ast::hir::Expression', 'samlang_ast::mir::Expression', 'samlang_ast::lir::Expression',
               'samlang_ast::source::Literal')
ARITH_TRAITS = ('std::ops::Add::add', 'std::ops::Sub::sub', 'std::ops::Mul::mul', 'std::ops::Div::div',
                'std::ops::Rem::rem', 'std::ops::Neg::neg', 'std::ops::Shl::shl', 'std::ops::Shr::shr',
                'std::ops::AddAssign::add_assign', 'std::ops::SubAssign::sub_assign', 'std::ops::MulAssign::mul_assign')


def carrier(t, depth=0):
    """Types through which an integer program constant can travel."""
    if depth > 4:
        return False
    if t.k == 'prim':
        return t.s in INTS
    if t.k in ('ref', 'ptr', 'arr', 'slice'):
        return carrier(t.args[0], depth + 1)
    if t.k == 'tup':
        return any(carrier(a, depth + 1) for a in t.args)
    if t.k == 'adt' and t.name.startswith(('std::option::Option', 'std::result::Result')):
        return any(carrier(a, depth + 1) for a in t.args)
    return False


class Taint:
    def __init__(self, prog):
        self.prog = prog
        self.bodies = [b for b in prog.bodies.values() if b.crate in SCOPE]
        self.byid = {b.id: b for b in self.bodies}
        self.tl = {b.id: set() for b in self.bodies}        # tainted locals
        self.tfields = set()                                 # tainted (adt, variant, idx) fields (integer typed)
        self.tret = set()                                    # bodies with tainted return
        self.src_adts = {a.id for a in prog.adts.values() if a.name in SOURCE_ADTS}
        # variant indices that hold user-written 32-bit integers. `Int31Literal` payloads are excluded: they are
        # enum-variant tags produced by the specialiser (i32::try_from(tag)), always far below 2^30.
        self.src_variants = {(a.id, i) for a in prog.adts.values() if a.name in SOURCE_ADTS
                             for i, v in enumerate(a.variants) if v.name in ('IntLiteral', 'Int32Literal', 'Int')}

    def place_tainted(self, b, pl):
        if pl.local in self.tl[b.id]:
            return True
        for e in pl.proj:
            if e[0] == 'f' and carrier(e[5]):
                if (e[1], e[2], e[3]) in self.tfields and e[1] in self.prog.adts:
                    return True
                if (e[1], e[2]) in self.src_variants and e[5].k == 'prim' and e[5].s == 'i32':
                    return True
        return False

    def op_tainted(self, b, o):
        return o[0] in ('c', 'm') and self.place_tainted(b, o[1])

    def run(self):
        changed = True
        rounds = 0
        while changed and rounds < 40:
            rounds += 1
            changed = False
            for b in self.bodies:
                tl = self.tl[b.id]

                def taint_local(l):
                    nonlocal changed
                    if l not in tl and carrier(b.locals[l]):
                        tl.add(l)
                        changed = True
                for bl in b.blocks:
                    for st in bl.stmts:
                        if st[0] != 'a':
                            continue
                        dst, rv = st[1], st[2]
                        src_t = False
                        if rv[0] in ('ref', 'rawptr'):
                            src_t = self.place_tainted(b, rv[2] if rv[0] == 'ref' else rv[1])
                        elif rv[0] == 'copyderef':
                            src_t = self.place_tainted(b, rv[1])
                        elif rv[0] == 'agg':
                            ak = rv[1]
                            for idx, o in enumerate(rv[2]):
                                if self.op_tainted(b, o):
                                    src_t = True
                                    if ak[0] == 'adt' and ak[1] in self.prog.adts:
                                        f = (ak[1], ak[2], idx)
                                        if f not in self.tfields:
                                            self.tfields.add(f)
                                            changed = True
                        else:
                            src_t = any(self.op_tainted(b, o) for o in iter_operands_rvalue(rv))
                        if src_t:
                            fs = [e for e in dst.proj if e[0] == 'f']
                            if fs:
                                f = (fs[-1][1], fs[-1][2], fs[-1][3])
                                if carrier(fs[-1][5]) and f not in self.tfields and fs[-1][1] in self.prog.adts:
                                    self.tfields.add(f)
                                    changed = True
                            elif dst.proj and all(e[0] in ('d', 't') for e in dst.proj):
                                taint_local(dst.local)
                                # write through a reference: taint what the reference points to
                                r, _ = root_local(b, dst.local)
                                taint_local(r)
                            else:
                                taint_local(dst.local)
                    t = bl.term
                    if t[0] == 'call':
                        cid, cname = callee(t)
                        args_t = [self.op_tainted(b, o) for o in t[3]]
                        tgt = self.byid.get(cid)
                        if tgt is not None and tgt.kind != 'closure':
                            for i, at in enumerate(args_t):
                                if at and i + 1 <= tgt.nargs and carrier(tgt.locals[i + 1]) and (i + 1) not in self.tl[tgt.id]:
                                    self.tl[tgt.id].add(i + 1)
                                    changed = True
                            if tgt.id in self.tret and not t[4].proj:
                                taint_local(t[4].local)
                        elif any(args_t) and not t[4].proj:
                            # foreign callee (std integer methods, Option combinators, clone...): result derives from args
                            taint_local(t[4].local)
                # closures see the captured environment: a captured tainted local taints the matching upvar field
                if 0 in tl and b.id not in self.tret:
                    self.tret.add(b.id)
                    changed = True
            # closure environments: parent aggregate operands -> closure local 1 projections
            for b in self.bodies:
                for bl in b.blocks:
                    for st in bl.stmts:
                        if st[0] == 'a' and st[2][0] == 'agg' and st[2][1][0] == 'closure':
                            cb = self.byid.get(st[2][1][1])
                            if cb is None:
                                continue
                            for idx, o in enumerate(st[2][2]):
                                if self.op_tainted(b, o):
                                    mark = ('upvar', idx)
                                    key = (cb.id, idx)
                                    if key not in self._upvars:
                                        self._upvars.add(key)
                                        changed = True
            # apply upvars: statements in closures reading _1.idx
            for b in self.bodies:
                if b.kind != 'closure':
                    continue
                ups = {i for (cid, i) in self._upvars if cid == b.id}
                if not ups:
                    continue
                for bl in b.blocks:
                    for st in bl.stmts:
                        if st[0] == 'a':
                            for pl in self._places_of_rvalue(st[2]):
                                if pl.local == 1 and pl.proj and pl.proj[0][0] == 't' and pl.proj[0][1] in ups:
                                    if not st[1].proj and st[1].local not in self.tl[b.id] and carrier(b.locals[st[1].local]):
                                        self.tl[b.id].add(st[1].local)
                                        changed = True
        return rounds

    _upvars = set()

    @staticmethod
    def _places_of_rvalue(rv):
        if rv[0] == 'ref':
            yield rv[2]
        elif rv[0] in ('rawptr', 'copyderef', 'disc'):
            yield rv[1]
        for o in iter_operands_rvalue(rv):
            if o[0] in ('c', 'm'):
                yield o[1]


def _desc(b, op):
    if op[0] == 'k':
        return op[1].v
    if op[0] in ('c', 'm'):
        r, p = root_local(b, op[1].local)
        n = b.var_name(r) or b.var_name(op[1].local)
        if n:
            return n
        fs = [e[4] for e in p if e[0] == 'f'] + [e[4] for e in op[1].proj if e[0] == 'f']
        if fs:
            return '.'.join(fs)
        return 'tmp'
    return '?'


def _guarded(b, cfg, bb, op, kind):
    """Is the assert at block bb made unreachable-for-the-bad-value by a dominating comparison of the same
    operand with the offending constant (0 for division, i32::MIN for negation, < width for shifts)?"""
    if op[0] not in ('c', 'm'):
        return False
    root = operand_root(b, op)
    edges = []
    for bj, bl in enumerate(b.blocks):
        tt = bl.term
        if tt[0] != 'switch' or tt[1][0] not in ('c', 'm'):
            continue
        sd = single_def(b, tt[1][1].local)
        if not sd or sd[1] == 'term' or sd[2][0] != 'bin':
            continue
        cmpop, x, y = sd[2][1], sd[2][2], sd[2][3]
        for u, w in ((x, y), (y, x)):
            if w[0] != 'k' or w[1].i is None or u[0] not in ('c', 'm') or operand_root(b, u) != root:
                continue
            bad = {'zero': 0, 'min': -2147483648}.get(kind)
            if kind != 'positive' and bad is not None and w[1].i == bad:
                if cmpop == 'Ne':
                    edges += [(bj, tt[3])] + [(bj, tg) for v, tg in tt[2] if v != 0]
                elif cmpop == 'Eq':
                    edges += [(bj, tg) for v, tg in tt[2] if v == 0]
            if kind in ('zero', 'positive') and u is x:
                # x > c (c >= 0), x >= c (c >= 1) on the true edge; x <= c (c >= 0), x < c (c >= 1) on the false edge
                if (cmpop == 'Gt' and w[1].i >= 0) or (cmpop == 'Ge' and w[1].i >= 1):
                    edges += [(bj, tt[3])] + [(bj, tg) for v, tg in tt[2] if v != 0]
                elif (cmpop == 'Le' and w[1].i >= 0) or (cmpop == 'Lt' and w[1].i >= 1):
                    edges += [(bj, tg) for v, tg in tt[2] if v == 0]
    return bool(edges) and cfg.edges_dominate(edges, bb)


def run(prog, tier, repo):
    res = RuleResult('CONST-ARITH', 'C02/C03: arithmetic the compiler performs on constants of the compiled program never '
                     'aborts compilation and wraps exactly like the 32-bit target')
    ta = Taint(prog)
    rounds = ta.run()
    res.analysed['fixpoint_rounds'] = rounds
    res.analysed['tainted_fields'] = len(ta.tfields)
    res.analysed['bodies_with_tainted_locals'] = sum(1 for v in ta.tl.values() if v)
    n_sinks = 0
    n_checked = 0
    for b in sorted(ta.bodies, key=lambda x: x.name):
        cfg = None
        seen_keys = {}
        for bi, bl in enumerate(b.blocks):
            if bl.cleanup:
                continue
            t = bl.term
            sink = None
            if t[0] == 'assert':
                m = t[3]
                if m[0] == 'overflow':
                    ops = [m[2], m[3]]
                    sink = (f'overflow {m[1]}', ops)
                elif m[0] == 'overflow_neg':
                    sink = ('overflow Neg', [m[1]])
                elif m[0] == 'div_zero':
                    sink = ('division by zero', [m[1]])
                elif m[0] == 'rem_zero':
                    sink = ('remainder by zero', [m[1]])
                line = t[5]
            elif t[0] == 'call' and callee_decl(t)[1] in ARITH_TRAITS and t[3]:
                argtys = [b.locals[o[1].local] if o[0] in ('c', 'm') else None for o in t[3]]
                if all(a is None or carrier(a) for a in argtys):
                    sink = ('overflow ' + callee_decl(t)[1].split('::')[-1], list(t[3]))
                line = t[7]
            if sink is None:
                continue
            n_checked += 1
            kind, ops = sink
            if not any(ta.op_tainted(b, o) for o in ops):
                continue
            # only 32-bit program integers are of interest: usize bookkeeping is out of scope
            tys = [b.locals[o[1].local].s.replace('&', '') for o in ops if o[0] in ('c', 'm')]
            if tys and not any(x in ('i32', 'u32') for x in tys):
                continue
            n_sinks += 1
            cfg = cfg or cfg_of(b)
            base = f'{b.name}:{kind}({", ".join(_desc(b, o) for o in ops)})'
            seen_keys[base] = seen_keys.get(base, 0) + 1
            key = base if seen_keys[base] == 1 else f'{base}#{seen_keys[base]}'
            guarded = False
            if kind in ('division by zero', 'remainder by zero'):
                guarded = _guarded(b, cfg, bi, ops[0], 'zero')
            elif kind in ('overflow Neg', 'overflow neg'):
                guarded = _guarded(b, cfg, bi, ops[0], 'min')
            elif kind == 'overflow Sub' and len(ops) == 2 and ops[1][0] == 'k' and ops[1][1].i is not None and ops[1][1].i >= 0:
                # x - c with c >= 0 cannot underflow once x is known to be positive
                guarded = _guarded(b, cfg, bi, ops[0], 'positive')
            if guarded:
                res.ok(key, b.loc(line), 'panicking operator on a program constant, but the offending value is excluded by a dominating test')
            else:
                res.violation(key, b.loc(line),
                              f'{b.name}: `{kind}` check on a value derived from an integer literal of the compiled program: '
                              f'suitable constants abort the compiler (dev profile) or, for division/remainder of '
                              f'i32::MIN by -1, in every profile; folding must use wrapping_*/checked_* to match the target')
    res.floor('arithmetic checks inspected', n_checked, 60)
    res.analysed['tainted_sinks'] = n_sinks
    return [res]
