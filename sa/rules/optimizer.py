"""C02 rules: DCE-KEEP, FOLD-TABLE, SWAP-TABLE (DESIGN.md §3.7)."""
from ..core import RuleResult
from ..cfg import cfg_of, single_def
from ..dataflow import operand_root, root_local
from ..facts import callee, strip_refs
from ..tables import enum_switches, arm_regions, variant_tests

MIR_STMT = 'samlang_ast::mir::Statement'
BINOP = 'samlang_ast::hir::BinaryOperator'


def _adt(prog, name):
    r = [a for a in prog.adts.values() if a.name == name]
    return r[0] if len(r) == 1 else None


def run_dce_keep(prog, tier, repo):
    res = RuleResult('DCE-KEEP', 'C02: dead-code elimination never deletes a statement with an effect of its own - calls, '
                     'breaks, loops, and divisions/remainders that may trap')
    stmt = _adt(prog, MIR_STMT)
    binop = _adt(prog, BINOP)
    if stmt is None or binop is None:
        res.cannot_decide('mir::Statement / hir::BinaryOperator')
        return [res]
    # the dispatcher: function of the DCE module returning bool with a &mut Statement parameter that
    # switches over all statement kinds
    cands = []
    for b in prog.bodies.values():
        if not b.name.startswith('samlang_optimization::dead_code_elimination::') or b.kind == 'closure':
            continue
        if b.locals[0].s != 'bool':
            continue
        if not any(strip_refs(b.locals[i]).k == 'adt' and strip_refs(b.locals[i]).id == stmt.id for i in range(1, b.nargs + 1)):
            continue
        tbs = [t for t in enum_switches(prog, b, stmt.id) if root_local(b, t.place.local)[0] <= b.nargs]
        if tbs:
            cands.append((b, tbs[0]))
    if len(cands) != 1:
        res.cannot_decide(f'the DCE statement dispatcher (found {len(cands)})')
        return [res]
    b, tb = cands[0]
    regions, common = arm_regions(b, tb)
    vidx = {v.name: i for i, v in enumerate(stmt.variants)}

    def false_blocks(region):
        out = []
        for bi in sorted(region):
            bl = b.blocks[bi]
            for st in bl.stmts:
                if st[0] == 'a' and st[1].local == 0 and not st[1].proj:
                    rv = st[2]
                    if not (rv[0] == 'use' and rv[1][0] == 'k' and rv[1][1].i == 1):
                        out.append((bi, st[3]))
            t = bl.term
            if t[0] == 'call' and t[4].local == 0 and not t[4].proj:
                out.append((bi, t[7]))
        return out
    for name in ('Call', 'Break', 'While'):
        if name not in vidx:
            res.cannot_decide(f'statement kind {name}')
            continue
        fb = false_blocks(regions[vidx[name]])
        key = f'keep:{name}'
        if fb:
            res.violation(key, b.loc(fb[0][1]), f'{b.name}: the {name} arm can report the statement as removable: a '
                          f'{"call with side effects" if name == "Call" else "loop exit" if name == "Break" else "possibly non-terminating loop"} '
                          f'would be deleted when its result is unused')
        else:
            res.ok(key, b.loc(), f'{name} arm always keeps the statement')
    # Binary: removable only when the operator is neither DIV nor MOD
    if 'Binary' in vidx:
        fb = false_blocks(regions[vidx['Binary']])
        tests = variant_tests(prog, b, binop.id)
        bidx = {v.name: i for i, v in enumerate(binop.variants)}
        cfg = cfg_of(b)
        from ..tables import excluded_variants
        for trap in ('DIV', 'MOD'):
            key = f'keep:Binary:{trap}'
            bad = [x for x in fb if bidx.get(trap) not in excluded_variants(prog, b, binop.id, x[0])]
            if not fb:
                res.ok(key, b.loc(), 'Binary arm never removes the statement')
            elif bad:
                res.violation(key, b.loc(bad[0][1]), f'{b.name}: a Binary statement can be removed on a path that did not establish '
                              f'operator != {trap}: an unused division/remainder by zero no longer traps')
            else:
                res.ok(key, b.loc(), f'removal of a Binary statement is dominated by operator != {trap}')
    else:
        res.cannot_decide('statement kind Binary')
    res.analysed['dispatcher'] = b.name
    return [res]


# semantics of the i32 opcodes of WebAssembly (standard; one row per mnemonic): rust MIR BinOp it must be folded with,
# signedness of the operands, whether a zero divisor traps
WASM_SEM = {
    'mul': ('Mul', None, False), 'div_s': ('Div', 'i32', True), 'div_u': ('Div', 'u32', True),
    'rem_s': ('Rem', 'i32', True), 'rem_u': ('Rem', 'u32', True), 'add': ('Add', None, False),
    'sub': ('Sub', None, False), 'and': ('BitAnd', None, False), 'or': ('BitOr', None, False),
    'xor': ('BitXor', None, False), 'shl': ('Shl', None, False), 'shr_u': ('Shr', 'u32', False),
    'shr_s': ('Shr', 'i32', False), 'lt_s': ('Lt', 'i32', False), 'le_s': ('Le', 'i32', False),
    'gt_s': ('Gt', 'i32', False), 'ge_s': ('Ge', 'i32', False), 'lt_u': ('Lt', 'u32', False),
    'le_u': ('Le', 'u32', False), 'gt_u': ('Gt', 'u32', False), 'ge_u': ('Ge', 'u32', False),
    'eq': ('Eq', None, False), 'ne': ('Ne', None, False),
}
NORM = {'MulWithOverflow': 'Mul', 'AddWithOverflow': 'Add', 'SubWithOverflow': 'Sub', 'ShlUnchecked': 'Shl',
        'ShrUnchecked': 'Shr', 'MulUnchecked': 'Mul', 'AddUnchecked': 'Add', 'SubUnchecked': 'Sub'}
TRANSPARENT = ('to_be_bytes', 'from_be_bytes', 'to_le_bytes', 'from_le_bytes', 'to_ne_bytes', 'from_ne_bytes',
               'cast_unsigned', 'cast_signed')
WRAPPING = {'wrapping_mul': 'Mul', 'wrapping_add': 'Add', 'wrapping_sub': 'Sub', 'wrapping_shl': 'Shl',
            'wrapping_shr': 'Shr', 'wrapping_div': 'Div', 'wrapping_rem': 'Rem', 'checked_div': 'Div',
            'checked_rem': 'Rem', 'checked_mul': 'Mul', 'overflowing_mul': 'Mul', 'overflowing_add': 'Add',
            'overflowing_sub': 'Sub'}


def _param_root(b, op, depth=0):
    """Trace an operand back to a parameter through copies, casts and byte-reinterpretation calls."""
    if op[0] not in ('c', 'm') or depth > 12:
        return None
    loc, _ = root_local(b, op[1].local)
    if 1 <= loc <= b.nargs:
        return loc
    sd = single_def(b, loc)
    if sd and sd[1] == 'term':
        nm = callee(sd[2])[1] or ''
        if nm.split('::')[-1] in TRANSPARENT and sd[2][3]:
            return _param_root(b, sd[2][3][0], depth + 1)
    return None


def wasm_op_table(prog, res):
    """operator variant index -> wasm mnemonic, read out of the Binary arm of the wasm printer."""
    binop = _adt(prog, BINOP)
    for b in prog.bodies.values():
        if b.crate != 'samlang_ast' or '::wasm::' not in b.name:
            continue
        for tb in enum_switches(prog, b, binop.id):
            if len(tb.arms) + (1 if tb.otherwise is not None else 0) < len(binop.variants):
                continue
            regions, _ = arm_regions(b, tb)
            table = {}
            for v in range(len(binop.variants)):
                strs = set()
                for bi in regions[v]:
                    for st in b.blocks[bi].stmts:
                        if st[0] == 'a' and st[2][0] == 'use' and st[2][1][0] == 'k' and st[2][1][1].ty.s == '&str':
                            strs.add(st[2][1][1].v.strip('"'))
                if len(strs) == 1:
                    table[v] = next(iter(strs))
            if len(table) == len(binop.variants):
                return table, b
    return None, None


def _variant_paths(prog, b, adt, v, param_local=1, limit=400):
    """Enumerate the acyclic paths of b that are feasible when the enum parameter holds variant v: switches on the
    discriminant of that parameter follow only the matching target; every other switch forks. Yields (blocks, conds)
    where conds is a list of (switch block, successor)."""
    from ..tables import place_type
    cfg = cfg_of(b)
    out = []

    def disc_switch_target(bi):
        t = b.blocks[bi].term
        if t[0] != 'switch' or t[1][0] not in ('c', 'm'):
            return None
        sd = single_def(b, t[1][1].local)
        if not sd or sd[1] == 'term' or sd[2][0] != 'disc':
            return None
        pl = sd[2][1]
        r, p = root_local(b, pl.local)
        if r != param_local or [e for e in p if e[0] == 'f'] or [e for e in pl.proj if e[0] == 'f']:
            return None
        for val, tg in t[2]:
            if val == v:
                return tg
        return t[3]
    def consts_after(bi, env):
        """constants assigned to whole locals in block bi (path-local constant propagation, so that a materialised
        `matches!(op, ..)` boolean is followed only along its feasible edge)"""
        env = dict(env)
        for st in b.blocks[bi].stmts:
            if st[0] != 'a':
                continue
            pl, rv = st[1], st[2]
            if pl.proj:
                continue
            if rv[0] == 'use' and rv[1][0] == 'k' and rv[1][1].i is not None:
                env[pl.local] = rv[1][1].i
            elif rv[0] == 'use' and rv[1][0] in ('c', 'm') and not rv[1][1].proj and rv[1][1].local in env:
                env[pl.local] = env[rv[1][1].local]
            else:
                env.pop(pl.local, None)
        t = b.blocks[bi].term
        if t[0] == 'call' and t[4] is not None and not t[4].proj:
            env.pop(t[4].local, None)
        return env

    def const_switch_target(bi, env):
        t = b.blocks[bi].term
        if t[0] != 'switch' or t[1][0] not in ('c', 'm') or t[1][1].proj or t[1][1].local not in env:
            return None
        val = env[t[1][1].local]
        for vv, tg in t[2]:
            if vv == val:
                return tg
        return t[3]
    stack = [(0, (0,), (), consts_after(0, {}))]
    while stack and len(out) < limit:
        bi, path, conds, env = stack.pop()
        t = b.blocks[bi].term
        if t[0] in ('ret',) or not cfg.succ[bi]:
            out.append((path, conds))
            continue
        tg = disc_switch_target(bi)
        if tg is None:
            tg = const_switch_target(bi, env)
        succs = [tg] if tg is not None else list(dict.fromkeys(cfg.succ[bi]))
        for s_ in succs:
            if s_ in path or b.blocks[s_].cleanup:
                continue
            stack.append((s_, path + (s_,), conds + (((bi, s_),) if len(succs) > 1 else ()), consts_after(s_, env)))
    return out


def run_fold_table(prog, tier, repo):
    res = RuleResult('FOLD-TABLE', 'C02: constant folding computes exactly what the target computes - per operator, the '
                     'folding arithmetic is the wasm opcode the same operator is lowered to')
    binop = _adt(prog, BINOP)
    if binop is None:
        res.cannot_decide('hir::BinaryOperator')
        return [res]
    wtable, wbody = wasm_op_table(prog, res)
    if wtable is None:
        res.cannot_decide('operator -> wasm mnemonic table in the wasm printer')
        return [res]
    folders = []
    for b in prog.bodies.values():
        if b.crate != 'samlang_optimization' or b.kind == 'closure' or b.nargs != 3:
            continue
        if b.locals[1].k == 'adt' and b.locals[1].id == binop.id and b.locals[2].s == 'i32' and b.locals[3].s == 'i32' \
                and enum_switches(prog, b, binop.id):
            folders.append(b)
    if len(folders) != 1:
        res.cannot_decide(f'the constant folder fn(BinaryOperator, i32, i32) (found {len(folders)})')
        return [res]
    b = folders[0]
    cfg = cfg_of(b)

    def ops_in_block(bi):
        found = []
        bl = b.blocks[bi]
        for st in bl.stmts:
            if st[0] == 'a' and st[2][0] == 'bin':
                op = NORM.get(st[2][1], st[2][1])
                x, y = st[2][2], st[2][3]
                px, py = _param_root(b, x), _param_root(b, y)
                if px is not None and py is not None:
                    lt = b.locals[x[1].local].s if x[0] in ('c', 'm') else None
                    found.append((op, px, py, lt, st[3], None))
        t = bl.term
        if t[0] == 'call':
            nm = (callee(t)[1] or '').split('::')[-1]
            if nm in WRAPPING and len(t[3]) == 2:
                px, py = _param_root(b, t[3][0]), _param_root(b, t[3][1])
                if px is not None and py is not None:
                    lt = b.locals[t[3][0][1].local].s if t[3][0][0] in ('c', 'm') else None
                    found.append((WRAPPING[nm], px, py, lt, t[7], nm))
        return found

    def closure_ops(bi):
        """arithmetic inside a closure handed to `bool::then` / `Option::map` in this block; the captured operands are mapped
        back to the folder's parameters through the closure construction. Returns [(op tuple, guarded_nonzero)]"""
        out = []
        t = b.blocks[bi].term
        if t[0] != 'call':
            return out
        for o in t[3]:
            if o[0] not in ('c', 'm') or b.locals[o[1].local].k != 'closure':
                continue
            cb = prog.bodies.get(b.locals[o[1].local].id)
            sdc = single_def(b, o[1].local)
            if cb is None or not (sdc and sdc[1] != 'term' and sdc[2][0] == 'agg'):
                continue
            caps = [_param_root(b, c) for c in sdc[2][2]]

            def cap_of(op2):
                if op2[0] not in ('c', 'm'):
                    return None
                from ..dataflow import operand_root as _or
                r2, p2 = _or(cb, op2)
                fs2 = [e for e in p2 if e[0] in ('f', 't')]
                if r2 == 1 and fs2:
                    k2 = fs2[0][3] if fs2[0][0] == 'f' else fs2[0][1]
                    return caps[k2] if k2 < len(caps) else None
                return None
            for cbl in cb.blocks:
                if cbl.cleanup:
                    continue
                for st in cbl.stmts:
                    if st[0] == 'a' and st[2][0] == 'bin':
                        px, py = cap_of(st[2][2]), cap_of(st[2][3])
                        if px is not None and py is not None:
                            lt = cb.locals[st[2][2][1].local].s if st[2][2][0] in ('c', 'm') else None
                            out.append((NORM.get(st[2][1], st[2][1]), px, py, lt, st[3], None))
                ct = cbl.term
                if ct[0] == 'call' and (callee(ct)[1] or '').split('::')[-1] in WRAPPING and len(ct[3]) == 2:
                    nm2 = (callee(ct)[1] or '').split('::')[-1]
                    px, py = cap_of(ct[3][0]), cap_of(ct[3][1])
                    if px is not None and py is not None:
                        lt = cb.locals[ct[3][0][1].local].s if ct[3][0][0] in ('c', 'm') else None
                        out.append((WRAPPING[nm2], px, py, lt, ct[7], nm2))
            # `(divisor != 0).then(|| ..)`: the closure only runs for a non-zero divisor
            guarded = False
            if (callee(t)[1] or '').endswith(('bool::then', '<impl bool>::then')) and t[3] and t[3][0][0] in ('c', 'm'):
                sdb = single_def(b, t[3][0][1].local)
                if sdb and sdb[1] != 'term' and sdb[2][0] == 'bin' and sdb[2][1] == 'Ne':
                    for u, w in ((sdb[2][2], sdb[2][3]), (sdb[2][3], sdb[2][2])):
                        if w[0] == 'k' and w[1].i == 0 and _param_root(b, u) == 3:
                            guarded = True
            out = [(f, guarded) for f in out]
        return out

    def nonzero_on(conds):
        """does the path establish divisor (param 3) != 0 through a comparison with the constant 0?"""
        for (sb, succ) in conds:
            t = b.blocks[sb].term
            sd = single_def(b, t[1][1].local) if t[1][0] in ('c', 'm') else None
            if not sd or sd[1] == 'term' or sd[2][0] != 'bin' or sd[2][1] not in ('Eq', 'Ne'):
                continue
            x, y = sd[2][2], sd[2][3]
            for u, w in ((x, y), (y, x)):
                if w[0] == 'k' and w[1].i == 0 and _param_root(b, u) == 3:
                    zero_targets = {tg for vv, tg in t[2] if vv == 0}
                    is_true_edge = succ not in zero_targets
                    if (sd[2][1] == 'Eq') != is_true_edge:
                        return True
        return False
    for v, var in enumerate(binop.variants):
        key = f'fold:{var.name}'
        mn = wtable[v]
        if mn not in WASM_SEM:
            res.cannot_decide(f'unknown wasm mnemonic {mn} for {var.name}')
            continue
        want_op, want_sign, traps = WASM_SEM[mn]
        paths = _variant_paths(prog, b, binop, v)
        seen_ops = {}
        unguarded = False
        for path, conds in paths:
            for bi in path:
                for f in ops_in_block(bi):
                    seen_ops[(f[0], f[1], f[2], f[3], f[5])] = f[4]
                    if traps and not nonzero_on(conds) and not (f[5] or '').startswith('checked_'):
                        unguarded = True
                for f, guarded_ in closure_ops(bi):
                    seen_ops[(f[0], f[1], f[2], f[3], f[5])] = f[4]
                    if traps and not guarded_ and not nonzero_on(conds) and not (f[5] or '').startswith('checked_'):
                        unguarded = True
        if len(seen_ops) != 1:
            res.violation(key, b.loc(), f'{b.name}: with operator {var.name} the folder does not perform exactly one arithmetic '
                          f'operation on the two operands (found {sorted(k[0] for k in seen_ops)}); cannot match it to i32.{mn}')
            continue
        (op, px, py, lt, via), line = next(iter(seen_ops.items()))
        problems = []
        if op != want_op:
            problems.append(f'folds with {op} but the target executes i32.{mn} ({want_op})')
        if (px, py) != (2, 3):
            if want_op in ('Sub', 'Div', 'Rem', 'Shl', 'Shr', 'Lt', 'Le', 'Gt', 'Ge') or px == py:
                problems.append('operands are swapped or duplicated')
        if want_sign is not None and lt != want_sign:
            problems.append(f'operates on {lt} but i32.{mn} is {"unsigned" if want_sign == "u32" else "signed"}')
        if traps and unguarded:
            problems.append(f'a path folds with a zero divisor not excluded although i32.{mn} traps on zero (the trap must be left to run time)')
        if want_op == 'Div' and want_sign == 'i32' and via not in ('checked_div',) :
            problems.append('i32.div_s also traps on i32::MIN / -1; only checked_div (None on overflow) leaves that trap to run '
                            f'time, but the fold uses {via or "the `/` operator"}')
        if problems:
            res.violation(key, b.loc(line), f'{b.name}: {var.name}: ' + '; '.join(problems))
        else:
            res.ok(key, b.loc(line), f'{var.name} folded with {via or op} on {lt or "i32"} operands in order = i32.{mn}')
    res.analysed['folder'] = b.name
    res.analysed['wasm_table_from'] = wbody.name
    return [res]


MIRROR = {'LT': 'GT', 'GT': 'LT', 'LE': 'GE', 'GE': 'LE', 'MUL': 'MUL', 'PLUS': 'PLUS', 'LAND': 'LAND', 'LOR': 'LOR',
          'XOR': 'XOR', 'EQ': 'EQ', 'NE': 'NE'}   # a OP b == b MIRROR(OP) a ; DIV MOD MINUS SHL SHR have no mirror


def run_swap_table(prog, tier, repo):
    res = RuleResult('SWAP-TABLE', 'C02: operand reordering keeps the value - swapping operands flips a comparison to its '
                     'mirror, is never applied to a non-commutative operator, and `x - n` becomes `x + (-n)` only when -n exists')
    binop = _adt(prog, BINOP)
    bstruct = _adt(prog, 'samlang_ast::mir::Binary')
    if binop is None or bstruct is None:
        res.cannot_decide('hir::BinaryOperator / mir::Binary')
        return [res]
    names = [v.name for v in binop.variants]
    # the normaliser: fn(BinaryOperator, Expression, Expression) -> (BinaryOperator, Expression, Expression)
    cands = []
    for b in prog.bodies.values():
        if b.crate != 'samlang_ast' or b.kind == 'closure' or b.nargs != 3:
            continue
        rt = b.locals[0]
        if rt.k == 'tup' and len(rt.args) == 3 and rt.args[0].k == 'adt' and rt.args[0].id == binop.id \
                and b.locals[1].k == 'adt' and b.locals[1].id == binop.id:
            tbs = enum_switches(prog, b, binop.id)
            if tbs:
                cands.append((b, tbs[0]))
    if len(cands) != 1:
        res.cannot_decide(f'the operand-order normaliser (found {len(cands)})')
        return [res]
    b, tb = cands[0]
    regions, _ = arm_regions(b, tb)
    switched_root = root_local(b, tb.place.local)

    def side(op):
        """1 / 2 for first / second expression of the (normalised) binary, by field order or parameter order."""
        if op[0] not in ('c', 'm'):
            return None
        r, p = root_local(b, op[1].local)
        fs = [e for e in p if e[0] == 'f' and e[1] == bstruct.id]
        if fs:
            order = [f.name for f in bstruct.variants[0].fields if f.ty.k == 'adt' and f.ty.name.endswith('mir::Expression')]
            if fs[-1][4] in order:
                return order.index(fs[-1][4]) + 1
        if r in (2, 3) and not p:
            return r - 1
        return None
    for v, name in enumerate(names):
        key = f'swap:{name}'
        outs = []
        for bi in sorted(regions[v]):
            for st in b.blocks[bi].stmts:
                if st[0] == 'a' and st[1].local == 0 and not st[1].proj and st[2][0] == 'agg' and st[2][1][0] == 'tuple':
                    ops = st[2][2]
                    o0 = ops[0]
                    new_op = None
                    if o0[0] in ('c', 'm'):
                        r0 = root_local(b, o0[1].local)
                        if r0 == switched_root:
                            new_op = name
                        else:
                            sd = single_def(b, r0[0])
                            if sd and sd[1] != 'term' and sd[2][0] == 'agg' and sd[2][1][0] == 'adt' and sd[2][1][1] == binop.id:
                                new_op = names[sd[2][1][2]]
                    outs.append((new_op, side(ops[1]), side(ops[2]), st[3]))
        if not outs:
            res.cannot_decide(f'no result tuple in the {name} arm of {b.name}')
            continue
        problems = []
        for new_op, s1, s2, line in outs:
            if new_op is None or s1 is None or s2 is None or s1 == s2:
                problems.append((line, 'unrecognised result shape'))
            elif (s1, s2) == (1, 2):
                if new_op != name:
                    problems.append((line, f'operands kept in order but operator changed to {new_op}'))
            else:
                if name not in MIRROR:
                    problems.append((line, f'operands of the non-commutative operator {name} are swapped'))
                elif new_op != MIRROR[name]:
                    problems.append((line, f'operands swapped but operator becomes {new_op}, not its mirror {MIRROR[name]}'))
        if problems:
            res.violation(key, b.loc(problems[0][0]), f'{b.name}: {name}: ' + '; '.join(p for _, p in problems) +
                          ': the reordered expression computes a different value')
        else:
            res.ok(key, b.loc(outs[0][3]), f'{len(outs)} result shape(s): swap <=> mirror operator')
    # MINUS n -> PLUS -n needs n != i32::MIN
    makers = []
    for b2 in prog.bodies.values():
        if b2.crate != 'samlang_ast' or '::mir::' not in b2.name:
            continue
        for bi, bl in enumerate(b2.blocks):
            if bl.cleanup:
                continue
            for st in bl.stmts:
                if st[0] == 'a' and st[2][0] == 'un' and st[2][1] == 'Neg' and b2.locals[st[1].local].s == 'i32':
                    makers.append((b2, bi, st[2][2], st[3]))
            t = bl.term
            if t[0] == 'call' and t[3]:
                from ..facts import callee_decl
                if callee_decl(t)[1] == 'std::ops::Neg::neg' and b2.locals[t[4].local].s == 'i32':
                    makers.append((b2, bi, t[3][0], t[7]))
    for b2, bi, negop, negline in makers:
        st = (None, None, None, negline)
        key = f'neg-guard:{b2.name}'
        cfg = cfg_of(b2)
        r, p = operand_root(b2, negop)
        edges = []
        for bj, bl in enumerate(b2.blocks):
            tt = bl.term
            if tt[0] == 'switch' and tt[1][0] in ('c', 'm'):
                sd = single_def(b2, tt[1][1].local)
                if sd and sd[1] != 'term' and sd[2][0] == 'bin' and sd[2][1] in ('Ne', 'Eq'):
                    x, y = sd[2][2], sd[2][3]
                    for u, w in ((x, y), (y, x)):
                        if w[0] == 'k' and w[1].i == -2147483648 and u[0] in ('c', 'm') and operand_root(b2, u) == (r, p):
                            if sd[2][1] == 'Ne':
                                edges += [(bj, tt[3])] + [(bj, tg) for vv, tg in tt[2] if vv != 0]
                            else:
                                edges += [(bj, tg) for vv, tg in tt[2] if vv == 0]
        if edges and cfg.edges_dominate(edges, bi):
            res.ok(key, b2.loc(st[3]), 'negation of a program constant dominated by the != i32::MIN edge')
        else:
            res.violation(key, b2.loc(st[3]), f'{b2.name} negates a program constant without a dominating != i32::MIN test: '
                          f'`x - (-2147483648)` aborts the compiler (dev) or is rewritten to a different value')
    res.floor('negations of program constants in mir.rs', len(makers), 1)
    res.analysed['normaliser'] = b.name
    return [res]


# ---------------------------------------------------------------------------------------------------------------------
# BRANCH-PAIR-EMPTY (C02): an `IfElse` statement may be collapsed (replaced by its condition, by a binary statement, or
# dropped) only when BOTH branch statement lists are empty - each of them can hold calls and traps. Wherever a pass
# inspects the emptiness of one branch list of an IfElse node (is_empty / len / a slice pattern), the sibling list of the
# same node has to be inspected too, one test within reach of the other. A lone test means one branch's statements are
# decided about without being looked at.

def run_branch_pair(prog, tier, repo):
    from ..core import places_read
    res = RuleResult('BRANCH-PAIR-EMPTY', 'C02: where a pass tests one branch list of an IfElse statement for emptiness it tests the '
                     'sibling list of the same node as well (both hold effects; collapsing needs both empty)')
    EMPT = ('is_empty', 'len', 'as_slice', 'first', 'last', 'split_first', 'split_last')
    n = 0
    for b in sorted(prog.bodies.values(), key=lambda x: x.name):
        if b.crate not in ('samlang_optimization', 'samlang_compiler') or '::tests' in b.name or '_tests::' in b.name:
            continue
        tests = {}   # (base root, base path, variant adt) -> {field name: [blocks]}
        for bi, bl in enumerate(b.blocks):
            t = bl.term
            if bl.cleanup or t[0] != 'call' or not t[3]:
                continue
            short = (callee(t)[1] or '').split('::')[-1]
            if short not in EMPT:
                continue
            r, path = operand_root(b, t[3][0])
            fs = [e for e in path if e[0] in ('f', 'v')]
            if not fs or fs[-1][0] != 'f':
                continue
            last = fs[-1]
            adt = prog.adts.get(last[1])
            if adt is None or not adt.name.endswith('::Statement') or last[4] not in ('s1', 's2'):
                continue
            if adt.variants[last[2]].name != 'IfElse':
                continue
            key = (r, tuple((e[0], e[1], e[2]) if e[0] == 'f' else (e[0], e[1]) for e in fs[:-1]), adt.id)
            tests.setdefault(key, {}).setdefault(last[4], []).append((bi, t[7]))
        if not tests:
            continue
        cfg = cfg_of(b)
        for key, by_field in sorted(tests.items(), key=lambda kv: str(kv[0])):
            n += 1
            k = sum(1 for i in res.instances if i.key.startswith(f'pair:{b.name}#')) + 1
            ikey = f'pair:{b.name}#{k}'
            a, c = by_field.get('s1', []), by_field.get('s2', [])
            if not a or not c:
                have, miss = ('s1', 's2') if a else ('s2', 's1')
                line = (a or c)[0][1]
                res.violation(ikey, b.loc(line), f'{b.name} tests the `{have}` branch list of an IfElse statement for emptiness but '
                              f'never the `{miss}` list of the same node: a decision that needs both branches free of statements '
                              f'(collapsing the IfElse into its condition, dropping it) is taken while `{miss}` may still hold calls '
                              f'or traps, which then vanish from the optimized program')
                continue
            lonely = None
            for (x, ln) in a + c:
                others = c if (x, ln) in a else a
                if not any(cfg.nodes_dominate([x], y) or cfg.nodes_dominate([y], x) for y, _ in others):
                    lonely = ln
            if lonely is not None:
                res.violation(ikey, b.loc(lonely), f'{b.name} tests one branch list of an IfElse statement for emptiness on a path '
                              f'that never tests its sibling list')
            else:
                res.ok(ikey, b.loc(a[0][1]), 'both branch lists are tested together')
    res.floor('IfElse nodes whose branch lists are tested for emptiness', n, 2)
    return [res]


# ---------------------------------------------------------------------------------------------------------------------
# INLINE-REWRITES-ALL (C02): the inliner copies the callee's statements into the caller and renames every variable on the way.
# A statement rebuilt by the renaming function must take every expression operand from the renaming of the original
# operand; an operand copied over unchanged still names the callee's variable, which does not exist in the caller.

def run_inline_rewrites_all(prog, tier, repo):
    res = RuleResult('INLINE-REWRITES-ALL', 'C02: every expression operand of a statement rebuilt by the inliner\'s renaming function '
                     'comes out of the renaming of the original operand, none is copied over unchanged')
    stmt = _adt(prog, 'samlang_ast::mir::Statement')
    expr = _adt(prog, 'samlang_ast::mir::Expression')
    if stmt is None or expr is None:
        res.cannot_decide('mir::Statement / mir::Expression')
        return [res]
    n = 0
    for b in sorted(prog.bodies.values(), key=lambda x: x.name):
        if not b.name.startswith('samlang_optimization::inlining::') or b.kind == 'closure' or '::tests' in b.name:
            continue
        sparams = [i for i in range(1, b.nargs + 1) if strip_refs(b.locals[i]).k == 'adt' and strip_refs(b.locals[i]).id == stmt.id]
        if not sparams:
            continue
        # it must be the renaming function: it calls the expression renamer (fn(&Expression, ..) -> Expression of this module)
        def is_expr_renamer(cid):
            c = prog.bodies.get(cid)
            return c is not None and c.name.startswith('samlang_optimization::inlining::') and c.kind != 'closure' \
                and strip_refs(c.locals[0]).k == 'adt' and strip_refs(c.locals[0]).id == expr.id \
                and any(strip_refs(c.locals[i]).k == 'adt' and strip_refs(c.locals[i]).id == expr.id for i in range(1, c.nargs + 1))
        n_ren = sum(1 for bl in b.blocks if not bl.cleanup and bl.term[0] == 'call' and is_expr_renamer(callee(bl.term)[0]))
        if n_ren < 2:
            continue
        for bi, bl in enumerate(b.blocks):
            if bl.cleanup:
                continue
            for st in bl.stmts:
                if not (st[0] == 'a' and st[2][0] == 'agg' and st[2][1][0] == 'adt' and st[2][1][1] == stmt.id):
                    continue
                vname = stmt.variants[st[2][1][2]].name
                fields = stmt.variants[st[2][1][2]].fields
                for k, o in enumerate(st[2][2]):
                    if k >= len(fields) or o[0] not in ('c', 'm'):
                        continue
                    fty = strip_refs(fields[k].ty)
                    if not (fty.k == 'adt' and fty.id == expr.id):
                        continue
                    n += 1
                    r, path = operand_root(b, o)
                    copied = r in sparams and any(e[0] == 'f' for e in path)
                    kth = sum(1 for i in res.instances if i.key.startswith(f'operand:{b.name}:{vname}.{fields[k].name}#')) + 1
                    key = f'operand:{b.name}:{vname}.{fields[k].name}#{kth}'
                    if copied:
                        res.violation(key, b.loc(st[3]), f'{b.name} rebuilds a {vname} statement with `{fields[k].name}` copied unchanged '
                                      f'from the callee\'s statement: after inlining it still names a variable of the callee that does '
                                      f'not exist in the caller (the renamed definition is then dead and removed)')
                    else:
                        res.ok(key, b.loc(st[3]), 'operand produced by the renaming')
    res.floor('expression operands of statements rebuilt by the inliner', n, 6)
    return [res]


# ---------------------------------------------------------------------------------------------------------------------
# LICM-KEPT-IS-VARIANT (C02): loop-invariant code motion walks the statements of a loop body once. A statement is either
# hoisted in front of the loop or kept; when it is kept, the name it defines may change from iteration to iteration, so it has
# to enter the set of loop-variant names - otherwise a later statement that reads it is judged invariant and hoisted in front
# of the loop, above the definition it reads. For every statement variant that defines a name, every path from its match arm
# back to the loop head passes through an insertion into the variant-name set or a push onto the hoisted vector (the only
# paths excused are the ones on which an optional / repeated defining field turns out to be empty).

DEFINING_FIELDS = ('name', 'struct_variable_name', 'closure_variable_name', 'return_collector', 'final_assignments', 'break_collector')


def run_licm_kept_is_variant(prog, tier, repo):
    from .delegate import origin
    res = RuleResult('LICM-KEPT-IS-VARIANT', 'C02: a statement that loop-invariant code motion keeps inside the loop makes the name it '
                     'defines loop-variant on every path (so nothing that reads it is hoisted above it)')
    stmt = _adt(prog, 'samlang_ast::mir::Statement')
    bs = [b for b in prog.bodies.values() if b.name.startswith('samlang_optimization::loop_invariant_code_motion::')
          and b.kind != 'closure' and '::tests' not in b.name and 'LoopInvariantCodeMotionOptimizationResult' in b.locals[0].s]
    if stmt is None or len(bs) != 1:
        res.cannot_decide('the function of loop_invariant_code_motion that returns LoopInvariantCodeMotionOptimizationResult')
        return [res]
    b = bs[0]
    cfg = cfg_of(b)
    # the hoisted vector: the operand that ends up in the first Vec<Statement> field of the result
    hoisted = None
    for bl in b.blocks:
        for st in bl.stmts:
            if st[0] == 'a' and st[2][0] == 'agg' and st[2][1][0] == 'adt' and 'LoopInvariantCodeMotionOptimizationResult' in str(st[2][1][3]):
                radt = prog.adts.get(st[2][1][1])
                for k, o in enumerate(st[2][2]):
                    if radt and radt.variants[0].fields[k].name.startswith('hoisted') and o[0] in ('c', 'm'):
                        hoisted = root_local(b, o[1].local)[0]
    if hoisted is None:
        res.cannot_decide('the vector of hoisted statements in the result')
        return [res]
    sinks = set()
    for bi, bl in enumerate(b.blocks):
        t = bl.term
        if bl.cleanup or t[0] != 'call' or not t[3] or t[3][0][0] not in ('c', 'm'):
            continue
        short = (callee(t)[1] or '').split('::')[-1]
        r, _ = origin(b, t[3][0][1].local)
        if short == 'insert' and 'HashSet' in (callee(t)[1] or ''):
            sinks.add(bi)
        elif short == 'push' and r == hoisted:
            sinks.add(bi)
    # the statement switch and the loop head that drives it
    sw = None
    for bi, bl in enumerate(b.blocks):
        t = bl.term
        if bl.cleanup or t[0] != 'switch' or t[1][0] not in ('c', 'm'):
            continue
        sd = single_def(b, t[1][1].local)
        if not (sd and sd[1] != 'term' and sd[2][0] == 'disc'):
            continue
        pl = sd[2][1]
        pty = b.locals[pl.local]
        for e in pl.proj:
            if e[0] == 'd' and pty.args:
                pty = pty.args[0]
            elif e[0] == 'f':
                pty = e[5]
        pty = strip_refs(pty)
        if pty.k == 'adt' and pty.id == stmt.id and len(t[2]) >= 8:
            sw = (bi, t, origin(b, pl.local)[0])
    if sw is None:
        res.cannot_decide('the match over mir::Statement in ' + b.name)
        return [res]
    bi_sw, t_sw, stmt_local = sw
    heads = [bi for bi, bl in enumerate(b.blocks) if not bl.cleanup and bl.term[0] == 'call'
             and (callee(bl.term)[1] or '').split('::')[-1] == 'next' and bi_sw in cfg.reachable(bi) and bi in cfg.reachable(bi_sw)
             and not (bl.term[3] and bl.term[3][0][0] in ('c', 'm') and origin(b, bl.term[3][0][1].local)[0] == stmt_local)]
    # excused edges: "the optional / repeated defining field is empty"
    excused = set()
    for bi, bl in enumerate(b.blocks):
        t = bl.term
        if bl.cleanup or t[0] != 'switch' or t[1][0] not in ('c', 'm') or bi == bi_sw:
            continue
        sd = single_def(b, t[1][1].local)
        if not (sd and sd[1] != 'term' and sd[2][0] == 'disc'):
            continue
        r, p = origin(b, sd[2][1].local)
        if r == stmt_local and any(e[0] == 'f' and e[4] in DEFINING_FIELDS for e in p + tuple(sd[2][1].proj)):
            for v, tg in t[2]:
                if v == 0:
                    excused.add((bi, tg))
            if not any(v == 0 for v, _ in t[2]):
                excused.add((bi, t[3]))
    n = 0
    for v, tgt in t_sw[2]:
        var = stmt.variants[v]
        fields = list(var.fields)
        if len(fields) == 1 and fields[0].ty.k == 'adt' and fields[0].ty.id in prog.adts and fields[0].name == '0':
            fields = list(prog.adts[fields[0].ty.id].variants[0].fields)
        defining = [f.name for f in fields if f.name in DEFINING_FIELDS]
        key = f'kept:{b.name}:{var.name}'
        if not defining:
            res.ok(key, b.loc(t_sw[4]), 'the statement defines no name')
            continue
        n += 1
        reach = cfg._reach_from(tgt, sinks, excused) if tgt not in sinks else set()
        if any(h in reach for h in heads) or any(e in reach for e in cfg.exits):
            res.violation(key, b.loc(t_sw[4]), f'{b.name}: a {var.name} statement (defines `{defining[0]}`) can be kept in the loop body '
                          f'on a path that neither hoists it nor records its name as loop-variant: a later pure statement that reads '
                          f'the name is then hoisted in front of the loop, above the definition, and reads a value that is not there '
                          f'yet')
        else:
            res.ok(key, b.loc(t_sw[4]), f'`{defining[0]}` recorded as loop-variant (or the statement hoisted) on every path')
    res.floor('name-defining statement variants handled by loop-invariant code motion', n, 10)
    return [res]
