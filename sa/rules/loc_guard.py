"""LOC-GUARD (C15): position pre-filters of the location search use a location that covers what they gate.

The cursor search of the language services descends into a child only if a location test on the cursor position passes.
Such a test is only a valid shortcut when the tested location belongs to the child itself or to one of its ancestors
(`p.loc` covers `p.pattern`; `expr.loc()` covers every sub-expression). A test on the location of a *sibling* node
(`p.field_name.loc` gating the descent into `p.pattern`) skips children that lie outside the sibling's range, and
go-to-definition / find-references / rename then answer "nothing here" for a binding the checker does resolve."""
from ..core import RuleResult
from ..cfg import cfg_of, single_def
from ..dataflow import operand_root
from ..facts import callee, strip_refs


def _names(path):
    return tuple(e[4] if e[0] == 'f' else str(e[1]) for e in path if e[0] in ('f', 't'))


def _is_position(t):
    t = strip_refs(t)
    return t.k == 'adt' and t.name.split('::')[-1] == 'Position' and t.name.startswith('samlang_ast')


def run(prog, tier, repo):
    res = RuleResult('LOC-GUARD', 'C15: a cursor-position test that gates the descent into a child node of the syntax tree tests a '
                     'location of that child or of a node containing it, never the location of a sibling node')
    global _PROG
    _PROG = prog
    fam = {b.id: b for b in prog.bodies.values() if b.crate == 'samlang_services' and '::location_cover::' in b.name + '::'}
    descents = {i for i, b in fam.items() if b.kind != 'closure' and any(_is_position(b.locals[k]) for k in range(1, b.nargs + 1))}
    n_guards = 0

    def guard_paths(b):
        """[(block, true_edge, (root, names-of-the-node-owning-the-location))] for contains_position tests in b"""
        out = []
        for bi, bl in enumerate(b.blocks):
            t = bl.term
            if bl.cleanup or t[0] != 'call' or not (callee(t)[1] or '').endswith('Location::contains_position') or not t[3]:
                continue
            r, p = operand_root(b, t[3][0])
            if r is None:
                continue
            nm = _names(p)
            if not nm or nm[-1] != 'loc':
                # a location computed by a call (expr.loc()): owner is the receiver of that call
                sd = single_def(b, r)
                if sd and sd[1] == 'term' and (callee(sd[2])[1] or '').split('::')[-1] == 'loc' and sd[2][3]:
                    r2, p2 = operand_root(b, sd[2][3][0])
                    out.append((bi, t, (r2, _names(p2))))
                continue
            out.append((bi, t, (r, nm[:-1])))
        return out

    def true_edge(b, bi, t):
        if t[5] is None or t[4] is None or t[4].proj:
            return None
        nb = b.blocks[t[5]].term
        # the result may be negated or copied first
        loc = t[4].local
        blk = t[5]
        neg = False
        for st in b.blocks[blk].stmts:
            if st[0] == 'a' and not st[1].proj and st[2][0] == 'un' and st[2][1] == 'Not' and st[2][2][0] in ('c', 'm') \
                    and st[2][2][1].local == loc:
                loc = st[1].local
                neg = not neg
        if nb[0] == 'switch' and nb[1][0] in ('c', 'm') and nb[1][1].local == loc:
            zero = [tg for v, tg in nb[2] if v == 0]
            tru = nb[3]
            return (blk, zero[0]) if (neg and zero) else (blk, tru)
        return None

    def descent_calls(b):
        out = []
        for bi, bl in enumerate(b.blocks):
            t = bl.term
            if bl.cleanup or t[0] != 'call':
                continue
            cid = callee(t)[0]
            if cid in descents:
                for o in t[3]:
                    if o[0] in ('c', 'm') and not _is_position(b.locals[o[1].local]):
                        r, p = operand_root(b, o)
                        if r is not None and b.locals[o[1].local].k == 'ref':
                            out.append((bi, t, (r, _names(p))))
                            break
        return out

    def check(gb, gline, owner, db, dline, child, how):
        nonlocal n_guards
        n_guards += 1
        key = f'guard:{gb.name}:{".".join(owner[1]) or "self"}->{".".join(child[1]) or "self"}'
        widened = None
        if owner[1] != child[1][:len(owner[1])] and owner[1][:-1] == child[1][:len(owner[1]) - 1] and len(child[1]) == len(owner[1]):
            widened = _widened_by_parser(prog, owner[1][-1], child[1][-1])
        if widened:
            res.ok(key, gb.loc(gline), f'`{owner[1][-1]}.loc` covers `{child[1][-1]}`: {widened}')
        elif owner[1] == child[1][:len(owner[1])]:
            res.ok(key, gb.loc(gline), f'location of `{".".join(owner[1]) or "the node"}` gates the descent into `{".".join(child[1]) or "the node"}` ({how})')
        else:
            res.violation(key, gb.loc(gline), f'{gb.name}: the cursor test on the location of `{".".join(owner[1])}` gates the descent into '
                          f'`{".".join(child[1])}` ({how}), but `{owner[1][-1]}` is a sibling of `{child[1][-1]}`, not a node containing it: '
                          f'a cursor inside `{child[1][-1]}` but outside `{owner[1][-1]}` is never searched, so the services find no '
                          f'definition for a binding the checker resolves')
    for b in fam.values():
        cfg = cfg_of(b)
        gs = guard_paths(b)
        ds = descent_calls(b)
        # (A) a test whose true edge dominates a descent in the same body, on the same root
        for gbi, gt, owner in gs:
            te = true_edge(b, gbi, gt)
            if te is None:
                continue
            for dbi, dt, child in ds:
                if owner[0] == child[0] and cfg.edges_dominate([te], dbi):
                    check(b, gt[7], owner, b, dt[7], child, 'same function')
        # (B) iterator pipelines: filter(pred).find_map(descend) / .map / .for_each
        for bi, bl in enumerate(b.blocks):
            t = bl.term
            if bl.cleanup or t[0] != 'call' or (callee(t)[1] or '').split('::')[-1] != 'filter' or len(t[3]) < 2 or t[4] is None:
                continue
            pred = _closure_of(prog, b, t[3][1])
            if pred is None:
                continue
            # consumer: a later call whose receiver is this filter's result
            for bj, bl2 in enumerate(b.blocks):
                t2 = bl2.term
                if bl2.cleanup or t2[0] != 'call' or len(t2[3]) < 2:
                    continue
                r2, _ = operand_root(b, t2[3][0])
                if r2 != t[4].local:
                    continue
                cons = _closure_of(prog, b, t2[3][1])
                if cons is None:
                    continue
                for gbi, gt, owner in guard_paths(pred):
                    for dbi, dt, child in descent_calls(cons):
                        # both closures receive the element as their argument (_2)
                        if owner[0] == 2 and child[0] == 2:
                            check(pred, gt[7], owner, cons, dt[7], child, 'filter -> ' + (callee(t2)[1] or '').split('::')[-1])
    # (C) the renamer and the scope analysis: a descent gated by a value computed from a Location (e.g. "is anything to rename
    # inside this range?") or by a boolean data field of the node. The former must use a location covering the child; the
    # latter is never a reason to skip a child in these walkers (surface-syntax flags such as `shorthand` do not change
    # which identifiers occur in a node).
    for mod in ('samlang_services::variable_definition', 'samlang_checker::ssa_analysis'):
        fam2 = [b for b in prog.bodies.values() if (b.name + '::').startswith(mod + '::') or ('::' + mod.split('::')[-1] + '::') in b.name and b.crate == mod.split('::')[0]]
        for b in fam2:
            cfg = cfg_of(b)
            for di, bl in enumerate(b.blocks):
                t = bl.term
                if bl.cleanup or t[0] != 'call':
                    continue
                cid, nm = callee(t)
                cb = prog.bodies.get(cid) if cid else None
                if cb is None or not cb.name.startswith(mod.rsplit('::', 1)[0]) or mod.split('::')[-1] not in cb.name:
                    continue
                child = None
                for o in t[3]:
                    if o[0] in ('c', 'm') and _is_node_ty(b.locals[o[1].local]):
                        child = operand_root(b, o)
                        break
                if child is None or child[0] is None:
                    continue
                child = (child[0], _names(child[1]))
                for si, sb in enumerate(b.blocks):
                    st = sb.term
                    if sb.cleanup or st[0] != 'switch' or st[1][0] not in ('c', 'm') or st[1][1].proj \
                            or b.locals[st[1][1].local].s != 'bool':
                        continue
                    succs = set([tg for _, tg in st[2]] + [st[3]])
                    if len(succs) < 2 or len([tg for tg in succs if cfg.edges_dominate([(si, tg)], di)]) != 1:
                        continue
                    for kind, owner in _gate_sources(b, st[1][1].local):
                        if owner[0] != child[0]:
                            continue
                        if kind == 'loc':
                            check(b, st[4], owner, b, t[7], child, 'location-derived condition')
                        elif kind == 'field' and owner[1] and owner[1][:-1] == child[1][:len(owner[1]) - 1] \
                                and owner[1] != child[1][:len(owner[1])]:
                            n_guards += 1
                            res.violation(f'field-gate:{b.name}:{".".join(owner[1])}->{".".join(child[1])}', b.loc(st[4]),
                                          f'{b.name}: the descent into `{".".join(child[1])}` is skipped depending on the boolean field '
                                          f'`{".".join(owner[1])}` of the same node: identifiers occurring in the skipped child are '
                                          f'then neither resolved nor renamed, so navigation and rename disagree with the checker')
    res.floor('position guards gating a descent', n_guards, 6)
    return [res]


def _is_node_ty(t):
    t = strip_refs(t)
    while t.k == 'adt' and t.name.split('<')[0] in ('std::boxed::Box', 'std::vec::Vec', 'std::option::Option') and t.args:
        t = strip_refs(t.args[0])
    return t.k == 'adt' and t.name.startswith('samlang_ast::source')


def _is_location(t):
    t = strip_refs(t)
    return t.k == 'adt' and t.name.split('::')[-1] == 'Location' and t.name.startswith('samlang_ast')


_PROG = None


def _gate_sources(b, bool_local, depth=0, seen=None):
    """What a branch condition is computed from: ('loc', (root, owner-path)) for every Location it depends on through call
    arguments, ('field', (root, path)) when it is a (negated) boolean field read."""
    seen = seen if seen is not None else set()
    if bool_local in seen or depth > 5:
        return []
    seen.add(bool_local)
    sd = single_def(b, bool_local)
    out = []
    if not sd:
        return out
    if sd[1] != 'term':
        rv = sd[2]
        if rv[0] == 'un' and rv[2][0] in ('c', 'm'):
            if rv[2][1].proj:
                r, p = operand_root(b, rv[2])
                if r is not None and any(e[0] == 'f' for e in p):
                    out.append(('field', (r, _names(p))))
            else:
                out += _gate_sources(b, rv[2][1].local, depth + 1, seen)
        elif rv[0] == 'use' and rv[1][0] in ('c', 'm'):
            r, p = operand_root(b, rv[1])
            if rv[1][1].proj or (r is not None and r != rv[1][1].local):
                if r is not None and any(e[0] == 'f' for e in p) and b.locals[bool_local].s == 'bool':
                    out.append(('field', (r, _names(p))))
            else:
                out += _gate_sources(b, rv[1][1].local, depth + 1, seen)
        elif rv[0] == 'ref':
            r, p = operand_root(b, ('c', rv[2]))
            if not rv[2].proj:
                out += _gate_sources(b, rv[2].local, depth + 1, seen)
            elif r is not None:
                nm = _names(p)
                if nm and nm[-1] in ('loc', 'location') and _is_location(b.locals[sd[2][2].local] if False else b.locals[bool_local]):
                    out.append(('loc', (r, nm[:-1])))
        elif rv[0] == 'agg':
            # closures / tuples: what they capture
            if rv[1][0] == 'closure' and _PROG is not None:
                cb = _PROG.bodies.get(rv[1][1])
                if cb is not None:
                    for bl in cb.blocks:
                        t = bl.term
                        if bl.cleanup or t[0] != 'call':
                            continue
                        for o in t[3]:
                            if o[0] in ('c', 'm') and _is_location(cb.locals[o[1].local]):
                                r, p = operand_root(cb, o)
                                if r != 1 or not p:
                                    continue
                                k = p[0][1] if p[0][0] == 't' else (p[0][3] if p[0][0] == 'f' else None)
                                if k is None or k >= len(rv[2]) or rv[2][k][0] not in ('c', 'm'):
                                    continue
                                nm_in = _names(p[1:])
                                if not nm_in or nm_in[-1] not in ('loc', 'location'):
                                    continue
                                pr, pp = operand_root(b, rv[2][k])
                                if pr is not None:
                                    out.append(('loc', (pr, _names(pp) + nm_in[:-1])))
            for o in rv[2]:
                if o[0] in ('c', 'm'):
                    if _is_location(b.locals[o[1].local]):
                        r, p = operand_root(b, o)
                        nm = _names(p)
                        if r is not None and nm and nm[-1] in ('loc', 'location'):
                            out.append(('loc', (r, nm[:-1])))
                            continue
                    if not o[1].proj:
                        out += _gate_sources(b, o[1].local, depth + 1, seen)
        return out
    t = sd[2]
    for o in t[3]:
        if o[0] not in ('c', 'm'):
            continue
        ty = b.locals[o[1].local]
        if _is_location(ty):
            r, p = operand_root(b, o)
            nm = _names(p)
            if r is not None and nm and nm[-1] == 'loc':
                out.append(('loc', (r, nm[:-1])))
            else:
                sd2 = single_def(b, r) if r is not None else None
                if sd2 and sd2[1] == 'term' and (callee(sd2[2])[1] or '').split('::')[-1] == 'loc' and sd2[2][3]:
                    r2, p2 = operand_root(b, sd2[2][3][0])
                    if r2 is not None:
                        out.append(('loc', (r2, _names(p2))))
        elif not o[1].proj:
            r, _p = operand_root(b, o)
            if r is not None:
                out += _gate_sources(b, r, depth + 1, seen)
    return out


def _closure_of(prog, b, op):
    if op[0] not in ('c', 'm'):
        return None
    r, _ = operand_root(b, op)
    sd = single_def(b, r) if r is not None else None
    if sd and sd[1] != 'term' and sd[2][0] == 'agg' and sd[2][1][0] == 'closure':
        return prog.bodies.get(sd[2][1][1])
    return None


def _widened_by_parser(prog, owner_field, child_field):
    """Sibling fields `owner_field` and `child_field` of one struct: does every parser construction of that struct first
    widen `<owner_field>.loc` to its union with the location of the value stored in `child_field`?"""
    found = 0
    good = 0
    where = None
    for b in prog.bodies.values():
        if b.crate != 'samlang_parser':
            continue
        cfg = None
        for bi, bl in enumerate(b.blocks):
            if bl.cleanup:
                continue
            for st in bl.stmts:
                if st[0] != 'a' or st[2][0] != 'agg' or st[2][1][0] != 'adt':
                    continue
                adt = prog.adts.get(st[2][1][1])
                if adt is None or adt.kind != 'struct':
                    continue
                fn = [f.name for f in adt.variants[0].fields]
                if owner_field not in fn or child_field not in fn:
                    continue
                found += 1
                o_op = st[2][2][fn.index(owner_field)]
                c_op = st[2][2][fn.index(child_field)]
                o_root = operand_root(b, o_op)[0]
                c_root = operand_root(b, c_op)[0]
                cfg = cfg or cfg_of(b)
                ok = False
                for bj, bl2 in enumerate(b.blocks):
                    t = bl2.term
                    if bl2.cleanup or t[0] != 'call' or not (callee(t)[1] or '').endswith('Location::union') or len(t[3]) != 2:
                        continue
                    if not cfg.nodes_dominate([bj], bi) or t[5] is None:
                        continue
                    # one operand is the location of the child value
                    from_child = False
                    for o in t[3]:
                        r, p_ = operand_root(b, o)
                        sd = single_def(b, r) if r is not None else None
                        if sd and sd[1] == 'term' and (callee(sd[2])[1] or '').split('::')[-1] == 'loc' and sd[2][3] \
                                and operand_root(b, sd[2][3][0])[0] == c_root:
                            from_child = True
                    if not from_child or t[4] is None:
                        continue
                    # the result is stored into <owner>.loc
                    dst = t[4]
                    stored = False
                    if dst.proj and dst.local == o_root and _names(dst.proj)[-1:] == ('loc',):
                        stored = True
                    for st2 in b.blocks[t[5]].stmts:
                        if st2[0] == 'a' and st2[1].local == o_root and _names(st2[1].proj)[-1:] == ('loc',) and st2[2][0] == 'use' \
                                and st2[2][1][0] in ('c', 'm') and st2[2][1][1].local == dst.local:
                            stored = True
                    if stored:
                        ok = True
                if ok:
                    good += 1
                    where = b.loc(st[3])
    if found and good == found:
        return f'every parser construction widens it with Location::union first ({where})'
    return None



# ---------------------------------------------------------------------------------------------------------------------
# RENAME-RELEVANCE (C15): the renamer rewrites a `LocalId` occurrence unconditionally; what keeps it from renaming an
# unrelated variable is that it only gets to an expression after testing that the expression's range contains the definition
# or one of the uses. A function that performs the unconditional rewrite without testing its own argument (an *unguarded*
# renamer) may be handed
#   - the caller's own expression, when the caller has tested it, or
#   - a child of a node with exactly one sub-expression and no binder of its own (the node is relevant iff the child is);
# a child of a node that owns binders (lambda parameters, patterns) or has several sub-expressions can be irrelevant while
# the node is relevant, so it needs its own test.

def run_rename_relevance(prog, tier, repo):
    from ..dataflow import root_local
    res = RuleResult('RENAME-RELEVANCE', 'C15: the unconditional rewrite of a variable occurrence is only reached for expressions whose '
                     'range was tested to contain the definition or a use (or the single child of a binder-free node that was)')
    E = 'samlang_ast::source::expr::E'
    mod = 'samlang_services::variable_definition::'
    bodies = {i: b for i, b in prog.bodies.items() if b.name.startswith(mod) and '::tests' not in b.name and b.kind != 'closure'}
    if not bodies:
        res.cannot_decide('samlang_services::variable_definition')
        return [res]

    def is_e(t):
        t = strip_refs(t)
        while t.k == 'adt' and t.name.startswith('std::boxed::Box') and t.args:
            t = strip_refs(t.args[0])
        return t.k == 'adt' and t.name == E
    # the relevance test: (&Location, &DefinitionAndUses) -> Vec<Location>
    tests = {i for i, b in bodies.items() if b.nargs == 2 and strip_refs(b.locals[1]).s.endswith('Location')
             and 'DefinitionAndUses' in strip_refs(b.locals[2]).s}
    if len(tests) > 1:
        # several predicates over (location, definition-and-uses): the *range* test is the one that asks for containment
        # (`Location::contains`), an exact-match predicate (`==`, `Vec::contains`) is not
        def asks_containment(i):
            own = [bodies[i]] + [prog.bodies[c] for c in prog.closures_of.get(i, []) if c in prog.bodies]
            return any(not bl.cleanup and bl.term[0] == 'call' and (callee(bl.term)[1] or '').endswith('Location::contains')
                       for x in own for bl in x.blocks)
        tests = {i for i in tests if asks_containment(i)}
    if len(tests) != 1:
        res.cannot_decide(f'the range test of the renamer (found {len(tests)})')
        return [res]
    # the test has to ask for *containment*: an expression is relevant when a definition / use lies inside it. A weaker relation
    # (overlap) also holds for the definition of `this`, whose location is the whole class: every expression then counts as
    # relevant and the rewrite walks into literals and class names, which it answers with a panic
    _tid = next(iter(tests))
    _own = [bodies[_tid]] + [prog.bodies[c] for c in prog.closures_of.get(_tid, []) if c in prog.bodies]
    if any(not bl.cleanup and bl.term[0] == 'call' and (callee(bl.term)[1] or '').endswith('Location::contains')
           for x in _own for bl in x.blocks):
        res.ok(f'range-test:{bodies[_tid].name}', bodies[_tid].loc(), 'the relevance test is a containment test (Location::contains)')
    else:
        res.violation(f'range-test:{bodies[_tid].name}', bodies[_tid].loc(), f'{bodies[_tid].name} decides which expressions the renamer '
                      f'descends into, but never asks `Location::contains`: with a weaker relation (overlap, comparison of start lines) '
                      f'the definition of `this` - located at the whole class - makes every expression relevant, and the rewrite aborts '
                      f'on the first literal or class name it walks into')

    def tested_exprs(b):
        """[(block, root, path)] expressions whose loc() is handed to the relevance test"""
        out = []
        for bi, bl in enumerate(b.blocks):
            t = bl.term
            if bl.cleanup or t[0] != 'call' or callee(t)[0] not in tests or not t[3]:
                continue
            r, _ = operand_root(b, t[3][0])
            sd = single_def(b, r) if r is not None else None
            if sd and sd[1] == 'term' and (callee(sd[2])[1] or '').split('::')[-1] in ('loc', 'location') and sd[2][3]:
                out.append((bi, operand_root(b, sd[2][3][0])))
        return out
    # unconditional rewrite sites: construction of E::LocalId
    eadt = [a for a in prog.adts.values() if a.name == E]
    if len(eadt) != 1:
        res.cannot_decide(E)
        return [res]
    eadt = eadt[0]
    unguarded = {}
    n = 0
    for i, b in sorted(bodies.items(), key=lambda kv: kv[1].name):
        eps = [k for k in range(1, b.nargs + 1) if is_e(b.locals[k])]
        if not eps:
            continue
        sites = [bi for bi, bl in enumerate(b.blocks) if not bl.cleanup for st in bl.stmts
                 if st[0] == 'a' and st[2][0] == 'agg' and st[2][1][0] == 'adt' and st[2][1][1] == eadt.id and st[2][1][3] == 'LocalId']
        if not sites:
            continue
        cfg = cfg_of(b)
        te = tested_exprs(b)
        for p in eps:
            tb = [bi for bi, (r, path) in te if r == p and not any(e[0] in ('f', 'v', 't') for e in path)]
            n += 1
            if tb and all(cfg.nodes_dominate(tb, s) for s in sites):
                res.ok(f'rewrite:{b.name}', b.loc(), 'the occurrence rewrite is behind a range test of the function\'s own argument')
            else:
                unguarded[i] = p
    for i, p in unguarded.items():
        g = bodies[i]
        called = False
        for hid, h in sorted(bodies.items(), key=lambda kv: kv[1].name):
            cfg = cfg_of(h)
            te = tested_exprs(h)
            for bi, bl in enumerate(h.blocks):
                t = bl.term
                if bl.cleanup or t[0] != 'call' or callee(t)[0] != i or len(t[3]) < p:
                    continue
                called = True
                r, path = operand_root(h, t[3][p - 1])
                k = sum(1 for x in res.instances if x.key.startswith(f'handover:{h.name}->{g.name}#')) + 1
                key = f'handover:{h.name}->{g.name}#{k}'
                same = [tb for tb, (r2, p2) in te if (r2, tuple(p2)) == (r, tuple(path))]
                if same and cfg.nodes_dominate(same, bi):
                    res.ok(key, h.loc(t[7]), 'the expression handed over was range-tested')
                    continue
                fs = [e for e in path if e[0] == 'f']
                node = None
                for e in fs:
                    a = prog.adts.get(e[1])
                    if a is not None and a.name.startswith('samlang_ast::source::expr::') and a.kind == 'struct':
                        node = a
                if node is not None:
                    kids = [f for f in node.variants[0].fields if is_e(f.ty) or 'expr::E<' in f.ty.s or 'ParenthesizedExpressionList' in f.ty.s
                            or 'Block<' in f.ty.s or 'IfElse' in f.ty.s]
                    binders = [f for f in node.variants[0].fields if any(x in f.ty.s for x in ('OptionallyAnnotatedId', 'pattern::', 'AnnotatedId',
                                                                                              'LambdaParameters', 'VariantPatternToExpression', 'DeclarationStatement'))]
                    if len(kids) == 1 and not binders:
                        res.ok(key, h.loc(t[7]), f'single sub-expression of a binder-free {node.name.split("::")[-1]} node')
                        continue
                    why = (f'a {node.name.split("::")[-1]} node ' + ('that owns binders' if binders else f'with {len(kids)} sub-expressions'))
                else:
                    why = 'an expression that was not range-tested'
                res.violation(key, h.loc(t[7]), f'{h.name} hands a child of {why} to {g.name}, which rewrites variable occurrences '
                              f'without testing that its argument\'s range contains the definition or a use: the node can be relevant '
                              f'because of its own binder or another child, so an unrelated variable in this child is renamed '
                              f'(`(ignored: int) -> fallback` becomes `(unused: int) -> unused`)')
        if not called:
            res.violation(f'rewrite:{g.name}', g.loc(), f'{g.name} rewrites variable occurrences without a range test and nobody calling it could be checked')
    res.floor('functions rewriting variable occurrences', n, 1)
    return [res]


# ---------------------------------------------------------------------------------------------------------------------
# SEARCH-NO-EARLY-NONE (C15): the cover search (`location_cover::search_*`) answers "which name is under the cursor" by
# descending through the children of each node; `None` means "nothing under the cursor in this subtree". Propagating the
# absence of an unrelated optional value with `?` (`receiver_type.as_nominal()?`) returns that answer before the remaining
# children were searched: occurrences inside them (the receiver of a method call on a value of type-parameter type) are then
# invisible to go-to-definition, find-references and rename. Rule: in the search functions a `?` may only propagate the result
# of another search function.

def run_search_no_early_none(prog, tier, repo):
    from ..dataflow import root_local
    from ..cfg import single_def
    res = RuleResult('SEARCH-NO-EARLY-NONE', 'C15: the cursor search never reports "nothing here" because an unrelated optional value is '
                     'absent (`?` on anything but a child search result) - the children not yet searched would be skipped')
    search = {b.id: b for b in prog.bodies.values()
              if b.name.startswith('samlang_services::location_cover::') and '::tests' not in b.name
              and 'LocationCoverSearchResult' in b.locals[0].s and 'Option' in b.locals[0].s}
    if len(search) < 3:
        res.cannot_decide('search functions of samlang_services::location_cover returning Option<LocationCoverSearchResult>')
        return [res]
    n_ctrl = 0
    for b in prog.bodies.values():
        if b.crate == 'samlang_services' and '::tests' not in b.name and b.id not in search:
            n_ctrl += sum(1 for bl in b.blocks if not bl.cleanup and bl.term[0] == 'call'
                          and 'from_residual' in (callee(bl.term)[1] or ''))
    n = 0
    for b in sorted(search.values(), key=lambda x: x.name):
        bad = []
        for bl in b.blocks:
            t = bl.term
            if bl.cleanup or t[0] != 'call' or not (callee(t)[1] or '').endswith('::branch') or 'Try' not in (callee(t)[1] or ''):
                continue
            n += 1
            # the operand of `?`: where does it come from?
            src = None
            if t[3] and t[3][0][0] in ('c', 'm'):
                r, _ = root_local(b, t[3][0][1].local)
                sd = single_def(b, r) if r is not None else None
                if sd and sd[1] == 'term':
                    src = callee(sd[2])
            if src and src[0] in search:
                continue
            # harmless when nothing is searched after it: the early `None` then equals the `None` the function would return anyway
            cfgb = cfg_of(b)
            after = cfgb.reachable(t[5]) if t[5] is not None else set()
            if not any(not b.blocks[x].cleanup and b.blocks[x].term[0] == 'call' and callee(b.blocks[x].term)[0] in search
                       for x in after):
                continue
            bad.append((t[7], (src[1] if src and src[1] else 'a local value')))
        key = f'search:{b.name}'
        if bad:
            res.violation(key, b.loc(bad[0][0]), f'{b.name} propagates the absence of `{bad[0][1].split("::")[-1]}` with `?`: the search '
                          f'answers "nothing under the cursor" for the whole node although its remaining children were not searched, '
                          f'so names inside them have no definition, no references and cannot be renamed')
        else:
            res.ok(key, b.loc(), 'no `?` except on child search results')
    res.floor('cursor search functions', len(search), 8)
    # positive control: the matcher recognises `?` where the crate uses it (query / completion entry points)
    res.floor('`?` sites recognised elsewhere in the services crate (positive control)', n_ctrl, 10)
    res.analysed['`?` sites inside search functions'] = n
    return [res]


# ---------------------------------------------------------------------------------------------------------------------
# RENAME-KEEPS-COMMENTS (C15): renaming changes names and nothing else; renaming back has to restore the original program. Where
# the renamer rebuilds a syntax node that carries a comment slot (`associated_comments`) from an existing node of the same type,
# the slot of the new node is taken from the old node - not from a default (`Id::from(name)`, `NO_COMMENT_REFERENCE`).

def run_rename_keeps_comments(prog, tier, repo):
    from ..dataflow import root_local
    from ..cfg import single_def
    res = RuleResult('RENAME-KEEPS-COMMENTS', 'C15: a node the renamer rebuilds from an existing node keeps that node\'s comment slot '
                     '(a comment before a renamed parameter survives the rename, so renaming back restores the program)')
    mod = 'samlang_services::variable_definition::'
    n = 0
    for b in sorted(prog.bodies.values(), key=lambda x: x.name):
        if not b.name.startswith(mod) or '::tests' in b.name:
            continue
        for bl in b.blocks:
            if bl.cleanup:
                continue
            for st in bl.stmts:
                if not (st[0] == 'a' and st[2][0] == 'agg' and st[2][1][0] == 'adt'):
                    continue
                adt = prog.adts.get(st[2][1][1])
                if adt is None or not adt.name.startswith('samlang_ast::source'):
                    continue
                fields = adt.variants[st[2][1][2]].fields
                ks = [k for k, f in enumerate(fields) if f.name == 'associated_comments']
                if not ks or ks[0] >= len(st[2][2]):
                    continue
                # is a node of the same type available (a parameter / the matched node)?
                has_src = any(strip_refs(b.locals[i]).k == 'adt' and strip_refs(b.locals[i]).id == adt.id for i in range(1, b.nargs + 1))
                if not has_src:
                    continue
                n += 1
                o = st[2][2][ks[0]]
                kth = sum(1 for i in res.instances if i.key.startswith(f'rebuild:{b.name}:{adt.name.split("::")[-1]}#')) + 1
                key = f'rebuild:{b.name}:{adt.name.split("::")[-1]}#{kth}'
                good = False
                if o[0] in ('c', 'm'):
                    r, p = root_local(b, o[1].local)
                    full = tuple(p) + tuple(e for e in o[1].proj if e[0] == 'f')
                    good = 1 <= r <= b.nargs and any(e[0] == 'f' and e[4] == 'associated_comments' for e in full)
                if good:
                    res.ok(key, b.loc(st[3]), 'comment slot copied from the node being rebuilt')
                else:
                    res.violation(key, b.loc(st[3]), f'{b.name} rebuilds a {adt.name.split("::")[-1]} from an existing one but does not take '
                                  f'`associated_comments` from it (a default / constant is used): comments written before the renamed '
                                  f'name disappear from the renamed document, and renaming back does not restore the original program')
    res.floor('nodes with a comment slot rebuilt by the renamer', n, 1)
    return [res]
