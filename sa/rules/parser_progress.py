"""PARSER-PROGRESS (C05): every loop of the recursive-descent parser consumes a token on every trip.

"Never loops forever" for the parser reduces to: each cycle of each parser loop contains a step that is *guaranteed* to
consume a token, whatever the current token is. Whether a called production consumes depends on the current token
(`parse_matching_pattern` consumes on `{ ( _ id Id`, but only reports on `function` or `else`), so the guarantee is computed
per token class:

  universe   one atom per keyword, per operator and per other token kind (read from the lexer's enums);
  state      (c, NC): c = "some path to here has consumed a token"; NC = the set of atoms t such that some path to here has
             consumed nothing while the current token is t (nothing consumed => the token is still the one at the start);
  transfer   `consume()` -> (true, NC restricted to EndOfFile): at the end of the input the cursor keeps answering EndOfFile, so
             consuming there is no progress and a loop has to leave on EndOfFile by a branch; a switch on the kind / keyword / operator of a `peek()` result sends each t in NC only
             along the edge t takes; `x == <constant token>` comparisons are evaluated per atom; booleans materialised from
             constants carry the state of their definition; a call of a production g moves t from NC to c if t is in the
             must-consume summary S(g) (specialised on a constant keyword / operator argument), keeps t in NC and sets c if g
             merely may consume; calling a caller-supplied closure with the parser may consume;
  summaries  S(g) = U minus NC at the returns of g, started with NC = U; least fixpoint over all parser functions;
  obligation for every loop head h whose cycle looks at or consumes tokens: started with NC = U at h, NC is empty on every
             back edge into h.
Loops that only iterate a slice / vector iterator are finite and skipped. Unbounded recursion is not covered."""
from ..core import RuleResult
from ..cfg import cfg_of, single_def
from ..dataflow import root_local, operand_root
from ..facts import callee, strip_refs

def _join(x, y):
    return (x[0] or y[0], x[1] | y[1])


class Progress:
    def __init__(self, prog):
        self.prog = prog
        self.ok = False
        tc = [a for a in prog.adts.values() if a.name == 'samlang_parser::lexer::TokenContent']
        kw = [a for a in prog.adts.values() if a.name == 'samlang_parser::lexer::Keyword']
        op = [a for a in prog.adts.values() if a.name == 'samlang_parser::lexer::TokenOp']
        if len(tc) != 1 or len(kw) != 1 or len(op) != 1:
            return
        self.tc, self.kw, self.op = tc[0], kw[0], op[0]
        self.kw_var = [i for i, v in enumerate(self.tc.variants) if v.name == 'Keyword']
        self.op_var = [i for i, v in enumerate(self.tc.variants) if v.name == 'Operator']
        if not self.kw_var or not self.op_var:
            return
        self.kw_var, self.op_var = self.kw_var[0], self.op_var[0]
        self.atoms = []
        for i in range(len(self.kw.variants)):
            self.atoms.append(('K', i))
        for i in range(len(self.op.variants)):
            self.atoms.append(('O', i))
        for i, v in enumerate(self.tc.variants):
            if i not in (self.kw_var, self.op_var):
                self.atoms.append(('V', i))
        self.aidx = {a: i for i, a in enumerate(self.atoms)}
        self.n = len(self.atoms)
        # `consume()` hands out the peeked token; at the end of the input the lexer keeps answering EndOfFile, so consuming
        # there makes no progress: the EndOfFile atom never counts as consumed
        eofv = [i for i, v in enumerate(self.tc.variants) if v.name == 'EndOfFile']
        self.eof_bit = (1 << self.aidx[('V', eofv[0])]) if eofv and ('V', eofv[0]) in self.aidx else 0
        self.bodies = {b.id: b for b in prog.bodies.values()
                       if b.crate == 'samlang_parser' and '::source_parser::' in b.name + '::' and '::tests' not in b.name}
        self.consume = [b for b in self.bodies.values() if b.name.endswith("SourceParser::<'a>::consume")]
        self.peek = [b for b in self.bodies.values() if b.name.endswith("SourceParser::<'a>::peek")]
        if len(self.consume) != 1 or len(self.peek) != 1:
            return
        self.consume, self.peek = self.consume[0], self.peek[0]
        self.may = self._may_consume()
        self.summ = {}          # (body id, spec) -> frozenset of atom indices
        self.ok = True

    # ---- helpers ------------------------------------------------------------------------------
    def takes_parser(self, b, t):
        for o in t[3]:
            if o[0] in ('c', 'm'):
                ty = strip_refs(b.locals[o[1].local])
                if ty.k == 'adt' and ty.name.endswith('SourceParser'):
                    return True
                # (parser,) argument tuples of closure calls
                if ty.k == 'tup' and any(strip_refs(x).k == 'adt' and strip_refs(x).name.endswith('SourceParser') for x in ty.args):
                    return True
        return False

    def _may_consume(self):
        from ..callgraph import body_refs
        may = {self.consume.id}
        changed = True
        while changed:
            changed = False
            for b in self.bodies.values():
                if b.id in may:
                    continue
                if any(r in may for r in body_refs(b)):
                    may.add(b.id)
                    changed = True
                    continue
                # calling an unknown closure with the parser may consume
                for bl in b.blocks:
                    t = bl.term
                    if t[0] == 'call' and not bl.cleanup and callee(t)[0] not in self.bodies and self.takes_parser(b, t) \
                            and (callee(t)[1] or '').split('::')[-1] in ('call_mut', 'call_once', 'call'):
                        may.add(b.id)
                        changed = True
                        break
        return may

    def atom_of_variant(self, kind, idx):
        return self.aidx.get((kind, idx))

    # value kinds of operands: ('tok',) ('tokkw',) ('tokop',) ('atom', i) ('kw', k) ('op', o) or None
    def kind_of(self, b, op, spec, depth=0):
        if depth > 8:
            return None
        if op[0] == 'k':
            return None
        if op[0] not in ('c', 'm'):
            return None
        r, path = root_local(b, op[1].local)
        path = tuple(path) + tuple(e for e in op[1].proj if e[0] in ('f', 't', 'v'))
        return self.kind_of_root(b, r, path, spec, depth)

    def kind_of_root(self, b, r, path, spec, depth=0):
        if 1 <= r <= b.nargs:
            if spec is not None and spec[0] == r and not [e for e in path if e[0] in ('f', 't')]:
                return spec[1]
            return None
        sd = single_def(b, r)
        if not sd:
            # `let mut peeked = parser.peek(); ... peeked = parser.peek();` - every definition is a peek result
            from ..cfg import def_sites
            ds = [d for d in def_sites(b).get(r, []) if not b.blocks[d[0]].cleanup]

            def is_peek_def(d, dep=0):
                if d[1] == 'term':
                    return callee(d[2])[0] == self.peek.id
                rv = d[2]
                if rv[0] == 'use' and rv[1][0] in ('c', 'm') and not rv[1][1].proj and dep < 4:
                    sd2 = single_def(b, rv[1][1].local)
                    return bool(sd2) and is_peek_def(sd2, dep + 1)
                return False
            if ds and all(is_peek_def(d) for d in ds):
                sd = [d for d in ds if d[1] == 'term'][0] if any(d[1] == 'term' for d in ds) else None
                if sd is None:
                    return None
            else:
                return None
        if sd[1] == 'term':
            t = sd[2]
            if callee(t)[0] == self.peek.id:
                # selectors as (index, variant of the enclosing enum or None)
                sel = []
                for e in path:
                    if e[0] == 't':
                        sel.append((e[1], None))
                    elif e[0] == 'f':
                        adt = self.prog.adts.get(e[1])
                        sel.append((e[3], e[2] if adt is not None and adt.kind == 'enum' else None))
                if len(sel) == 1 and sel[0] == (1, None):
                    return ('tok',)
                if len(sel) == 2 and sel[0] == (1, None) and sel[1][0] == 0:
                    if sel[1][1] == self.kw_var:
                        return ('tokkw',)
                    if sel[1][1] == self.op_var:
                        return ('tokop',)
                return None
            return None
        rv = sd[2]
        if rv[0] == 'agg' and rv[1][0] == 'adt':
            aid, vi = rv[1][1], rv[1][2]
            if aid == self.kw.id:
                return ('kw', vi)
            if aid == self.op.id:
                return ('op', vi)
            if aid == self.tc.id and not path:
                if vi == self.kw_var and rv[2]:
                    k = self.kind_of(b, rv[2][0], spec, depth + 1)
                    if k and k[0] == 'kw':
                        return ('atom', self.aidx[('K', k[1])])
                    return None
                if vi == self.op_var and rv[2]:
                    k = self.kind_of(b, rv[2][0], spec, depth + 1)
                    if k and k[0] == 'op':
                        return ('atom', self.aidx[('O', k[1])])
                    return None
                return ('atom', self.aidx[('V', vi)]) if ('V', vi) in self.aidx else None
        return None

    def truth(self, kind_a, kind_b, atom):
        """value of `a == b` when the current token is `atom`; None if not determined"""
        for x, y in ((kind_a, kind_b), (kind_b, kind_a)):
            if x is None or y is None:
                continue
            A = self.atoms[atom]
            if x == ('tok',) and y[0] == 'atom':
                return atom == y[1]
            if x == ('tokkw',) and y[0] == 'kw':
                return A == ('K', y[1]) if A[0] == 'K' else None
            if x == ('tokop',) and y[0] == 'op':
                return A == ('O', y[1]) if A[0] == 'O' else None
        return None

    # ---- per-body dataflow --------------------------------------------------------------------
    def call_effect(self, b, t, st, spec):
        c, nc = st
        cid, nm = callee(t)
        if cid == self.consume.id:
            return (c or (nc & ~self.eof_bit) != 0, nc & self.eof_bit)
        if cid == self.peek.id:
            return st
        if cid in self.bodies:
            g = self.bodies[cid]
            if g.id not in self.may:
                return st
            gspec = None
            for i, o in enumerate(t[3]):
                ty = strip_refs(g.locals[i + 1]) if i + 1 <= g.nargs else None
                if ty is not None and ty.k == 'adt' and ty.id in (self.kw.id, self.op.id):
                    k = self.kind_of(b, o, spec)
                    if k and k[0] in ('kw', 'op'):
                        gspec = (i + 1, k)
            S = self.summary(g, gspec)
            if nc == 0:
                return st
            return (True, nc & ~S)
        if self.takes_parser(b, t):
            short = (nm or '').split('::')[-1]
            if short in ('call_mut', 'call_once', 'call') or cid is None:
                return (c or nc != 0, nc)
        return st

    def edges(self, b, bi, st, cond, spec, trusted_peeks):
        """[(successor, vec)] for block bi, pruning per atom where the branch is decided by the current token"""
        cfg = cfg_of(b)
        t = b.blocks[bi].term
        succs = [s for s in dict.fromkeys(cfg.succ[bi]) if not b.blocks[s].cleanup]
        if t[0] != 'switch' or t[1][0] not in ('c', 'm') or t[1][1].proj:
            return [(s, st) for s in succs]
        l = t[1][1].local
        targets = {}
        for v, tg in t[2]:
            targets.setdefault(tg, set()).add(v)
        otherwise = t[3]
        listed = {v for v, _ in t[2]}
        sd = single_def(b, l)

        def peek_ok(place_local):
            r, _ = root_local(b, place_local)
            return trusted_peeks is None or r in trusted_peeks

        decide = None       # atom -> set of feasible targets, or None
        if sd and sd[1] != 'term' and sd[2][0] == 'disc':
            pl = sd[2][1]
            k = self.kind_of(b, ('c', pl), spec)
            if k in (('tok',), ('tokkw',), ('tokop',)) and peek_ok(pl.local):
                def decide(atom, k=k):
                    A = self.atoms[atom]
                    if k == ('tok',):
                        vi = self.kw_var if A[0] == 'K' else (self.op_var if A[0] == 'O' else A[1])
                    elif k == ('tokkw',):
                        if A[0] != 'K':
                            return None
                        vi = A[1]
                    else:
                        if A[0] != 'O':
                            return None
                        vi = A[1]
                    for v, tg in t[2]:
                        if v == vi:
                            return {tg}
                    return {otherwise}
        elif sd and sd[1] == 'term' and b.locals[l].s == 'bool':
            ct = sd[2]
            nm = callee(ct)[1] or ''
            if nm.endswith(('PartialEq>::eq', 'PartialEq>::ne')) and len(ct[3]) == 2:
                ka, kb = self.kind_of(b, ct[3][0], spec), self.kind_of(b, ct[3][1], spec)
                roots_ok = all(peek_ok(o[1].local) for o in ct[3] if o[0] in ('c', 'm'))
                if (ka or kb) and roots_ok:
                    neg = nm.endswith('::ne')

                    def decide(atom, ka=ka, kb=kb, neg=neg):
                        tr = self.truth(ka, kb, atom)
                        if tr is None:
                            return None
                        val = 1 if (tr != neg) else 0
                        for v, tg in t[2]:
                            if v == val:
                                return {tg}
                        return {otherwise}
        out = []
        if decide is None and b.locals[l].s == 'bool' and ((l, True) in cond or (l, False) in cond):
            # materialised boolean: each edge continues with the state(s) of the definitions that give that value
            for s in succs:
                vals = targets.get(s, set())
                truths = set()
                if s == otherwise:
                    truths |= {True} if 0 in listed else {True, False}
                if 0 in vals:
                    truths.add(False)
                if any(v != 0 for v in vals):
                    truths.add(True)
                acc = None
                for tr in truths:
                    cv = cond.get((l, tr))
                    if cv is not None:
                        acc = cv if acc is None else _join(acc, cv)
                out.append((s, acc if acc is not None else (False, 0)))
            return out
        if decide is None:
            return [(s, st) for s in succs]
        c, nc = st
        per = {s: 0 for s in succs}
        for a in range(self.n):
            if not (nc >> a) & 1:
                continue
            feas = decide(a)
            for s in succs:
                if feas is None or s in feas:
                    per[s] |= (1 << a)
        return [(s, (c, per[s])) for s in succs]

    def run_body(self, b, spec, start, init, region=None, trusted_peeks=None):
        """forward dataflow; returns in-states {block: (state, cond)}"""
        inn = {start: (init, {})}
        work = [start]
        steps = 0
        while work and steps < 40000:
            steps += 1
            bi = work.pop()
            st, cond = inn[bi]
            cond = dict(cond)
            bl = b.blocks[bi]
            for s_ in bl.stmts:
                if s_[0] == 'a' and not s_[1].proj and b.locals[s_[1].local].s == 'bool' and s_[2][0] == 'use' \
                        and s_[2][1][0] == 'k' and s_[2][1][1].i is not None:
                    val = bool(s_[2][1][1].i)
                    cond[(s_[1].local, val)] = st
                    cond.pop((s_[1].local, not val), None)
            t = bl.term
            if t[0] == 'call':
                st = self.call_effect(b, t, st, spec)
            for s, st2 in self.edges(b, bi, st, cond, spec, trusted_peeks):
                if region is not None and (s not in region or s == start):
                    continue        # loop analysis: one trip only, the back edge is inspected by the caller
                old = inn.get(s)
                if old is None:
                    inn[s] = (st2, dict(cond))
                    work.append(s)
                    continue
                ov, oc = old
                nv = _join(ov, st2)
                nc_ = dict(oc)
                ch = nv != ov
                for k, cv in cond.items():
                    if k in nc_:
                        j = _join(nc_[k], cv)
                        if j != nc_[k]:
                            nc_[k] = j
                            ch = True
                    else:
                        nc_[k] = cv
                        ch = True
                if ch:
                    inn[s] = (nv, nc_)
                    if s not in work:
                        work.append(s)
        return inn

    def out_state(self, b, bi, inn, spec):
        st, cond = inn[bi]
        t = b.blocks[bi].term
        if t[0] == 'call':
            st = self.call_effect(b, t, st, spec)
        return st

    def summary(self, g, spec):
        key = (g.id, spec)
        if key in self.summ:
            return self.summ[key]
        if g.id == self.consume.id:
            self.summ[key] = ((1 << self.n) - 1) & ~self.eof_bit
            return self.summ[key]
        if g.id == self.peek.id or g.id not in self.may:
            self.summ[key] = 0
            return self.summ[key]
        self.summ[key] = 0      # least fixpoint: assume nothing while computing (recursion)
        self.pending.add(key)
        return self.summ[key]

    def compute(self):
        """least fixpoint of all requested summaries"""
        self.pending = set()
        for b in self.bodies.values():
            self.summary(b, None)
        for _round in range(12):
            changed = False
            keys = list(self.summ.keys())
            for (gid, spec) in keys:
                g = self.bodies.get(gid)
                if g is None or gid in (self.consume.id, self.peek.id) or gid not in self.may:
                    continue
                cfg = cfg_of(g)
                full = (1 << self.n) - 1
                inn = self.run_body(g, spec, 0, (False, full))
                nc_exit = 0
                reached = False
                for e in cfg.exits:
                    if e in inn:
                        reached = True
                        nc_exit |= inn[e][0][1]
                res = (full & ~nc_exit) if reached else 0
                if res != self.summ[(gid, spec)]:
                    self.summ[(gid, spec)] = res
                    changed = True
            if len(self.summ) != len(keys):
                changed = True
            if not changed:
                break


def run(prog, tier, repo):
    res = RuleResult('PARSER-PROGRESS', 'C05: the parser never loops forever - every trip through every parser loop passes a step '
                     'that is guaranteed to consume a token, for every possible current token')
    P = Progress(prog)
    if not P.ok:
        res.cannot_decide('the lexer token enums and the parser\'s peek/consume primitives')
        return [res]
    P.compute()
    n_loops = 0
    for b in sorted(P.bodies.values(), key=lambda x: x.name):
        if b.id == P.peek.id:
            continue        # the comment-skipping loop advances the lexer, which is finite (C05 lexer rules)
        cfg = cfg_of(b)
        heads = sorted({h for (_, h) in cfg.back_edges()})
        for h in heads:
            # natural loop of the back edges into h: h plus everything that reaches a back-edge source without passing h
            sources = [x for (x, hh) in cfg.back_edges() if hh == h]
            body_blocks = {h}
            stack = list(sources)
            while stack:
                x = stack.pop()
                if x in body_blocks:
                    continue
                body_blocks.add(x)
                stack.extend(p_ for p_ in cfg.pred[x] if p_ in cfg.reach and not b.blocks[p_].cleanup)
            touches = False
            for x in body_blocks:
                t = b.blocks[x].term
                if t[0] == 'call' and (callee(t)[0] in P.bodies or P.takes_parser(b, t)):
                    touches = True
            driven = False
            for x in body_blocks:
                t = b.blocks[x].term
                if t[0] == 'call':
                    cid = callee(t)[0]
                    if cid in P.may or cid == P.peek.id or (cid not in P.bodies and P.takes_parser(b, t)):
                        driven = True
            if not touches or not driven:
                continue        # a loop over an iterator / vector that neither looks at nor consumes tokens: bounded by its length
            n_loops += 1
            nb = sum(1 for i in res.instances if i.key.startswith(f'loop:{b.name}#')) + 1
            key = f'loop:{b.name}#{nb}'
            trusted = set()
            for x in body_blocks:
                t = b.blocks[x].term
                if t[0] == 'call' and callee(t)[0] == P.peek.id and t[4] is not None and not t[4].proj:
                    trusted.add(t[4].local)
            full = (1 << P.n) - 1
            inn = P.run_body(b, None, h, (False, full), region=body_blocks, trusted_peeks=trusted)
            badmask = 0
            for x in body_blocks:
                if h in cfg.succ[x] and x in inn:
                    out = P.out_state(b, x, inn, None)
                    for s, st2 in P.edges(b, x, out, inn[x][1], None, trusted):
                        if s == h:
                            badmask |= st2[1]
            bad = {a for a in range(P.n) if (badmask >> a) & 1}
            line = b.blocks[h].term[-1] if isinstance(b.blocks[h].term[-1], int) else None
            if not bad:
                res.ok(key, b.loc(), f'every trip consumes a token (checked for {P.n} token classes)')
            else:
                def nm(a):
                    A = P.atoms[a]
                    if A[0] == 'K':
                        return 'keyword ' + P.kw.variants[A[1]].name
                    if A[0] == 'O':
                        return 'operator ' + P.op.variants[A[1]].name
                    return P.tc.variants[A[1]].name
                ex = ', '.join(nm(a) for a in sorted(bad)[:6])
                res.violation(key, b.loc(), f'{b.name}: a loop can complete a trip without consuming any token when the current token is '
                              f'{ex}{" ..." if len(bad) > 6 else ""} ({len(bad)} of {P.n} token classes): the loop condition still '
                              f'holds on the next trip, so parsing such an input never terminates')
    res.floor('parser loops', n_loops, 6)
    res.analysed['token_classes'] = P.n
    res.analysed['summaries'] = len(P.summ)
    return [res]


# ---------------------------------------------------------------------------------------------------------------------
# LIST-END-TOKEN (C08): the comma-separated-list helper is told which token closes the list; it uses that only to recognise
# a trailing comma (`a, b, )`). The printer emits a trailing comma whenever a comment precedes the closing bracket, so the
# formatted text re-parses only if the helper is given the very token the production then consumes as the closing bracket.
# Rule: after every call of the list helper with a constant end token E, the first closing-token assertion on every path
# (in the same function, or - if the function returns first - in each caller right after the call) is for E.

def run_list_end_token(prog, tier, repo):
    res = RuleResult('LIST-END-TOKEN', 'C08: every comma-separated list is parsed with the end token that the production consumes next '
                     '(otherwise `<A, B,>` - which the printer emits when a comment precedes `>` - no longer parses)')
    P = Progress(prog)
    if not P.ok:
        res.cannot_decide('lexer enums / parser primitives')
        return [res]
    helpers = [b for b in P.bodies.values() if 'parse_comma_separated_list_with_end_token' in b.name and b.kind != 'closure']
    if not helpers:
        res.cannot_decide('the comma-separated list helper')
        return [res]
    hid = {b.id for b in helpers}
    asserts = [b for b in P.bodies.values() if b.name.endswith('::assert_and_consume_operator')]
    if len(asserts) != 1:
        res.cannot_decide('assert_and_consume_operator')
        return [res]
    aid = asserts[0].id

    def const_op(b, t):
        for o in t[3]:
            k = P.kind_of(b, o, None)
            if k and k[0] == 'op':
                return k[1]
        return None

    def first_asserts_after(b, start_block, depth=0):
        """set of (operator index or None) of the first closing-token assertions reached from the successor of start_block;
        'RET' when a path returns first"""
        cfg = cfg_of(b)
        out = set()
        seen = set()
        t0 = b.blocks[start_block].term
        stack = [t0[5]] if t0[0] == 'call' and t0[5] is not None else []
        while stack:
            x = stack.pop()
            if x in seen or b.blocks[x].cleanup:
                continue
            seen.add(x)
            t = b.blocks[x].term
            if t[0] == 'call' and callee(t)[0] == aid:
                out.add(const_op(b, t))
                continue
            if t[0] == 'ret':
                out.add('RET')
                continue
            stack.extend(cfg.succ[x])
        return out
    n = 0
    for b in sorted(P.bodies.values(), key=lambda x: x.name):
        if b.id in hid:
            continue
        for bi, bl in enumerate(b.blocks):
            t = bl.term
            if bl.cleanup or t[0] != 'call' or callee(t)[0] not in hid:
                continue
            E = const_op(b, t)
            n += 1
            nb = sum(1 for i in res.instances if i.key.startswith(f'list:{b.name}#')) + 1
            key = f'list:{b.name}#{nb}'
            if E is None:
                res.ok(key, b.loc(t[7]), 'end token passed through from the caller')
                continue
            firsts = first_asserts_after(b, bi)
            if 'RET' in firsts:
                firsts.discard('RET')
                # continue in the callers
                for c in P.bodies.values():
                    for ci, cl in enumerate(c.blocks):
                        ct = cl.term
                        if not cl.cleanup and ct[0] == 'call' and callee(ct)[0] == b.id:
                            firsts |= {x for x in first_asserts_after(c, ci) if x != 'RET'}
            wrong = [x for x in firsts if x != E]
            en = P.op.variants[E].name
            if not wrong:
                res.ok(key, b.loc(t[7]), f'list ends at {en}; the production consumes {en} next')
            else:
                wn = ', '.join(P.op.variants[x].name if x is not None else 'a computed token' for x in wrong)
                res.violation(key, b.loc(t[7]), f'{b.name} parses a comma-separated list that is told to end at {en}, but the closing '
                              f'token consumed next is {wn}: a trailing comma before {wn} is rejected, and the printer emits exactly '
                              f'that when a comment precedes the closing bracket, so formatted code no longer parses')
    res.floor('comma-separated list call sites', n, 8)
    return [res]
