"""LOOKUP-UNWRAP (C11): every unwrap/expect of a lookup into a ServerState map, on the request path, is
justified by a dominating successful lookup of the same key in a map whose key set is included
(DESIGN.md §3.2)."""
from ..core import RuleResult
from ..cfg import cfg_of, single_def
from ..dataflow import operand_root, root_local, field_names
from ..facts import callee, callee_decl

STATE = 'samlang_services::server_state::ServerState'
MAPS = ('string_sources', 'parsed_modules', 'checked_modules', 'global_cx', 'errors')   # role names


def state_roles(prog):
    """Role -> actual field name of ServerState, resolved by the *value type* of each ModuleReference-keyed map
    (so renaming a field does not disturb the rules):
      string_sources: String; parsed_modules: Module<()>; checked_modules: Module<Arc<Type>>;
      global_cx: ModuleSignature; errors: Vec<CompileTimeError>; dep_graph: the DependencyGraph field."""
    st = [a for a in prog.adts.values() if a.name == STATE]
    if len(st) != 1:
        return None
    roles = {}
    for f in st[0].variants[0].fields:
        t = f.ty
        if t.k == 'adt' and t.name.startswith('std::collections::HashMap') and len(t.args) >= 2 \
                and t.args[0].k == 'adt' and t.args[0].name.endswith('ModuleReference'):
            v = t.args[1]
            if v.k == 'adt' and v.name == 'std::string::String':
                roles['string_sources'] = f.name
            elif v.k == 'adt' and v.name == 'samlang_ast::source::Module':
                if v.args and v.args[0].k == 'tup':
                    roles['parsed_modules'] = f.name
                else:
                    roles['checked_modules'] = f.name
            elif v.k == 'adt' and v.name.endswith('ModuleSignature'):
                roles['global_cx'] = f.name
            elif v.k == 'adt' and v.name.startswith('std::vec::Vec') and v.args and v.args[0].name.endswith('CompileTimeError'):
                roles['errors'] = f.name
        elif t.k == 'adt' and t.name.endswith('DependencyGraph'):
            roles['dep_graph'] = f.name
    return roles if len(roles) == 6 else None


_ROLE_OF_FIELD = {}


def _install_roles(prog):
    roles = state_roles(prog)
    _ROLE_OF_FIELD.clear()
    if roles:
        for role, field in roles.items():
            _ROLE_OF_FIELD[field] = role
    return roles


# keys(A) is a subset of keys(B); derived by reading the three mutators and ServerState::new (the mutator
# side of these inclusions is what the C10 rules UPDATE-ORDER / SIG-KEY watch).
INCLUDED_IN = {
    'checked_modules': {'checked_modules', 'parsed_modules', 'string_sources', 'global_cx'},
    'parsed_modules': {'parsed_modules', 'string_sources', 'global_cx', 'checked_modules'},
    'global_cx': {'global_cx'},
    'string_sources': {'string_sources', 'parsed_modules', 'global_cx', 'checked_modules'},
    'errors': {'errors'},   # NO inclusion: group_errors only has keys for modules with errors
}
# maps for which "the module of a stored error is a key" holds (assumption A-11.2: errors are grouped by the module they are
# located in, and errors[m] is emptied when m is removed)
ERROR_MODULE_IS_KEY_OF = {'parsed_modules', 'string_sources'}
# (function, map) whose key is trusted without a visible guard, one reason each (none needed at present)
TRUSTED_KEYS = {}
COMBINATORS = ('Option::<T>::and_then', 'Option::<T>::map', 'Option::<T>::filter', 'Option::<T>::is_some_and',
               'Option::<T>::map_or', 'Option::<T>::map_or_else', 'Option::<T>::inspect', 'Option::<T>::iter',
               'Option::<T>::into_iter', 'Option::<T>::as_ref', 'Option::<T>::copied', 'Option::<T>::cloned')


def _norm_key(prog, body, root, path):
    """Key identity: (owner body id, local, field-name path); closure captures are mapped to the parent."""
    names = field_names(path)
    depth = 0
    while body.kind == 'closure' and root == 1 and path and path[0][0] == 't' and depth < 5:
        depth += 1
        idx = path[0][1]
        parent = prog.bodies.get(_direct_parent(prog, body))
        if parent is None:
            break
        agg = None
        for bl in parent.blocks:
            for st in bl.stmts:
                if st[0] == 'a' and st[2][0] == 'agg' and st[2][1][0] == 'closure' and st[2][1][1] == body.id:
                    agg = st[2]
        if agg is None or idx >= len(agg[2]):
            break
        r2, p2 = operand_root(parent, agg[2][idx])
        if r2 is None:
            break
        rest = path[1:]
        body, root, path = parent, r2, p2 + rest
        names = field_names(path)
    return (body.id, root, names)


def _direct_parent(prog, body):
    """Body that constructs this closure (the facts' `parent` is the outermost fn; find the real one)."""
    cands = [body.parent] + list(prog.closures_of.get(body.parent, []))
    for c in cands:
        b = prog.bodies.get(c)
        if b is None or b.id == body.id:
            continue
        for bl in b.blocks:
            for st in bl.stmts:
                if st[0] == 'a' and st[2][0] == 'agg' and st[2][1][0] == 'closure' and st[2][1][1] == body.id:
                    return b.id
    return body.parent


def _state_map_of(body, op):
    """If operand is a reference to a ServerState map field, return the field name."""
    root, path = operand_root(body, op)
    for e in reversed(path):
        if e[0] == 'f':
            if e[1] == STATE and _ROLE_OF_FIELD.get(e[4]) in MAPS:
                return _ROLE_OF_FIELD[e[4]]
            return None
    return None


SOME_PRESERVING = ('map', 'as_ref', 'as_mut', 'copied', 'cloned', 'as_deref', 'as_deref_mut', 'filter', 'and_then', 'inspect',
                   'take', 'zip', 'flatten')


def _uses_of_option(body, d, depth=0):
    """Success edges for Option/bool local d: [(from_bb, to_bb)]."""
    edges = []
    for bi, bl in enumerate(body.blocks):
        if bl.cleanup:
            continue
        t = bl.term
        if t[0] == 'call' and t[3]:
            r, p = operand_root(body, t[3][0])
            name = callee(t)[1] or ''
            if r == d and not p:
                short = name.split('::')[-1]
                if 'Option::<T>::' in name and short in SOME_PRESERVING and t[4] is not None and not t[4].proj and depth < 5:
                    # Some(adapter(x)) implies Some(x)
                    edges += _uses_of_option(body, t[4].local, depth + 1)
                elif name.endswith('Option::<T>::is_some_and') and t[5] is not None:
                    edges += _bool_edges(body, t[4].local, True)
                if name.endswith('as std::ops::Try>::branch') and t[5] is not None:
                    res = t[4].local
                    for bj, bl2 in enumerate(body.blocks):
                        t2 = bl2.term
                        if t2[0] == 'switch' and t2[1][0] in ('c', 'm'):
                            sd = single_def(body, t2[1][1].local)
                            if sd and sd[1] != 'term' and sd[2][0] == 'disc' and root_local(body, sd[2][1].local)[0] == res:
                                for v, tg in t2[2]:
                                    if v == 0:
                                        edges.append((bj, tg))
                elif name.endswith('Option::<T>::unwrap') or name.endswith('Option::<T>::expect'):
                    if t[5] is not None:
                        edges.append((bi, t[5]))
                elif name.endswith('Option::<T>::is_some') and t[5] is not None:
                    edges += _bool_edges(body, t[4].local, True)
                elif name.endswith('Option::<T>::is_none') and t[5] is not None:
                    edges += _bool_edges(body, t[4].local, False)
        if t[0] == 'switch' and t[1][0] in ('c', 'm'):
            sd = single_def(body, t[1][1].local)
            if sd and sd[1] != 'term' and sd[2][0] == 'disc' and root_local(body, sd[2][1].local)[0] == d \
                    and not [e for e in sd[2][1].proj if e[0] != 'd']:
                for v, tg in t[2]:
                    if v == 1:
                        edges.append((bi, tg))
    return edges


def _bool_edges(body, d, want_true):
    edges = []
    for bi, bl in enumerate(body.blocks):
        t = bl.term
        if t[0] == 'switch' and t[1][0] in ('c', 'm') and root_local(body, t[1][1].local)[0] == d:
            zero = [tg for v, tg in t[2] if v == 0]
            if want_true:
                edges.append((bi, t[3]))
                edges += [(bi, tg) for v, tg in t[2] if v != 0]
            else:
                edges += [(bi, tg) for tg in zero]
    return edges


class Analysis:
    def __init__(self, prog):
        self.prog = prog
        self.bodies = [b for b in prog.bodies.values() if b.crate == 'samlang_services']
        self.validators = {}   # body id -> {param_index: set(maps)}  (Some/true result implies key in maps)
        self._events = {}

    # ---- events: program points after which `key in map` is known ----
    def events(self, body):
        """[(maps:set, key_id, success_edges:list, combinator_closures:set)]"""
        if body.id in self._events:
            return self._events[body.id]
        out = []
        for bi, bl in enumerate(body.blocks):
            if bl.cleanup:
                continue
            t = bl.term
            if t[0] != 'call' or t[5] is None:
                continue
            cid, name = callee(t)
            name = name or ''
            maps = None
            keyop = None
            if (name.endswith('HashMap::<K, V, S, A>::get') or name.endswith('HashMap::<K, V, S, A>::get_mut')
                    or name.endswith('HashMap::<K, V, S, A>::contains_key')) and len(t[3]) >= 2:
                m = _state_map_of(body, t[3][0])
                if m:
                    maps = set(INCLUDED_IN[m])
                    keyop = t[3][1]
            elif name.endswith('HashMap::<K, V, S, A>::remove') and len(t[3]) >= 2:
                # remove() returns Some iff the key was present; afterwards it is gone from that map only
                m = _state_map_of(body, t[3][0])
                if m:
                    maps = set(INCLUDED_IN[m]) - {m}
                    keyop = t[3][1]
            elif cid in self.validators:
                for idx, ms in self.validators[cid].items():
                    if idx - 1 < len(t[3]):
                        maps = set(ms)
                        keyop = t[3][idx - 1]
            if maps is None:
                continue
            r, p = operand_root(body, keyop)
            if r is None:
                continue
            key = _norm_key(self.prog, body, r, p)
            d = t[4].local
            if name.endswith('contains_key'):
                edges = _bool_edges(body, d, True)
            else:
                edges = _uses_of_option(body, d)
            # derived options: and_then/map chains keep "None stays None"
            closures = set()
            frontier = {d}
            for _ in range(6):
                new = set()
                for bj, bl2 in enumerate(body.blocks):
                    t2 = bl2.term
                    if t2[0] == 'call' and t2[3] and (callee(t2)[1] or '').endswith(COMBINATORS):
                        r2, p2 = operand_root(body, t2[3][0])
                        if r2 in frontier and not p2:
                            for o in t2[3][1:]:
                                ro, _ = operand_root(body, o)
                                if ro is not None:
                                    sd = single_def(body, ro)
                                    if sd and sd[1] != 'term' and sd[2][0] == 'agg' and sd[2][1][0] == 'closure':
                                        closures.add(sd[2][1][1])
                            if t2[4].local not in frontier:
                                new.add(t2[4].local)
                                edges += _uses_of_option(body, t2[4].local)
                if not new:
                    break
                frontier |= new
            out.append((maps, key, edges, closures, frontier, bi))
        self._events[body.id] = out
        return out

    def compute_validators(self):
        """Fixpoint: H validates param i for maps M if its Option/bool result is None/false whenever an event on
        param i fails: every return is dominated by the event's success edges, or `_0` derives from the event."""
        changed = True
        rounds = 0
        while changed and rounds < 6:
            rounds += 1
            changed = False
            self._events = {}
            for b in self.bodies:
                if b.kind == 'closure':
                    continue
                rt = b.locals[0]
                if not (rt.k == 'adt' and rt.name.startswith('std::option::Option')) and rt.s != 'bool':
                    continue
                cfg = cfg_of(b)
                for maps, key, edges, closures, frontier, ebb in self.events(b):
                    if key[0] != b.id or not (1 <= key[1] <= b.nargs) or key[2]:
                        continue
                    ok = True
                    for ex in cfg.exits:
                        if cfg.edges_dominate(edges, ex):
                            continue
                        ok = False
                    if not ok:
                        # every path must at least run the event, and paths avoiding the success edges must
                        # produce None via `?` (from_residual) or return a derived option
                        ok = cfg.nodes_dominate([ebb], cfg.exits[0]) if cfg.exits else False
                        if ok:
                            ok = self._failure_paths_yield_none(b, cfg, edges, frontier, ebb)
                    if ok:
                        cur = self.validators.setdefault(b.id, {}).setdefault(key[1], set())
                        if not maps <= cur:
                            cur |= maps
                            changed = True

    def _failure_paths_yield_none(self, b, cfg, edges, frontier, ebb=None):
        """Blocks reachable without taking a success edge must only assign _0 from from_residual or from a
        combinator applied to a derived option."""
        reach = cfg.reachable(0, removed_edges=edges)
        for bi in reach:
            bl = b.blocks[bi]
            for st in bl.stmts:
                if st[0] == 'a' and st[1].local == 0 and not st[1].proj:
                    rv = st[2]
                    if rv[0] == 'agg' and rv[1][0] == 'adt' and rv[1][3] == 'None':
                        continue
                    if rv[0] == 'use' and rv[1][0] in ('c', 'm') and root_local(b, rv[1][1].local)[0] in frontier:
                        continue
                    return False
            t = bl.term
            if t[0] == 'call' and t[4].local == 0 and not t[4].proj:
                name = callee(t)[1] or ''
                if bi == ebb:
                    continue        # the lookup itself is what the function returns (`fn m(..) -> Option<&V> { map.get(k) }`)
                if 'FromResidual' in name:
                    continue
                if name.endswith(COMBINATORS) and t[3] and operand_root(b, t[3][0])[0] in frontier:
                    continue
                return False
        return True

    # ---- justification of a site ----
    def justified(self, body, bb, need_map, key, depth=0):
        """Is `key in need_map` known at block bb of body?"""
        cfg = cfg_of(body)
        for maps, k, edges, closures, frontier, ebb in self.events(body):
            if k == key and need_map in maps and edges and cfg.edges_dominate(edges, bb):
                return f'dominated by a successful lookup of the same key ({sorted(maps)})'
        # inside a combinator closure of an event in an enclosing body
        if body.kind == 'closure':
            pid = _direct_parent(self.prog, body)
            parent = self.prog.bodies.get(pid)
            if parent is not None:
                for maps, k, edges, closures, frontier, ebb in self.events(parent):
                    if body.id in closures and k == key and need_map in maps:
                        return 'inside a closure that an Option combinator only runs when the lookup of the same key succeeded'
                # or the closure is constructed at a justified point of the parent
                for bi, bl in enumerate(parent.blocks):
                    for st in bl.stmts:
                        if st[0] == 'a' and st[2][0] == 'agg' and st[2][1][0] == 'closure' and st[2][1][1] == body.id:
                            r = self.justified(parent, bi, need_map, key, depth + 1) if depth < 4 else None
                            if r:
                                return 'closure built where ' + r
        # J5: the key was compared equal to the module of a stored error (`k == error.location.module_reference`); by A-11.2
        # errors are only stored for loaded modules, so the key is a key of the module maps
        if need_map in ERROR_MODULE_IS_KEY_OF:
            for bi, bl in enumerate(body.blocks):
                t = bl.term
                if bl.cleanup or t[0] != 'call' or len(t[3]) != 2 or t[5] is None:
                    continue
                nm = callee(t)[1] or ''
                if not (nm.endswith('PartialEq>::eq') or nm.endswith('PartialEq::eq')):
                    continue
                ops = []
                for o in t[3]:
                    r, pth = operand_root(body, o)
                    ops.append((None, ()) if r is None else (_norm_key(self.prog, body, r, pth), field_names(pth)))
                hit = False
                for (ka, na), (kb, nb) in ((ops[0], ops[1]), (ops[1], ops[0])):
                    if ka == key and tuple(nb[-2:]) == ('location', 'module_reference'):
                        hit = True
                if not hit or t[4] is None or t[4].proj:
                    continue
                nb_ = body.blocks[t[5]]
                st = nb_.term
                if st[0] == 'switch' and st[1][0] in ('c', 'm') and st[1][1].local == t[4].local and not st[1][1].proj:
                    true_tg = st[3]
                    if all(tg != true_tg for _, tg in st[2]) and cfg.edges_dominate([(t[5], true_tg)], bb):
                        return 'compared equal to the module of a stored error (errors are stored for loaded modules only, A-11.2)'
        # key is a parameter: every caller must justify it at the call (private helpers only)
        if key[0] == body.id and body.kind != 'closure' and 1 <= key[1] <= body.nargs and not key[2] and depth < 3:
            if body.pub:
                return None
            sites = []
            for c in self.bodies:
                for bi, bl in enumerate(c.blocks):
                    t = bl.term
                    if t[0] == 'call' and callee(t)[0] == body.id and not bl.cleanup:
                        sites.append((c, bi, t))
            if sites:
                why = []
                for c, bi, t in sites:
                    r, p = operand_root(c, t[3][key[1] - 1])
                    if r is None:
                        return None
                    ck = _norm_key(self.prog, c, r, p)
                    j = self.justified(c, bi, need_map, ck, depth + 1)
                    if j is None and (c.name, need_map) in TRUSTED_KEYS:
                        j = 'trusted: ' + TRUSTED_KEYS[(c.name, need_map)]
                    if j is None:
                        return None
                    why.append(c.name.split('::')[-1])
                return f'every caller ({", ".join(sorted(set(why)))}) establishes it for the argument'
        return None


def run(prog, tier, repo):
    res = RuleResult('LOOKUP-UNWRAP', 'C11: a request on any file returns a result or nothing - no unwrap of a state-map '
                     'lookup without a dominating successful lookup of the same key')
    if _install_roles(prog) is None:
        res.cannot_decide('the module maps of ServerState (by value type)')
        return [res]
    an = Analysis(prog)
    an.compute_validators()
    res.analysed['validating_helpers'] = sorted(
        f'{prog.bodies[i].name}(param {k}) => key in {sorted(v)}' for i, d in an.validators.items() for k, v in d.items())
    n_sites = 0
    for b in sorted(an.bodies, key=lambda x: x.name):
        if 'server_state::' in b.name:
            scope_mutator = True
        else:
            scope_mutator = False
        for bi, bl in enumerate(b.blocks):
            if bl.cleanup:
                continue
            t = bl.term
            if t[0] != 'call' or not t[3]:
                continue
            name = callee(t)[1] or ''
            if not (name.endswith('Option::<T>::unwrap') or name.endswith('Option::<T>::expect')):
                continue
            # receiver must be the direct result of a get on a state map
            r, p = operand_root(b, t[3][0])
            if r is None or p:
                continue
            sd = single_def(b, r)
            if sd is None or sd[1] != 'term':
                continue
            gt = sd[2]
            gname = callee(gt)[1] or ''
            if not (gname.endswith('HashMap::<K, V, S, A>::get') or gname.endswith('HashMap::<K, V, S, A>::get_mut')
                    or gname.endswith('HashMap::<K, V, S, A>::remove')):
                continue
            m = _state_map_of(b, gt[3][0])
            if not m:
                continue
            n_sites += 1
            kr, kp = operand_root(b, gt[3][1])
            key = _norm_key(prog, b, kr, kp)
            fn = b.name
            ikey = f'{fn}:{m}'
            # the unwrap itself must not count as its own justification: look at the block of the get call
            why = an.justified(b, sd[0], m, key)
            if why is None and (fn, m) in TRUSTED_KEYS:
                why = 'trusted: ' + TRUSTED_KEYS[(fn, m)]
            if why:
                res.ok(ikey, b.loc(t[7]), why)
            else:
                res.violation(ikey, b.loc(t[7]),
                              f'{fn}: `state.{m}.get(key).unwrap()` is not dominated by a successful lookup of the same key '
                              f'in a map whose keys are included in {m} (no inclusion holds for `errors`): a request on a '
                              f'file without such an entry aborts the server')
    res.floor('unwrap sites on state-map lookups', n_sites, 10)
    return [res]


def run_writers(prog, tier, repo):
    """STATE-WRITERS: the key-set inclusions LOOKUP-UNWRAP relies on can only be broken by code that mutates the
    maps; that code must live in the server_state module (whose three mutators the C10 rules analyse)."""
    res = RuleResult('STATE-WRITERS', 'C11: only the server-state module mutates the module maps (key-set inclusions)')
    if _install_roles(prog) is None:
        res.cannot_decide('the module maps of ServerState (by value type)')
        return [res]
    n = 0
    for b in prog.bodies.values():
        for bi, bl in enumerate(b.blocks):
            if bl.cleanup:
                continue
            for st in bl.stmts:
                if st[0] != 'a':
                    continue
                rv = st[2]
                pl = None
                if rv[0] == 'ref' and rv[1] == 1:
                    pl = rv[2]
                elif st[1].proj:
                    pl = st[1]      # direct field assignment
                if pl is None:
                    continue
                fs = [e for e in pl.proj if e[0] == 'f']
                if not fs or fs[-1][1] != STATE and not any(e[1] == STATE for e in fs):
                    continue
                hit = [e for e in fs if e[1] == STATE and _ROLE_OF_FIELD.get(e[4]) in MAPS]
                if not hit:
                    continue
                n += 1
                m = _ROLE_OF_FIELD[hit[0][4]]
                key = f'{b.name}:{m}'
                if b.name.startswith('samlang_services::server_state::'):
                    res.ok(key, b.loc(st[3]), 'mutation inside the server_state module')
                else:
                    res.violation(key, b.loc(st[3]), f'{b.name} takes a mutable reference to / assigns ServerState.{m} outside '
                                  f'the server_state module: the key-set inclusions between the module maps (which the '
                                  f'request API unwraps rely on) can be broken here')
    res.floor('mutable accesses to state maps', n, 8)
    return [res]


# ---------------------------------------------------------------------------------------------------------------------
# FIND-UNWRAP (C11): `iter().find(pred).unwrap()` on the request path aborts the server whenever no element satisfies `pred`.
# The one such site of the pinned tree (the class enclosing a cursor position) is justified by the position search that ran
# before it: `search_module_locally` only reports a hit inside a toplevel whose location contains the position, so *the bare
# containment test* is known to succeed for some toplevel. Any conjunct added to the predicate (a kind test, a name test) is
# not covered by that justification - the search also reports hits inside interfaces. The rule: the predicate of an unwrapped
# `find` / `position` / `rfind` in the services crate is a single call of `Location::contains_position` on a location of the
# element, with no further branch.

JUSTIFIED_PREDICATES = ('contains_position',)


def run_find_unwrap(prog, tier, repo):
    from ..facts import strip_refs
    res = RuleResult('FIND-UNWRAP', 'C11: a search result that a request handler unwraps comes from a search whose predicate is the bare '
                     'containment test established by the preceding position lookup (no added conjunct can make it fail)')
    n = 0
    for b in sorted(prog.bodies.values(), key=lambda x: x.name):
        if b.crate != 'samlang_services' or '::tests' in b.name or b.name.split('::')[-1].startswith('test'):
            continue
        for bl in b.blocks:
            t = bl.term
            if bl.cleanup or t[0] != 'call' or not t[3]:
                continue
            nm = callee(t)[1] or ''
            if nm.split('::')[-1] not in ('unwrap', 'expect') or 'Option' not in nm or t[3][0][0] not in ('c', 'm'):
                continue
            r, _ = root_local(b, t[3][0][1].local)
            sd = single_def(b, r) if r is not None else None
            if not (sd and sd[1] == 'term'):
                continue
            src = (callee(sd[2])[1] or '').split('::')[-1]
            if src not in ('find', 'rfind', 'position', 'rposition', 'find_map'):
                continue
            n += 1
            k = sum(1 for i in res.instances if i.key.startswith(f'find-unwrap:{b.name}#')) + 1
            key = f'find-unwrap:{b.name}#{k}'
            clos = [strip_refs(b.locals[o[1].local]) for o in sd[2][3][1:] if o[0] in ('c', 'm')]
            clos = [c for c in clos if c.k == 'closure' and c.id in prog.bodies]
            if len(clos) != 1:
                res.violation(key, b.loc(t[7]), f'{b.name} unwraps the result of `{src}` whose predicate is not a closure of this crate: '
                              f'nothing shows that an element always matches, so the request can abort the server')
                continue
            kb = prog.bodies[clos[0].id]
            branches = [bl2.term[4] for bl2 in kb.blocks if not bl2.cleanup and bl2.term[0] == 'switch']
            calls = [(callee(bl2.term)[1] or '?') for bl2 in kb.blocks if not bl2.cleanup and bl2.term[0] == 'call']
            tests = [c for c in calls if c.split('::')[-1] in JUSTIFIED_PREDICATES]
            if branches or len(tests) != 1:
                res.violation(key, kb.loc(branches[0] if branches else None),
                              f'{b.name} unwraps the result of `{src}`, and the predicate ({kb.loc()}) is not the bare containment test '
                              f'({"it branches: a conjunct was added" if branches else "no contains_position call"}): the position '
                              f'lookup that precedes it only guarantees that some element *contains the position*, so for a hit inside '
                              f'an element the extra condition rejects the search finds nothing and the unwrap aborts the server')
            else:
                res.ok(key, b.loc(t[7]), 'predicate is the bare containment test established by the position lookup')
    res.floor('unwrapped search results in the services crate', n, 1)
    return [res]
