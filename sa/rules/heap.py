"""C17 rules over the samlang-heap crate (DESIGN.md §3.3): PSTR-TAG, DEALLOC-OWNER,
UNINTERN-BEFORE-OVERWRITE, TABLE-MONOTONE. Anchors are resolved by role; missing anchors fail closed."""
import re
from ..core import RuleResult
from ..cfg import cfg_of, single_def
from ..dataflow import operand_root, root_local, field_names, call_sites
from ..facts import callee, strip_refs
from ..callgraph import iter_operands_rvalue

NON_UTF8_BYTES = {0xC0, 0xC1} | set(range(0xF5, 0x100))


def _anchors(prog, res):
    heap = [a for a in prog.adts.values() if a.crate == 'samlang_heap' and a.name == 'samlang_heap::Heap']
    if len(heap) != 1:
        res.cannot_decide('Heap type')
        return None
    heap = heap[0]
    # slot table: the Vec field of Heap whose element is a local enum (the slot type)
    slot = None
    table_field = None
    for f in heap.variants[0].fields:
        t = f.ty
        if t.k == 'adt' and t.name.startswith('std::vec::Vec') and t.args and t.args[0].k == 'adt' \
                and t.args[0].id in prog.adts and prog.adts[t.args[0].id].kind == 'enum':
            slot = prog.adts[t.args[0].id]
            table_field = f.name
    if slot is None:
        res.cannot_decide('slot table field of Heap (Vec of a local enum)')
        return None
    unions = [a for a in prog.adts.values() if a.crate == 'samlang_heap' and a.kind == 'union']
    if len(unions) != 1:
        res.cannot_decide('the handle union type')
        return None
    return heap, slot, table_field, unions[0]


def _temp_intern_map(prog, heap, slot):
    """Role: the intern map of owned (temporary) strings = the &str-keyed HashMap field of Heap that receives an
    insert in the body that pushes a slot built from an owned String (the variant with a (String, bool) payload)."""
    temp = [i for i, v in enumerate(slot.variants) if len(v.fields) == 2 and v.fields[1].ty.s == 'bool']
    if len(temp) != 1:
        return None
    for b in prog.bodies.values():
        if b.crate != 'samlang_heap':
            continue
        builds = any(st[0] == 'a' and st[2][0] == 'agg' and st[2][1][0] == 'adt' and st[2][1][1] == slot.id
                     and st[2][1][2] == temp[0] for bl in b.blocks if not bl.cleanup for st in bl.stmts)
        if not builds:
            continue
        for bi, t in call_sites(b, lambda nm: nm.endswith('HashMap::<K, V, S, A>::insert')):
            r, p = operand_root(b, t[3][0])
            fs = [e for e in p if e[0] == 'f']
            if r == 1 and fs and fs[-1][1] == heap.id:
                return fs[-1][4]
    return None


def _unmarked_set_field(heap):
    """Role: the gate of the sweeper = the only HashSet field of Heap."""
    c = [f.name for f in heap.variants[0].fields if f.ty.k == 'adt' and f.ty.name.startswith('std::collections::HashSet')]
    return c[0] if len(c) == 1 else None


def run_tag(prog, tier, repo):
    res = RuleResult('PSTR-TAG', 'C17: two handles are equal exactly when their strings are equal - the inline/heap '
                     'discriminator of the 16-byte handle is consistent between the encoder and every decoder')
    an = _anchors(prog, res)
    if an is None:
        return [res]
    heap, slot, table_field, union = an
    word_field = [f for f in union.variants[0].fields if f.ty.k == 'prim']
    inline_field = [f for f in union.variants[0].fields if f.ty.k == 'adt']
    if len(word_field) != 1 or len(inline_field) != 1:
        res.cannot_decide('union fields (one integer word, one inline struct)')
        return [res]
    word_bits = int(''.join(c for c in word_field[0].ty.s if c.isdigit()) or 0)
    inline = prog.adts.get(inline_field[0].ty.id)
    if inline is None:
        res.cannot_decide('inline struct of the handle union')
        return [res]
    storage = [f for f in inline.variants[0].fields if f.ty.k == 'arr']
    cap = None
    if storage:
        digits = storage[0].ty.s.split(';')[-1].strip(' ]')
        cap = int(digits) if digits.isdigit() else None
    if cap is None:
        res.cannot_decide('capacity of the inline byte array')
        return [res]
    heapbodies = [b for b in prog.bodies.values() if b.crate == 'samlang_heap']
    # (1) who touches the union fields
    n_access = 0
    for b in heapbodies + [x for x in prog.bodies.values() if x.crate != 'samlang_heap']:
        touched = set()
        for bl in b.blocks:
            for st in bl.stmts:
                pls = []
                if st[0] == 'a':
                    pls.append(st[1])
                    rv = st[2]
                    if rv[0] == 'ref':
                        pls.append(rv[2])
                    elif rv[0] in ('disc', 'copyderef', 'rawptr'):
                        pls.append(rv[1])
                    for o in iter_operands_rvalue(rv):
                        if o[0] in ('c', 'm'):
                            pls.append(o[1])
                for pl in pls:
                    for e in pl.proj:
                        if e[0] == 'f' and e[1] == union.id:
                            touched.add(e[4])
        if not touched:
            continue
        n_access += 1
        key = f'union-access:{b.name}'
        owner = b.self_ty is not None and strip_refs(b.self_ty).k == 'adt' and strip_refs(b.self_ty).id == union.id
        if owner:
            res.ok(key, b.loc(), f'reads/writes union field(s) {sorted(touched)} inside an impl of the union type')
        else:
            res.violation(key, b.loc(), f'{b.name} accesses field(s) {sorted(touched)} of the handle union outside its own '
                          f'impls: handle bits can be reinterpreted without the tag discipline')
    res.floor('bodies accessing the union', n_access, 4)
    # (2) shift amount / tag constant agreement among sibling encoder and decoders
    shifts = {}
    tags = {}
    shift_helpers = set()
    per_body_shifts = {}
    for b in heapbodies:
        if b.self_ty is None or strip_refs(b.self_ty).k != 'adt' or strip_refs(b.self_ty).id != union.id:
            continue
        shift_results = set()
        for bl in b.blocks:
            for st in bl.stmts:
                if st[0] == 'a' and st[2][0] == 'bin':
                    op, a, c = st[2][1], st[2][2], st[2][3]
                    if op in ('Shr', 'Shl', 'ShrUnchecked', 'ShlUnchecked') and c[0] == 'k' and c[1].i is not None:
                        shifts.setdefault(c[1].i, []).append((b, st[3], op))
                        shift_results.add(st[1].local)
                        if op.startswith('Shl') and a[0] == 'k' and a[1].i is not None:
                            tags.setdefault(a[1].i, []).append((b, st[3], 'encoder'))
                        elif op.startswith('Shl') and a[0] in ('c', 'm'):
                            cv = _const_through_casts(b, a[1].local)      # `(TAG as u128) << 120`
                            if cv is not None:
                                tags.setdefault(cv, []).append((b, st[3], 'encoder'))
        if root_local(b, 0)[0] in shift_results:
            shift_helpers.add(b.id)       # `fn tag_byte(&self) -> u8 { (word >> 120) as u8 }`
        per_body_shifts[b.id] = shift_results
    for b in heapbodies:
        if b.self_ty is None or strip_refs(b.self_ty).k != 'adt' or strip_refs(b.self_ty).id != union.id:
            continue
        shift_results = set(per_body_shifts.get(b.id, ()))
        for bl in b.blocks:
            t_ = bl.term
            if not bl.cleanup and t_[0] == 'call' and callee(t_)[0] in shift_helpers and t_[4] is not None and not t_[4].proj:
                shift_results.add(t_[4].local)
        for bl in b.blocks:
            for st in bl.stmts:
                if st[0] == 'a' and st[2][0] == 'bin' and st[2][1] in ('Eq', 'Ne'):
                    a, c = st[2][2], st[2][3]
                    for x, y in ((a, c), (c, a)):
                        if y[0] == 'k' and y[1].i is not None and x[0] in ('c', 'm') \
                                and root_local(b, x[1].local)[0] in shift_results:
                            tags.setdefault(y[1].i, []).append((b, st[3], 'decoder'))
    # (2b) every comparison that decides something from the raw word of the handle goes through the tag shift: a test of the
    # word itself (its sign, a mask) is a different discriminator than the one the encoder writes
    word_name = word_field[0].name
    n_disc = 0
    for b in heapbodies:
        if b.self_ty is None or strip_refs(b.self_ty).k != 'adt' or strip_refs(b.self_ty).id != union.id:
            continue

        def raw_word(op, depth=0):
            """operand is the union's integer word, possibly cast / copied, but not shifted or masked"""
            if op[0] not in ('c', 'm') or depth > 6:
                return False
            if any(e[0] == 'f' and e[1] == union.id and e[4] == word_name for e in op[1].proj):
                return True
            if op[1].proj:
                return False
            sd_ = single_def(b, op[1].local)
            if not sd_ or sd_[1] == 'term':
                return False
            rv_ = sd_[2]
            if rv_[0] == 'use':
                return raw_word(rv_[1], depth + 1)
            if rv_[0] == 'cast':
                return raw_word(rv_[2], depth + 1)
            return False
        for bl in b.blocks:
            if bl.cleanup:
                continue
            for st in bl.stmts:
                if st[0] == 'a' and st[2][0] == 'bin' and st[2][1] in ('Eq', 'Ne', 'Lt', 'Le', 'Gt', 'Ge'):
                    a, c = st[2][2], st[2][3]
                    if (raw_word(a) and c[0] == 'k') or (raw_word(c) and a[0] == 'k'):
                        n_disc += 1
                        res.violation(f'discriminator:{b.name}', b.loc(st[3]), f'{b.name} decides from the raw {word_bits}-bit word of the '
                                      f'handle with `{st[2][1]}` against a constant instead of comparing the tag byte (word >> '
                                      f'{word_bits - 8}) with the tag: an inline string whose last byte has that property (e.g. a '
                                      f'{cap}-byte text ending in a byte >= 0x80) is decoded as a heap id')
    res.analysed['raw-word comparisons'] = n_disc
    n_sites = sum(len(v) for v in shifts.values())
    res.floor('tag shift sites', n_sites, 3)
    roles = {r for v in tags.values() for _, _, r in v}
    if len(shifts) == 1 and len(tags) == 1 and roles == {'encoder', 'decoder'}:
        S = next(iter(shifts))
        T = next(iter(tags))
        for v in shifts.values():
            for b, line, op in v:
                res.ok(f'tag-shift:{b.name}:{op}', b.loc(line), f'shift amount {S}')
        if S == word_bits - 8:
            res.ok('tag-position', union.file + f':{union.line}', f'tag byte is the top byte of the {word_bits}-bit word '
                   f'(= last byte of the {cap}-byte inline storage on little-endian)')
        else:
            res.violation('tag-position', union.file + f':{union.line}', f'tag is read at bit {S}, not in the top byte of the '
                          f'{word_bits}-bit word: inline bytes and the tag overlap differently')
        if T in NON_UTF8_BYTES:
            res.ok('tag-value', union.file + f':{union.line}', f'tag byte {T:#x} never occurs in UTF-8 text')
        else:
            res.violation('tag-value', union.file + f':{union.line}', f'tag byte {T:#x} can occur in UTF-8 text: a {cap}-byte '
                          f'inline string ending in that byte is decoded as a heap id')
    else:
        where = '; '.join(f'{b.name}:{op}={k}' for k, v in shifts.items() for b, _, op in v)
        res.violation('tag-agreement', union.file + f':{union.line}',
                      f'encoder and decoders of the handle disagree on the tag: shift amounts {sorted(shifts)}, tag values '
                      f'{sorted(tags)} (roles seen: {sorted(roles)}) [{where}]: a handle built by one is misread by another')
    # (3) inline constructions: size <= capacity
    n_inline = 0
    for b in heapbodies:
        cfg = None
        for bi, bl in enumerate(b.blocks):
            if bl.cleanup:
                continue
            for st in bl.stmts:
                if st[0] == 'a' and st[2][0] == 'agg' and st[2][1][0] == 'adt' and st[2][1][1] == inline.id:
                    n_inline += 1
                    size_op = st[2][2][0]
                    key = f'inline-size:{b.name}'
                    if size_op[0] == 'k':
                        if size_op[1].i is not None and 0 <= size_op[1].i <= cap:
                            res.ok(key, b.loc(st[3]), f'constant size {size_op[1].i} <= {cap}')
                        else:
                            res.violation(key, b.loc(st[3]), f'inline handle built with constant size {size_op[1].v} > {cap}')
                        continue
                    cfg = cfg or cfg_of(b)
                    r, _ = operand_root(b, size_op)
                    edges = []
                    narrowed_cmp = []
                    for bj, bl2 in enumerate(b.blocks):
                        t = bl2.term
                        if t[0] == 'switch' and t[1][0] in ('c', 'm'):
                            sd = single_def(b, t[1][1].local)
                            if sd and sd[1] != 'term' and sd[2][0] == 'bin' and sd[2][1] in ('Le', 'Lt', 'Gt', 'Ge'):
                                x, y, op_ = sd[2][2], sd[2][3], sd[2][1]
                                if x[0] == 'k' and y[0] in ('c', 'm'):      # `CAP >= size` is `size <= CAP`
                                    x, y = y, x
                                    op_ = {'Le': 'Ge', 'Lt': 'Gt', 'Ge': 'Le', 'Gt': 'Lt'}[op_]
                                if x[0] in ('c', 'm') and root_local(b, x[1].local)[0] == r and y[0] == 'k' \
                                        and y[1].i is not None:
                                    true_e = [(bj, t[3])] + [(bj, tg) for v, tg in t[2] if v != 0]
                                    false_e = [(bj, tg) for v, tg in t[2] if v == 0]
                                    if _narrowed(b, x[1].local):
                                        narrowed_cmp.append(bl2.term[4])
                                    if op_ in ('Le', 'Lt'):
                                        bound = y[1].i if op_ == 'Le' else y[1].i - 1
                                        if bound <= cap:
                                            edges += true_e
                                    else:
                                        # `size > c` false  =>  size <= c ;  `size >= c` false  =>  size <= c - 1
                                        bound = y[1].i if op_ == 'Gt' else y[1].i - 1
                                        if bound <= cap:
                                            edges += false_e
                    # `fn inline_literal<const N: usize>(bytes: &[u8; N])` with size = N: the size is the length of the array every
                    # caller passes, which is part of its type
                    gen_ok = False
                    arr_params = [i for i in range(1, b.nargs + 1) if re.search(r'\[u8; [A-Za-z_]\w*\]', b.locals[i].s)]
                    sd_sz = single_def(b, r) if r is not None else None
                    from_generic = sd_sz is not None and sd_sz[1] != 'term' and sd_sz[2][0] in ('use', 'cast') and \
                        any(o_[0] == 'k' and o_[1].i is None and re.fullmatch(r'[A-Z]\w*', o_[1].v or '') for o_ in sd_sz[2][1:3] if isinstance(o_, tuple) and o_ and o_[0] == 'k')
                    if arr_params and from_generic:
                        lens = []
                        for x in heapbodies:
                            for bl2 in x.blocks:
                                t2 = bl2.term
                                if t2[0] == 'call' and not bl2.cleanup and callee(t2)[0] == b.id:
                                    for o2 in t2[3]:
                                        ty2 = x.locals[o2[1].local].s if o2[0] in ('c', 'm') else o2[1].ty.s
                                        m2 = re.search(r'\[u8; (\d+)\]', ty2)
                                        if m2:
                                            lens.append(int(m2.group(1)))
                                        elif re.search(r'\[u8;', ty2):
                                            lens.append(10 ** 9)
                        if lens and max(lens) <= cap:
                            gen_ok = True
                            res.ok(key, b.loc(st[3]), f'size is the const generic array length; every caller passes at most {max(lens)} bytes')
                    if gen_ok:
                        continue
                    # `storage[..size]` on the fixed-size storage array: the slice index itself checks `size <= N` and panics
                    # otherwise, so a construction dominated by it cannot carry a larger size
                    idx_ok = None
                    for bj, bl2 in enumerate(b.blocks):
                        t2 = bl2.term
                        if bl2.cleanup or t2[0] != 'call' or len(t2[3]) < 2 or (callee(t2)[1] or '').split('::')[-1] not in ('index_mut', 'index'):
                            continue
                        if t2[3][0][0] not in ('c', 'm') or t2[3][1][0] not in ('c', 'm'):
                            continue
                        m_arr = re.search(r'\[u8; (\d+)\]', strip_refs_(b.locals[t2[3][0][1].local]).s)
                        if not m_arr or int(m_arr.group(1)) > cap:
                            continue
                        sd_r = single_def(b, t2[3][1][1].local)
                        if not (sd_r and sd_r[1] != 'term' and sd_r[2][0] == 'agg' and sd_r[2][1][0] == 'adt'
                                and str(sd_r[2][1][3]) in ('RangeTo', 'Range') and sd_r[2][2]):
                            continue
                        end = sd_r[2][2][-1]
                        if end[0] in ('c', 'm') and root_local(b, end[1].local)[0] == r and not _narrowed(b, end[1].local) \
                                and cfg.nodes_dominate([bj], bi):
                            idx_ok = (bj, int(m_arr.group(1)))
                    fb = _filter_bound(prog, b, r)
                    if fb is not None and fb <= cap:
                        res.ok(key, b.loc(st[3]), f'the size went through `Option::filter(|s| *s <= {fb})`: only a size within the bound '
                               f'reaches the construction')
                        continue
                    if idx_ok:
                        res.ok(key, b.loc(st[3]), f'dominated by a `[..size]` index into the {idx_ok[1]}-byte storage array, which panics '
                               f'unless size <= {idx_ok[1]}')
                        res.ok(f'inline-size-faithful:{b.name}', b.loc(st[3]), 'the indexed length is the untruncated length')
                        continue
                    if edges and cfg.edges_dominate(edges, bi):
                        res.ok(key, b.loc(st[3]), f'dominated by the true edge of size <= {cap}')
                        # (3b) the test must look at the whole length: a length narrowed to a smaller integer type before the
                        # comparison wraps around (256 -> 0), so a long string passes the test and is stored as its prefix
                        fkey = f'inline-size-faithful:{b.name}'
                        if narrowed_cmp:
                            res.violation(fkey, b.loc(narrowed_cmp[0]), f'{b.name} decides between the inline and the table form by '
                                          f'comparing a length that was first narrowed to a smaller integer type: a string of 256 + k '
                                          f'bytes (k <= {cap}) passes the test, is stored inline as its first k bytes and compares equal '
                                          f'to that prefix - the handle no longer reads back the string it was made from')
                        else:
                            res.ok(fkey, b.loc(st[3]), 'the size test compares the untruncated length')
                    else:
                        res.violation(key, b.loc(st[3]), f'{b.name} builds an inline handle whose size is not proven <= {cap} '
                                      f'by a dominating comparison: longer text would overwrite the tag byte')
    res.floor('inline handle constructions', n_inline, 6)
    return [res]


def _const_through_casts(b, local):
    for _ in range(8):
        sd = single_def(b, local)
        if sd is None or sd[1] == 'term':
            return None
        rv = sd[2]
        o = rv[1] if rv[0] == 'use' else (rv[2] if rv[0] == 'cast' else None)
        if o is None:
            return None
        if o[0] == 'k':
            return o[1].i
        if o[0] in ('c', 'm') and not o[1].proj:
            local = o[1].local
        else:
            return None
    return None


def _filter_bound(prog, b, local):
    """`local` is (the payload of) an Option / Try value that passed `Option::filter(closure)` where the closure is a single
    comparison `*x <= c` / `*x < c` of its argument with a constant: returns the largest value that passes, else None."""
    for _ in range(8):
        if local is None:
            return None
        r, _p = root_local(b, local)
        sd = single_def(b, r)
        if sd is None or sd[1] != 'term' or not sd[2][3] or sd[2][3][0][0] not in ('c', 'm'):
            return None
        t = sd[2]
        short = (callee(t)[1] or '').split('::')[-1]
        if short == 'filter' and len(t[3]) >= 2 and t[3][1][0] in ('c', 'm'):
            ct = strip_refs_(b.locals[t[3][1][1].local])
            cb = prog.bodies.get(ct.id) if ct.k == 'closure' else None
            if cb is None or any(bl.term[0] in ('switch', 'call') for bl in cb.blocks if not bl.cleanup):
                return None
            for bl in cb.blocks:
                for st in bl.stmts:
                    if st[0] == 'a' and st[1].local == 0 and st[2][0] == 'bin' and st[2][1] in ('Le', 'Lt'):
                        x, y = st[2][2], st[2][3]
                        if x[0] in ('c', 'm') and root_local(cb, x[1].local)[0] == 2 and y[0] == 'k' and y[1].i is not None:
                            return y[1].i if st[2][1] == 'Le' else y[1].i - 1
            return None
        if short in ('branch', 'unwrap', 'expect', 'unwrap_unchecked'):
            local = t[3][0][1].local
            continue
        return None
    return None


def strip_refs_(t):
    while t.k in ('ref', 'ptr'):
        t = t.args[0]
    return t


_WIDTH = {'u8': 8, 'i8': 8, 'u16': 16, 'i16': 16, 'u32': 32, 'i32': 32, 'u64': 64, 'i64': 64, 'usize': 64, 'isize': 64,
          'u128': 128, 'i128': 128}


def _narrowed(b, local):
    """Does the value of `local` come (through copies) out of an integer cast to a narrower type?"""
    seen = set()
    for _ in range(32):
        if local in seen or 1 <= local <= b.nargs:
            return False
        seen.add(local)
        sd = single_def(b, local)
        if sd is None or sd[1] == 'term':
            return False
        rv = sd[2]
        if rv[0] == 'cast' and rv[2][0] in ('c', 'm'):
            src = b.locals[rv[2][1].local].s
            dst = rv[3].s
            if src in _WIDTH and dst in _WIDTH and _WIDTH[dst] < _WIDTH[src]:
                return True
            local = rv[2][1].local
        elif rv[0] == 'use' and rv[1][0] in ('c', 'm') and not rv[1][1].proj:
            local = rv[1][1].local
        else:
            return False
    return False


def _slot_assignments(prog, b, slot):
    """(bb, stmt) that overwrite an existing slot: destination is a deref/index place of slot type."""
    out = []
    for bi, bl in enumerate(b.blocks):
        if bl.cleanup:
            continue
        for st in bl.stmts:
            if st[0] == 'a' and st[1].proj and st[1].proj[-1][0] in ('d', 'i', 'c'):
                # type of destination: local type peeled
                lt = b.locals[st[1].local]
                t = lt
                okty = False
                for e in st[1].proj:
                    if e[0] == 'd' and t.k in ('ref', 'ptr'):
                        t = t.args[0]
                    elif e[0] in ('i', 'c') and t.k in ('slice', 'arr'):
                        t = t.args[0]
                    elif e[0] in ('i', 'c') and t.k == 'adt' and t.name.startswith('std::vec::Vec'):
                        t = t.args[0]
                    elif e[0] == 'f':
                        t = e[5]
                    else:
                        t = None
                        break
                if t is not None and t.k == 'adt' and t.id == slot.id:
                    out.append((bi, st))
    return out


def run_dealloc(prog, tier, repo):
    res = RuleResult('DEALLOC-OWNER', 'C17: no permanent, module-reference or marked string is ever reclaimed - only the '
                     'sweeper produces reclaimed slots, behind the unmarked-module gate and the not-marked test')
    an = _anchors(prog, res)
    if an is None:
        return [res]
    heap, slot, table_field, union = an
    vnames = [v.name for v in slot.variants]
    # roles of the variants: Permanent holds &'static str, Temporary holds (String, bool), the third is reclaimed
    perm = [i for i, v in enumerate(slot.variants) if len(v.fields) == 1 and v.fields[0].ty.k == 'ref']
    temp = [i for i, v in enumerate(slot.variants) if len(v.fields) == 2 and v.fields[1].ty.s == 'bool']
    dead = [i for i in range(len(slot.variants)) if i not in perm + temp]
    if len(perm) != 1 or len(temp) != 1 or len(dead) != 1:
        res.cannot_decide(f'roles of slot variants {vnames}')
        return [res]
    perm, temp, dead = perm[0], temp[0], dead[0]
    heapbodies = [b for b in prog.bodies.values() if b.crate == 'samlang_heap']
    # role: the sweeper is the unique method of Heap that produces reclaimed slot values
    def reclaims(b):
        for bl in b.blocks:
            if bl.cleanup:
                continue
            for st in bl.stmts:
                if st[0] == 'a' and st[2][0] == 'agg' and st[2][1][0] == 'adt' and st[2][1][1] == slot.id and st[2][1][2] == dead:
                    return True
            t = bl.term
            if t[0] == 'call':
                tgt = prog.bodies.get(callee(t)[0])
                if tgt is not None and tgt.crate == 'samlang_heap' and tgt.locals[0].k == 'adt' and tgt.locals[0].id == slot.id \
                        and tgt.self_ty is not None and strip_refs(tgt.self_ty).k == 'adt' and strip_refs(tgt.self_ty).id == slot.id:
                    if any(st[0] == 'a' and st[2][0] == 'agg' and st[2][1][0] == 'adt' and st[2][1][1] == slot.id
                           and st[2][1][2] == dead for bl2 in tgt.blocks for st in bl2.stmts):
                        return True
        return False
    sweepers = [b for b in heapbodies if b.self_ty is not None and strip_refs(b.self_ty).k == 'adt'
                and strip_refs(b.self_ty).id == heap.id and reclaims(b)]
    if len(sweepers) != 1:
        res.cannot_decide(f'the sweeper (unique Heap method that produces reclaimed slots; found {[x.name for x in sweepers]})')
        return [res]
    sweeper = sweepers[0]
    makers = {}
    for b in prog.bodies.values():
        for bi, bl in enumerate(b.blocks):
            if bl.cleanup:
                continue
            for st in bl.stmts:
                if st[0] == 'a' and st[2][0] == 'agg' and st[2][1][0] == 'adt' and st[2][1][1] == slot.id \
                        and st[2][1][2] == dead:
                    makers.setdefault(b.id, []).append((bi, st))
    helper_ids = set()
    for bid in makers:
        b = prog.bodies[bid]
        if b.id == sweeper.id:
            continue
        is_helper = b.self_ty is not None and strip_refs(b.self_ty).k == 'adt' and strip_refs(b.self_ty).id == slot.id \
            and b.nargs >= 1 and all(strip_refs(b.locals[i]).id != heap.id for i in range(1, b.nargs + 1)
                                     if strip_refs(b.locals[i]).k == 'adt')
        key = f'maker:{b.name}'
        if is_helper:
            helper_ids.add(b.id)
            res.ok(key, b.loc(), 'constructor helper of the slot type (no access to the heap)')
        else:
            res.violation(key, b.loc(), f'{b.name} constructs a reclaimed slot ({vnames[dead]}) outside the sweeper')
    # callers of the helper: only the sweeper
    for b in prog.bodies.values():
        if b.id == sweeper.id or b.id in helper_ids:
            continue
        for bi, bl in enumerate(b.blocks):
            t = bl.term
            if t[0] == 'call' and callee(t)[0] in helper_ids and not bl.cleanup:
                res.violation(f'maker-caller:{b.name}', b.loc(t[7]), f'{b.name} obtains a reclaimed slot value outside the sweeper')
    # in the sweeper: gate + arm + not-marked
    cfg = cfg_of(sweeper)
    sites = [bi for bi, st in makers.get(sweeper.id, [])]
    for bi, bl in enumerate(sweeper.blocks):
        t = bl.term
        if t[0] == 'call' and callee(t)[0] in helper_ids and not bl.cleanup:
            sites.append(bi)
    if not sites:
        res.cannot_decide('no reclamation site in the sweeper')
        return [res]
    # (a) unmarked gate: is_empty(&self.<set>) true edge
    gate_edges = []
    for bi, t in call_sites(sweeper, lambda n: n.endswith('::is_empty')):
        r, p = operand_root(sweeper, t[3][0])
        names = field_names(p)
        if r == 1 and names and names[-1] == _unmarked_set_field(heap):
            for bj, bl in enumerate(sweeper.blocks):
                tt = bl.term
                if tt[0] == 'switch' and tt[1][0] in ('c', 'm') and root_local(sweeper, tt[1][1].local)[0] == t[4].local:
                    sd = single_def(sweeper, tt[1][1].local)
                    negated = sd is not None and sd[1] != 'term' and sd[2][0] == 'un' and sd[2][1] == 'Not'
                    if negated:
                        gate_edges += [(bj, tg) for v, tg in tt[2] if v == 0]
                    else:
                        gate_edges.append((bj, tt[3]))
                        gate_edges += [(bj, tg) for v, tg in tt[2] if v != 0]
    # (b) Temporary arm edges and (c) not-marked edges
    arm_edges = []
    notmarked_edges = []
    for bj, bl in enumerate(sweeper.blocks):
        tt = bl.term
        if tt[0] != 'switch' or tt[1][0] not in ('c', 'm'):
            continue
        if tt[1][1].proj:
            # `match slot { Temporary(_, true) => .., Temporary(s, false) => .. }`: the mark bit is switched on in place
            pl = tt[1][1]
            r, p = root_local(sweeper, pl.local)
            allp = p + tuple(e for e in pl.proj if e[0] in ('f', 't', 'v'))
            fs = [e for e in allp if e[0] == 'f']
            if fs and fs[-1][1] == slot.id and fs[-1][2] == temp and fs[-1][3] == 1:
                notmarked_edges += [(bj, tg) for v, tg in tt[2] if v == 0]
            continue
        sd = single_def(sweeper, tt[1][1].local)
        if sd is None or sd[1] == 'term':
            continue
        rv = sd[2]
        if rv[0] == 'disc':
            # discriminant of a slot-typed place
            arm_edges += [(bj, tg) for v, tg in tt[2] if v == temp and _place_is_slot(sweeper, rv[1], slot)]
        elif rv[0] == 'use' and rv[1][0] in ('c', 'm'):
            pl = rv[1][1]
            r, p = root_local(sweeper, pl.local)
            allp = p + tuple(e for e in pl.proj if e[0] in ('f', 't', 'v'))
            fs = [e for e in allp if e[0] == 'f']
            if fs and fs[-1][1] == slot.id and fs[-1][2] == temp and fs[-1][3] == 1:
                notmarked_edges += [(bj, tg) for v, tg in tt[2] if v == 0]
    for bi in sorted(set(sites)):
        key = f'sweep-site:{sweeper.name}'
        line = sweeper.blocks[bi].term[7] if sweeper.blocks[bi].term[0] == 'call' else None
        missing = []
        if not (gate_edges and cfg.edges_dominate(gate_edges, bi)):
            missing.append('the "no module left to mark" edge of the unmarked-module gate')
        if not (arm_edges and cfg.edges_dominate(arm_edges, bi)):
            missing.append(f'the {vnames[temp]} arm of the slot match')
        if not (notmarked_edges and cfg.edges_dominate(notmarked_edges, bi)):
            missing.append('the "not marked" edge of the mark-bit test')
        if missing:
            res.violation(key, sweeper.loc(line), f'{sweeper.name}: reclamation is not dominated by ' + ' / '.join(missing) +
                          ': a permanent, marked or not-yet-marked string can be reclaimed')
        else:
            res.ok(key, sweeper.loc(line), 'reclamation dominated by the unmarked-module gate, the temporary arm and the not-marked edge')
    # Permanent slots are never overwritten by a non-permanent value
    n_over = 0
    for b in heapbodies:
        cfgb = None
        for bi, st in _slot_assignments(prog, b, slot):
            n_over += 1
            key = f'overwrite:{b.name}'
            rv = st[2]
            if rv[0] == 'use' and rv[1][0] in ('c', 'm') and not rv[1][1].proj:
                sdv = single_def(b, rv[1][1].local)
                if sdv and sdv[1] != 'term':
                    rv = sdv[2]
            if rv[0] == 'agg' and rv[1][0] == 'adt' and rv[1][1] == slot.id and rv[1][2] == perm:
                res.ok(key, b.loc(st[3]), 'slot overwritten with a permanent value')
                continue
            cfgb = cfgb or cfg_of(b)
            edges = []
            for bj, bl in enumerate(b.blocks):
                tt = bl.term
                if tt[0] == 'switch' and tt[1][0] in ('c', 'm'):
                    sd = single_def(b, tt[1][1].local)
                    if sd and sd[1] != 'term' and sd[2][0] == 'disc' and _place_is_slot(b, sd[2][1], slot):
                        edges += [(bj, tg) for v, tg in tt[2] if v == temp]
            if edges and cfgb.edges_dominate(edges, bi):
                res.ok(key, b.loc(st[3]), f'overwrite happens only in the {vnames[temp]} arm')
            else:
                res.violation(key, b.loc(st[3]), f'{b.name} overwrites a slot with a non-permanent value outside the '
                              f'{vnames[temp]} arm: a permanent string can be lost')
    res.floor('slot overwrite sites', n_over, 3)
    # mark bit: set to true by the marker(s), cleared only by the sweeper
    n_mark = 0
    for b in heapbodies:
        for bi, bl in enumerate(b.blocks):
            if bl.cleanup:
                continue
            for st in bl.stmts:
                if st[0] != 'a' or not st[1].proj:
                    continue
                r, p = root_local(b, st[1].local)
                allp = p + tuple(e for e in st[1].proj if e[0] in ('f', 't', 'v'))
                fs = [e for e in allp if e[0] == 'f']
                if not (fs and fs[-1][1] == slot.id and fs[-1][2] == temp and fs[-1][3] == 1):
                    continue
                if st[1].proj[-1][0] == 'f' and st[1].proj[-1][1] != slot.id:
                    continue
                n_mark += 1
                rv = st[2]
                val = rv[1][1].i if rv[0] == 'use' and rv[1][0] == 'k' else None
                key = f'mark-bit:{b.name}'
                if val == 1 and b.id != sweeper.id:
                    res.ok(key, b.loc(st[3]), 'mark bit set to true')
                elif val == 0 and b.id == sweeper.id:
                    res.ok(key, b.loc(st[3]), 'mark bit cleared by the sweeper as it passes')
                else:
                    res.violation(key, b.loc(st[3]), f'{b.name} writes {rv[1][1].v if val is not None else "a computed value"} '
                                  f'to the mark bit: only the sweeper may clear it and markers must set it, otherwise a '
                                  f'string marked since the last sweep is reclaimed')
    res.floor('mark-bit writes', n_mark, 2)
    # MARK-TOTAL: a marker sets the bit for *every* heap-allocated temporary string it is given: the only ways past the
    # mark write are "not a heap handle" (inline string) and "slot is not Temporary". An extra early return (cursor
    # position, generation, ...) drops marks, and the string is reclaimed while still referenced.
    n_total = 0
    for b in heapbodies:
        if b.id == sweeper.id:
            continue
        wblocks = []
        for bi, bl in enumerate(b.blocks):
            if bl.cleanup:
                continue
            for st in bl.stmts:
                if st[0] != 'a' or not st[1].proj:
                    continue
                r, p = root_local(b, st[1].local)
                allp = p + tuple(e for e in st[1].proj if e[0] in ('f', 't', 'v'))
                fs = [e for e in allp if e[0] == 'f']
                if fs and fs[-1][1] == slot.id and fs[-1][2] == temp and fs[-1][3] == 1 and st[2][0] == 'use' \
                        and st[2][1][0] == 'k' and st[2][1][1].i == 1:
                    wblocks.append(bi)
        if not wblocks:
            continue
        n_total += 1
        cfgb = cfg_of(b)
        key = f'mark-total:{b.name}'
        # the heap-handle test: switch on the Option returned by the handle decoder
        some_targets = []
        for bj, bl in enumerate(b.blocks):
            t = bl.term
            if bl.cleanup or t[0] != 'switch' or t[1][0] not in ('c', 'm'):
                continue
            sd = single_def(b, t[1][1].local)
            if not sd or sd[1] == 'term' or sd[2][0] != 'disc' or sd[2][1].proj:
                continue
            od = single_def(b, sd[2][1].local)
            if od and od[1] == 'term' and (callee(od[2])[1] or '').endswith('as_heap_id'):
                some_targets += [tg for v, tg in t[2] if v == 1]
        # the slot test: switch on the discriminant of a slot place; its Temporary edge
        slot_switches = []
        temp_targets = []
        for bj, bl in enumerate(b.blocks):
            t = bl.term
            if bl.cleanup or t[0] != 'switch' or t[1][0] not in ('c', 'm'):
                continue
            sd = single_def(b, t[1][1].local)
            if sd and sd[1] != 'term' and sd[2][0] == 'disc' and _place_is_slot(b, sd[2][1], slot):
                slot_switches.append(bj)
                temp_targets += [tg for v, tg in t[2] if v == temp]
        if not some_targets or not slot_switches or not temp_targets:
            res.cannot_decide(f'the heap-handle test and the slot test of the marker {b.name}', b.loc())
            continue
        bad = None
        for tg in some_targets:
            if not cfgb.nodes_postdominate(slot_switches, tg):
                bad = 'a path that has a heap handle returns without looking at the slot'
        for tg in temp_targets:
            if not cfgb.nodes_postdominate(wblocks, tg):
                bad = 'a path through the Temporary arm returns without setting the mark bit'
        if bad:
            res.violation(key, b.loc(), f'{b.name}: {bad}: the mark requested for a live temporary string is dropped on that path, and '
                          f'the sweeper reclaims the string while handles to it are still in use')
        else:
            res.ok(key, b.loc(), 'every heap handle reaches the slot test and every Temporary slot gets its mark bit set')
    res.floor('markers', n_total, 1)
    res.analysed['sweeper'] = sweeper.name
    return [res]


def _place_is_slot(b, pl, slot):
    t = b.locals[pl.local]
    for e in pl.proj:
        if e[0] == 'd' and t.k in ('ref', 'ptr'):
            t = t.args[0]
        elif e[0] == 'f':
            t = e[5]
        elif e[0] in ('i', 'c') and t.args:
            t = t.args[0]
        else:
            return False
    return t.k == 'adt' and t.id == slot.id


def run_unintern(prog, tier, repo):
    res = RuleResult('UNINTERN-BEFORE-OVERWRITE', 'C17: re-allocating a reclaimed string yields a fresh readable handle - '
                     'a slot holding an owned string is only overwritten after its key left the intern map')
    an = _anchors(prog, res)
    if an is None:
        return [res]
    heap, slot, table_field, union = an
    temp_map = _temp_intern_map(prog, heap, slot)
    if temp_map is None:
        res.cannot_decide('the intern map of owned strings (the map that receives an insert where a String-owning slot is pushed)')
        return [res]
    res.analysed['owned_string_intern_map'] = temp_map
    n = 0
    for b in [x for x in prog.bodies.values() if x.crate == 'samlang_heap']:
        sites = _slot_assignments(prog, b, slot)
        if not sites:
            continue
        cfg = cfg_of(b)
        removes = []
        for bi, t in call_sites(b, lambda nm: nm.endswith('HashMap::<K, V, S, A>::remove')):
            r, p = operand_root(b, t[3][0])
            names = field_names(p)
            if r == 1 and names and names[-1] == temp_map:
                removes.append(bi)
        for bi, st in sites:
            n += 1
            key = f'unintern:{b.name}'
            if removes and cfg.nodes_dominate(removes, bi):
                res.ok(key, b.loc(st[3]), f'overwrite dominated by {temp_map}.remove(..)')
            else:
                res.violation(key, b.loc(st[3]), f'{b.name} overwrites a string slot without first removing its key from the '
                              f'intern map: the map keeps a dangling &str into the dropped String and a later allocation of '
                              f'the same text returns a handle to a reclaimed slot')
    res.floor('slot overwrite sites', n, 3)
    return [res]


FORBIDDEN_VEC = ('::pop', '::truncate', '::clear', '::remove', '::swap_remove', '::drain', '::retain', '::retain_mut',
                 '::dedup', '::dedup_by', '::dedup_by_key', '::split_off', '::insert', '::resize', '::resize_with',
                 '::set_len', '::swap', '::reverse', '::sort', '::sort_by', '::sort_unstable', '::rotate_left',
                 '::rotate_right', '::append', '::splice', '::extract_if', '::fill')


def run_monotone(prog, tier, repo):
    res = RuleResult('TABLE-MONOTONE', 'C17: a live handle always reads back the exact string - slot ids are positions in '
                     'tables that only ever grow')
    an = _anchors(prog, res)
    if an is None:
        return [res]
    heap, slot, table_field, union = an
    tables = [f.name for f in heap.variants[0].fields if f.ty.k == 'adt' and f.ty.name.startswith('std::vec::Vec')]
    n = 0
    for b in [x for x in prog.bodies.values() if x.crate == 'samlang_heap']:
        for bi, bl in enumerate(b.blocks):
            if bl.cleanup:
                continue
            for st in bl.stmts:
                # whole-table assignment
                if st[0] == 'a' and st[1].proj and st[1].proj[-1][0] == 'f' and st[1].proj[-1][1] == heap.id \
                        and st[1].proj[-1][4] in tables:
                    n += 1
                    res.violation(f'table-assign:{b.name}:{st[1].proj[-1][4]}', b.loc(st[3]),
                                  f'{b.name} replaces the table {st[1].proj[-1][4]} wholesale: existing handles index into it')
            t = bl.term
            if t[0] != 'call' or not t[3]:
                continue
            r, p = operand_root(b, t[3][0])
            names = field_names(p)
            fs = [e for e in p if e[0] == 'f']
            if not fs or fs[-1][1] != heap.id or fs[-1][4] not in tables:
                continue
            name = callee(t)[1] or ''
            n += 1
            key = f'table-call:{b.name}:{fs[-1][4]}:{name.split("::")[-1]}'
            if name.startswith('std::vec::Vec') and name.endswith(FORBIDDEN_VEC):
                res.violation(key, b.loc(t[7]), f'{b.name} calls {name} on {fs[-1][4]}: ids are positions in this table, '
                              f'shrinking or reordering it makes live handles read another (or no) string')
            else:
                res.ok(key, b.loc(t[7]), f'{name.split("::")[-1]} keeps existing positions')
    res.floor('table accesses', n, 12)
    res.analysed['tables'] = tables
    return [res]


def run_intern(prog, tier, repo):
    res = RuleResult('INTERN-DISCIPLINE', 'C17: equal strings get equal handles - a new slot for real text is pushed only '
                     'after both intern maps missed, and is entered into an intern map')
    an = _anchors(prog, res)
    if an is None:
        return [res]
    heap, slot, table_field, union = an
    maps = [f.name for f in heap.variants[0].fields if f.ty.k == 'adt' and f.ty.name.startswith('std::collections::HashMap')
            and f.ty.args and f.ty.args[0].k == 'ref' and f.ty.args[0].args[0].s == 'str']
    if len(maps) != 2:
        res.cannot_decide(f'the two string intern maps of Heap (found {maps})')
        return [res]
    n = 0
    for b in [x for x in prog.bodies.values() if x.crate == 'samlang_heap']:
        cfg = None
        for bi, t in call_sites(b, lambda nm: nm.endswith('Vec::<T, A>::push')):
            r, p = operand_root(b, t[3][0])
            fs = [e for e in p if e[0] == 'f']
            if not fs or fs[-1][1] != heap.id or fs[-1][4] != table_field:
                continue
            # pushed value
            vr, vp = operand_root(b, t[3][1])
            sdv = single_def(b, vr) if vr is not None else None
            if not sdv or sdv[1] == 'term' or sdv[2][0] != 'agg':
                res.cannot_decide(f'pushed slot value in {b.name}', b.loc(t[7]))
                continue
            ops = sdv[2][2]
            # placeholder slots: constant empty text (only bump the id counter)
            if ops and ops[0][0] == 'k' and ops[0][1].v in ('""',):
                res.ok(f'push-placeholder:{b.name}', b.loc(t[7]), 'placeholder slot with constant empty text (id counter only)')
                continue
            n += 1
            cfg = cfg or cfg_of(b)
            key = f'push:{b.name}'
            lookups = {m: [] for m in maps}
            inserts = []
            for bj, bl in enumerate(b.blocks):
                tt = bl.term
                if tt[0] == 'call' and tt[3] and not bl.cleanup:
                    nm = callee(tt)[1] or ''
                    rr, pp = operand_root(b, tt[3][0])
                    fns = field_names(pp)
                    if rr == 1 and fns and fns[-1] in maps:
                        if nm.endswith(('::get', '::remove', '::contains_key')):
                            lookups[fns[-1]].append(bj)
                        elif nm.endswith('::insert'):
                            inserts.append(bj)
            # `first.get(k).or_else(|| second.get(k))`: the fallback closure runs exactly on the miss path of the first lookup, so a
            # lookup inside it is a lookup at the adapter call
            for cid_ in prog.closures_of.get(b.id, []):
                cb_ = prog.bodies.get(cid_)
                if cb_ is None:
                    continue
                inner = set()
                for bl_ in cb_.blocks:
                    tt_ = bl_.term
                    if tt_[0] == 'call' and tt_[3] and not bl_.cleanup and (callee(tt_)[1] or '').endswith(('::get', '::contains_key')):
                        from ..dataflow import through_capture as _tc
                        r_, p_ = operand_root(cb_, tt_[3][0])
                        _pb, r_, p_ = _tc(prog, cb_, r_, tuple(p_))
                        fns_ = field_names(p_)
                        if fns_ and fns_[-1] in maps:
                            inner.add(fns_[-1])
                if not inner:
                    continue
                for bj, bl in enumerate(b.blocks):
                    tt = bl.term
                    if bl.cleanup or tt[0] != 'call' or (callee(tt)[1] or '').split('::')[-1] not in ('or_else', 'unwrap_or_else', 'map_or_else'):
                        continue
                    if any(o[0] in ('c', 'm') and strip_refs(b.locals[o[1].local]).k == 'closure'
                           and strip_refs(b.locals[o[1].local]).id == cid_ for o in tt[3]):
                        for m_ in inner:
                            lookups[m_].append(bj)
            # a combined lookup (`static.get(k)` else `temp.get(k)`) yields one Option and the push sits on its None side: the
            # paths that built `Some(..)` into that Option are hits and cannot be the ones reaching the push
            hit_blocks = []
            from ..cfg import def_sites as _ds
            for bj, bl in enumerate(b.blocks):
                tt = bl.term
                if bl.cleanup or tt[0] != 'switch' or tt[1][0] not in ('c', 'm'):
                    continue
                sdd = single_def(b, tt[1][1].local)
                if not (sdd and sdd[1] != 'term' and sdd[2][0] == 'disc' and not sdd[2][1].proj):
                    continue
                none_edges = [(bj, tg) for v, tg in tt[2] if v == 0]
                if not none_edges or not cfg.edges_dominate(none_edges, bi):
                    continue
                seenl, work = set(), [sdd[2][1].local]
                while work:
                    l_ = work.pop()
                    if l_ in seenl:
                        continue
                    seenl.add(l_)
                    for d in _ds(b).get(l_, []):
                        if b.blocks[d[0]].cleanup or d[1] == 'term':
                            continue
                        if d[2][0] == 'agg' and d[2][1][0] == 'adt' and d[2][1][3] == 'Some':
                            hit_blocks.append(d[0])
                        elif d[2][0] == 'use' and d[2][1][0] in ('c', 'm') and not d[2][1][1].proj:
                            work.append(d[2][1][1].local)
            missing = [m for m in maps if not (lookups[m] and cfg.nodes_dominate(lookups[m] + hit_blocks, bi))]
            if missing:
                res.violation(key, b.loc(t[7]), f'{b.name} pushes a new string slot without first looking the text up in '
                              f'{missing}: the same text can get two different handles')
            elif not (inserts and (cfg.nodes_postdominate(inserts, bi) or cfg.nodes_dominate(inserts, bi))):
                res.violation(key, b.loc(t[7]), f'{b.name} pushes a new string slot but does not enter it into an intern map on '
                              f'every path: the next allocation of the same text gets a different handle')
            else:
                res.ok(key, b.loc(t[7]), 'push dominated by lookups in both intern maps and paired with an insert')
    res.floor('real-text slot pushes', n, 2)
    # overwriting a slot with a live (non-reclaimed) value must also enter the new text into an intern map, otherwise
    # the string ends up in neither map and the next allocation of the same text gets a second handle
    vnames = [v.name for v in slot.variants]
    live = [i for i, v in enumerate(slot.variants) if (len(v.fields) == 1 and v.fields[0].ty.k == 'ref')
            or (len(v.fields) == 2 and v.fields[1].ty.s == 'bool')]
    n2 = 0
    for b in [x for x in prog.bodies.values() if x.crate == 'samlang_heap']:
        sites = _slot_assignments(prog, b, slot)
        if not sites:
            continue
        cfg = cfg_of(b)
        inserts = []
        for bj, bl in enumerate(b.blocks):
            tt = bl.term
            if tt[0] == 'call' and tt[3] and not bl.cleanup and (callee(tt)[1] or '').endswith('HashMap::<K, V, S, A>::insert'):
                rr, pp = operand_root(b, tt[3][0])
                fns = field_names(pp)
                if rr == 1 and fns and fns[-1] in maps:
                    inserts.append(bj)
        for bi, st in sites:
            rv = st[2]
            if rv[0] == 'use' and rv[1][0] in ('c', 'm') and not rv[1][1].proj:
                sdv = single_def(b, rv[1][1].local)
                if sdv and sdv[1] != 'term':
                    rv = sdv[2]
            if not (rv[0] == 'agg' and rv[1][0] == 'adt' and rv[1][1] == slot.id and rv[1][2] in live):
                continue       # reclaimed / unknown values are covered by DEALLOC-OWNER
            n2 += 1
            key = f'overwrite-interned:{b.name}'
            if inserts and (cfg.nodes_dominate(inserts, bi) or all(cfg.nodes_postdominate(inserts, bi) for _ in [0])):
                res.ok(key, b.loc(st[3]), f'slot overwritten with a live {vnames[rv[1][2]]} value and entered into an intern map')
            else:
                res.violation(key, b.loc(st[3]), f'{b.name} overwrites a slot with a live {vnames[rv[1][2]]} value but does not enter '
                              f'the text into an intern map on that path: the string is in neither map, so allocating the same '
                              f'text again yields a second, different handle (and two module references for one path)')
    res.floor('live slot overwrites', n2, 2)
    # entering a text into the permanent intern map says "this slot is never reclaimed": on every path the slot itself must be
    # made permanent too - pushed as a permanent slot, or overwritten with one (a string promoted out of the temporary map keeps
    # its old, collectable slot otherwise, and the sweeper frees it under the permanent map's feet)
    tmap = _temp_intern_map(prog, heap, slot)
    pmaps = [m for m in maps if m != tmap]
    perm = [i for i, v in enumerate(slot.variants) if len(v.fields) == 1 and v.fields[0].ty.k == 'ref']
    n3 = 0
    if tmap is not None and len(pmaps) == 1 and len(perm) == 1:
        for b in [x for x in prog.bodies.values() if x.crate == 'samlang_heap' and '::tests' not in x.name]:
            ins = []
            for bj, bl in enumerate(b.blocks):
                tt = bl.term
                if tt[0] == 'call' and tt[3] and not bl.cleanup and (callee(tt)[1] or '').endswith('HashMap::<K, V, S, A>::insert'):
                    rr, pp = operand_root(b, tt[3][0])
                    fns = field_names(pp)
                    if rr == 1 and fns and fns[-1] == pmaps[0]:
                        ins.append((bj, tt))
            if not ins:
                continue
            cfg = cfg_of(b)
            makes = []
            for bi, st in _slot_assignments(prog, b, slot):
                rv = st[2]
                if rv[0] == 'use' and rv[1][0] in ('c', 'm') and not rv[1][1].proj:
                    sdv = single_def(b, rv[1][1].local)
                    if sdv and sdv[1] != 'term':
                        rv = sdv[2]
                if rv[0] == 'agg' and rv[1][0] == 'adt' and rv[1][1] == slot.id and rv[1][2] == perm[0]:
                    makes.append(bi)
            for bi, t in call_sites(b, lambda nm: nm.endswith('Vec::<T, A>::push')):
                vr, _vp = operand_root(b, t[3][1]) if len(t[3]) > 1 else (None, ())
                sdv = single_def(b, vr) if vr is not None else None
                if sdv and sdv[1] != 'term' and sdv[2][0] == 'agg' and sdv[2][1][0] == 'adt' and sdv[2][1][1] == slot.id \
                        and sdv[2][1][2] == perm[0]:
                    makes.append(bi)
            for k, (bj, tt) in enumerate(ins, 1):
                n3 += 1
                key = f'permanent-entry:{b.name}#{k}'
                if makes and (cfg.nodes_dominate(makes, bj) or cfg.nodes_postdominate(makes, bj)):
                    res.ok(key, b.loc(tt[7]), 'the slot entered into the permanent intern map is made permanent on every path')
                else:
                    res.violation(key, b.loc(tt[7]), f'{b.name} enters a text into the permanent intern map `{pmaps[0]}` on a path that '
                                  f'neither pushes a permanent slot nor overwrites the slot with one: the slot keeps its collectable '
                                  f'state, the sweeper reclaims it, and the permanent handle then points at a reclaimed string')
    res.floor('entries into the permanent intern map', n3, 1)
    return [res]


# ---------------------------------------------------------------------------------------------------------------------
# UNMARKED-SET-DISCIPLINE (C17, C11): the set of modules still to be marked is the sweeper's gate: sweeping may start only
# when it is empty *because every module was handed out and marked*. The set may therefore only grow by `insert` and shrink
# by removing the one element that is handed out; any bulk operation (drain, clear, retain, mem::take, reassignment) empties
# it without the modules having been marked, the gate opens early and live strings are reclaimed.

def run_unmarked_set(prog, tier, repo):
    res = RuleResult('UNMARKED-SET-DISCIPLINE', 'C17: the pending-module set that gates the sweeper only grows by insert and shrinks by '
                     'removing the single module that is handed out for marking')
    anchors = _anchors(prog, res)
    if anchors is None:
        return [res]
    heap = anchors[0]
    setf = _unmarked_set_field(heap)
    if setf is None:
        res.cannot_decide('the pending-module set of the heap')
        return [res]
    ALLOWED_MUT = {'insert': 'adds a pending module', 'remove': 'removes the module handed out', 'take': 'removes the module handed out'}
    n = 0
    for b in prog.bodies.values():
        if b.crate != 'samlang_heap' or '::tests' in b.name:
            continue
        for bi, bl in enumerate(b.blocks):
            if bl.cleanup:
                continue
            for st in bl.stmts:
                if st[0] == 'a' and st[1].proj:
                    r, pp = root_local(b, st[1].local)
                    names = field_names(tuple(pp) + tuple(e for e in st[1].proj if e[0] in ('f', 't', 'v')))
                    if names and names[-1] == setf and st[1].proj[-1][0] == 'f':
                        n += 1
                        res.violation(f'set-write:{b.name}', b.loc(st[3]), f'{b.name} assigns the pending-module set as a whole: modules '
                                      f'that were waiting to be marked are forgotten and the sweeper\'s gate opens early')
            t = bl.term
            if t[0] != 'call' or not t[3] or t[3][0][0] not in ('c', 'm'):
                continue
            r, pp = operand_root(b, t[3][0])
            names = field_names(pp)
            if not (names and names[-1] == setf):
                continue
            ty = b.locals[t[3][0][1].local]
            if not (ty.k == 'ref' and ty.extra == 1):
                continue        # shared access (iter, is_empty, contains, len)
            short = (callee(t)[1] or '').split('::')[-1]
            n += 1
            key = f'set-mut:{b.name}:{short}'
            if short in ALLOWED_MUT:
                res.ok(key, b.loc(t[7]), ALLOWED_MUT[short])
            else:
                res.violation(key, b.loc(t[7]), f'{b.name} calls `{short}` on the pending-module set: that removes modules that were never '
                              f'handed out for marking (dropping a `drain()` iterator empties the whole set), so the sweeper runs while '
                              f'marking is incomplete and reclaims strings that are still referenced')
    res.floor('mutations of the pending-module set', n, 2)
    return [res]


# ---------------------------------------------------------------------------------------------------------------------
# PER-ELEMENT-TOTAL (C17): some heap operations are owed to *every* element of a collection - each part of a module
# reference is made permanent before the parts are leaked into the module table, each string of a marked module is marked.
# A loop (or `for_each`) whose body performs such an operation must walk the whole collection: the iterator it is driven by
# is built from the collection through adapters that look at every element (`iter`, `map`, `filter`, `copied`, ...), never
# through one that cuts the sequence by position (`take_while`, `skip`, `take`, `step_by`, ...): what lies behind the cut
# is skipped although the obligation is per element.

TRUNCATING = ('take_while', 'skip_while', 'take', 'skip', 'step_by', 'map_while', 'nth', 'last', 'next_back', 'rev_take',
              'take_any', 'skip_any', 'dropping', 'dropping_back', 'while_some', 'take_while_ref', 'take_while_inclusive')


def run_per_element_total(prog, tier, repo):
    res = RuleResult('PER-ELEMENT-TOTAL', 'C17: a loop that makes strings permanent or marks them walks its whole collection - the '
                     'iterator driving it contains no adapter that cuts the sequence by position')
    # the per-element operations: heap methods that write the Permanent variant of a slot or set the mark of a slot
    ops = set()
    for b in prog.bodies.values():
        if b.crate != 'samlang_heap' or '::tests' in b.name or b.kind == 'closure':
            continue
        short = b.name.split('::')[-1]
        if short.startswith(('make_string_permanent', 'mark')) or short in ('make_permanent',):
            ops.add(b.id)
    if not ops:
        res.cannot_decide('the per-element heap operations (make_string_permanent / mark*)')
        return [res]
    n = 0
    for b in sorted(prog.bodies.values(), key=lambda x: x.name):
        if b.crate not in ('samlang_heap', 'samlang_services') or '::tests' in b.name or '_tests::' in b.name:
            continue
        if not any(bl.term[0] == 'call' and callee(bl.term)[0] in ops for bl in b.blocks if not bl.cleanup):
            continue
        cfg = cfg_of(b)
        heads = {h for (_, h) in cfg.back_edges()}
        for bi, bl in enumerate(b.blocks):
            t = bl.term
            if bl.cleanup or t[0] != 'call' or not t[3]:
                continue
            short = (callee(t)[1] or '').split('::')[-1]
            if short != 'next':
                continue
            # is an obligation op inside the loop this next() drives?
            loop_blocks = {x for x in cfg.reachable(bi) if bi in cfg.reachable(x)}
            if not any(b.blocks[x].term[0] == 'call' and callee(b.blocks[x].term)[0] in ops for x in loop_blocks if not b.blocks[x].cleanup):
                continue
            n += 1
            # trace the iterator back through its adapters
            r, _ = operand_root(b, t[3][0])
            chain, cur, cut = [], r, None
            for _i in range(20):
                if cur is None:
                    break
                sd = single_def(b, cur)
                if not sd or sd[1] != 'term':
                    if sd and sd[2][0] in ('use', 'ref'):
                        nxt = sd[2][1][1].local if sd[2][0] == 'use' and sd[2][1][0] in ('c', 'm') else (sd[2][2].local if sd[2][0] == 'ref' else None)
                        if nxt is None or nxt == cur:
                            break
                        cur = nxt
                        continue
                    break
                t2 = sd[2]
                s2 = (callee(t2)[1] or '').split('::')[-1]
                chain.append(s2)
                if s2 in TRUNCATING:
                    cut = (s2, t2[7])
                if not t2[3] or t2[3][0][0] not in ('c', 'm'):
                    break
                cur, _p = operand_root(b, t2[3][0])
            k = sum(1 for i in res.instances if i.key.startswith(f'loop:{b.name}#')) + 1
            key = f'loop:{b.name}#{k}'
            if cut:
                res.violation(key, b.loc(cut[1]), f'{b.name}: the loop that makes strings permanent / marks them is driven by an '
                              f'iterator cut by `{cut[0]}`: elements behind the cut are never visited, stay collectable and are '
                              f'reclaimed by the next sweep while the table they were stored in still refers to them')
            else:
                res.ok(key, b.loc(t[7]), 'walks the whole collection (' + ' <- '.join(chain or ['direct']) + ')')
    res.floor('loops performing a per-element heap obligation', n, 2)
    return [res]


# ---------------------------------------------------------------------------------------------------------------------
# MODREF-PARTS-PERMANENT (C17): a string that is part of a module reference is never reclaimed. Module references are never
# collected, so every part has to be made permanent before the reference enters the module-reference table. Rule: every push
# onto that table is preceded - in the pushing function, or else in every function that calls it - by the loop that promotes
# the parts (the loop calling the function that rewrites a slot to `Permanent`).

def run_modref_parts_permanent(prog, tier, repo):
    res = RuleResult('MODREF-PARTS-PERMANENT', 'C17: the parts of a module reference are promoted to permanent strings before the reference '
                     'enters the module-reference table, on every way into that table')
    heap = [a for a in prog.adts.values() if a.name == 'samlang_heap::Heap']
    if len(heap) != 1:
        res.cannot_decide('samlang_heap::Heap')
        return [res]
    tbl = [f.name for f in heap[0].variants[0].fields if f.ty.s.startswith('std::vec::Vec<&') and 'PStr]' in f.ty.s]
    if len(tbl) != 1:
        res.cannot_decide(f'the module-reference table of the heap (found {tbl})')
        return [res]
    tbl = tbl[0]
    bodies = [b for b in prog.bodies.values() if b.crate == 'samlang_heap' and '::tests' not in b.name]
    # the promoting function: takes a handle and writes a `Permanent` slot
    promoters = set()
    for b in bodies:
        if b.kind == 'closure':
            continue
        if any(st[0] == 'a' and st[2][0] == 'agg' and st[2][1][0] == 'adt' and str(st[2][1][3]) == 'Permanent'
               for bl in b.blocks if not bl.cleanup for st in bl.stmts) and \
                any('PStr' in strip_refs(b.locals[i]).s for i in range(1, b.nargs + 1)) and b.locals[0].s == '()':
            promoters.add(b.id)
    if not promoters:
        res.cannot_decide('the function that makes a string permanent')
        return [res]

    def promoted_before(b, target_bb):
        cfg = cfg_of(b)
        # `parts.iter().for_each(|p| self.make_permanent(*p))`: the promotion runs inside the adapter call that receives the closure
        for cid_ in prog.closures_of.get(b.id, []):
            cb_ = prog.bodies.get(cid_)
            if cb_ is None or not any(not bl.cleanup and bl.term[0] == 'call' and callee(bl.term)[0] in promoters for bl in cb_.blocks):
                continue
            for bi, bl in enumerate(b.blocks):
                t = bl.term
                if bl.cleanup or t[0] != 'call':
                    continue
                if any(o[0] in ('c', 'm') and strip_refs(b.locals[o[1].local]).k == 'closure'
                       and strip_refs(b.locals[o[1].local]).id == cid_ for o in t[3]) and cfg.nodes_dominate([bi], target_bb):
                    return True
        for bi, bl in enumerate(b.blocks):
            t = bl.term
            if bl.cleanup or t[0] != 'call' or callee(t)[0] not in promoters:
                continue
            loop = {x for x in cfg.reachable(bi) if bi in cfg.reachable(x)} or {bi}
            if any(cfg.nodes_dominate([x], target_bb) for x in loop):
                return True
        return False
    pushers = {}
    for b in bodies:
        for bi, bl in enumerate(b.blocks):
            t = bl.term
            if bl.cleanup or t[0] != 'call' or (callee(t)[1] or '').split('::')[-1] != 'push' or not t[3]:
                continue
            fns = field_names(operand_root(b, t[3][0])[1])
            if fns and fns[-1] == tbl:
                pushers.setdefault(b.id, []).append(bi)
    n = 0
    for fid, blocks in sorted(pushers.items()):
        f = prog.bodies[fid]
        for bi in blocks:
            n += 1
            key = f'push:{f.name}'
            if promoted_before(f, bi):
                res.ok(key, f.loc(f.blocks[bi].term[7]), 'the parts are promoted in the pushing function before the push')
                continue
            callers = []
            for c in bodies:
                for bj, bl in enumerate(c.blocks):
                    if not bl.cleanup and bl.term[0] == 'call' and callee(bl.term)[0] == fid:
                        callers.append((c, bj))
            bad = [(c, bj) for c, bj in callers if not promoted_before(c, bj)]
            if not callers or bad:
                where = bad[0][0].loc(bad[0][0].blocks[bad[0][1]].term[7]) if bad else f.loc()
                who = bad[0][0].name if bad else f.name
                res.violation(key, where, f'{who} puts a module reference into the module-reference table without first promoting its parts '
                              f'to permanent strings: a part that is still a temporary string (e.g. a class of the same name was seen '
                              f'first) is reclaimed by a later sweep although the module reference keeps referring to it')
            else:
                res.ok(key, f.loc(f.blocks[bi].term[7]), f'every caller ({", ".join(sorted({c.name.split("::")[-1] for c, _ in callers}))}) '
                       f'promotes the parts before the call')
    res.floor('pushes onto the module-reference table', n, 1)
    return [res]
