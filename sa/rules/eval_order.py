"""EVAL-ORDER (C01): source->HIR lowering emits the statements of sub-expressions in the language's evaluation order
(left to right: callee before arguments, left operand before right operand, scrutinee before arms). Decided as a
reachability rule: on no path is the later child lowered before the earlier one."""
from ..core import RuleResult
from ..cfg import cfg_of, single_def
from ..dataflow import operand_root
from ..facts import callee

# (struct, earlier field, later field): the language evaluates `earlier` completely before `later`
X = 'samlang_ast::source::expr::'
ORDER = [
    ((X + 'Call', 'callee'), (X + 'Call', 'arguments')),
    ((X + 'Binary', 'e1'), (X + 'Binary', 'e2')),
    ((X + 'Match', 'matched'), (X + 'VariantPatternToExpression', 'body')),
    ((X + 'IfElse', 'condition'), (X + 'IfElse', 'e1')),
    ((X + 'IfElse', 'condition'), (X + 'IfElse', 'e2')),
]
TRANSPARENT = ('as_ref', 'deref', 'as_deref', 'iter', 'into_iter', 'borrow', 'iter_mut', 'enumerate', 'rev', 'skip', 'zip')


def _trace(b, op, depth=0):
    r, pp = operand_root(b, op)
    if r is None:
        return None, ()
    if not (1 <= r <= b.nargs) and depth < 8:
        sd = single_def(b, r)
        if sd and sd[1] == 'term' and (callee(sd[2])[1] or '').split('::')[-1] in TRANSPARENT and sd[2][3]:
            r2, p2 = _trace(b, sd[2][3][0], depth + 1)
            return r2, tuple(p2) + tuple(pp)
    return r, pp


def run(prog, tier, repo):
    res = RuleResult('EVAL-ORDER', 'C01: compiled code evaluates sub-expressions in source order - no lowering path handles a '
                     'later child (arguments, right operand, arms) before an earlier one (callee, left operand, scrutinee)')
    is_lower = lambda nm: 'hir_lowering' in nm and nm.split('::')[-1].startswith(('lower', 'lowered_and_add'))
    tracked = {x for pair in ORDER for x in pair}
    bodies = [b for b in prog.bodies.values() if b.name.startswith('samlang_compiler::hir_lowering::') and b.kind != 'closure']
    n = 0
    for b in sorted(bodies, key=lambda x: x.name):
        cfg = cfg_of(b)
        events = []     # (block, adt name, field, line)
        for bi, bl in enumerate(b.blocks):
            if bl.cleanup:
                continue
            t = bl.term
            if t[0] == 'call' and is_lower(callee(t)[1] or '') and len(t[3]) >= 2:
                r, pp = _trace(b, t[3][1])
                for e in pp:
                    if e[0] == 'f' and e[1] in prog.adts and (prog.adts[e[1]].name, e[4]) in tracked:
                        events.append((bi, prog.adts[e[1]].name, e[4], t[7]))
            # a closure that lowers its argument, mapped over a child collection
            if t[0] == 'call' and t[3]:
                for o in t[3][1:]:
                    if o[0] not in ('c', 'm'):
                        continue
                    rr, _ = operand_root(b, o)
                    sd = single_def(b, rr) if rr is not None else None
                    if sd and sd[1] != 'term' and sd[2][0] == 'agg' and sd[2][1][0] == 'closure':
                        cb = prog.bodies.get(sd[2][1][1])
                        if cb is not None and any(x.term[0] == 'call' and is_lower(callee(x.term)[1] or '') for x in cb.blocks):
                            r, pp = _trace(b, t[3][0])
                            for e in pp:
                                if e[0] == 'f' and e[1] in prog.adts and (prog.adts[e[1]].name, e[4]) in tracked:
                                    events.append((bi, prog.adts[e[1]].name, e[4], t[7]))
        for (adt_name, first), (adt2, later) in ORDER:
            fe = [e for e in events if e[1] == adt_name and e[2] == first]
            le = [e for e in events if e[1] == adt2 and e[2] == later]
            if not fe or not le:
                continue
            n += 1
            key = f'order:{b.name}:{adt_name.split("::")[-1]}.{first}<{later}'
            bad = [(l, f) for l in le for f in fe if l[0] != f[0] and cfg.can_reach(l[0], f[0]) and not cfg.can_reach(f[0], l[0])]
            if bad:
                l, f = bad[0]
                res.violation(key, b.loc(l[3]), f'{b.name} lowers `{later}` of a {adt_name.split("::")[-1]} (line {l[3]}) on a path before '
                              f'it lowers `{first}` (line {f[3]}): the emitted statements evaluate the {later} first, so side effects '
                              f'(prints, panics) happen in a different order than the source prescribes')
            else:
                res.ok(key, b.loc(fe[0][3]), f'`{first}` is lowered before `{later}` on every path that lowers both')
    res.floor('ordered child pairs found in the lowering', n, 5)
    return [res]


# ---------------------------------------------------------------------------------------------------------------------
# RESOLVED-ORDINAL (C01): the checker resolves names to positions - the declared index of a field, the tag of a variant -
# and stores them in integer fields of the typed syntax tree. The lowering has no access to the declarations any more, so a
# resolved ordinal it never reads means it substitutes its own guess (the position at which the element happens to be
# written), which is wrong as soon as the source lists things in another order than the declaration.

def run_resolved_ordinal(prog, tier, repo):
    from ..core import field_reads
    from ..dataflow import operand_root
    res = RuleResult('RESOLVED-ORDINAL', 'C01: every ordinal the checker resolves and stores in the typed syntax tree (field index, '
                     'variant tag) is read by the source-to-HIR lowering')
    computed = {}
    for b in prog.bodies.values():
        if b.crate != 'samlang_checker':
            continue
        for bl in b.blocks:
            if bl.cleanup:
                continue
            for st in bl.stmts:
                if st[0] != 'a' or st[2][0] != 'agg' or st[2][1][0] != 'adt':
                    continue
                aid = st[2][1][1]
                adt = prog.adts.get(aid)
                if adt is None or not adt.name.startswith('samlang_ast::source'):
                    continue
                vi = st[2][1][2]
                fields = adt.variants[vi].fields
                for k, o in enumerate(st[2][2]):
                    if k >= len(fields) or o[0] == 'k':
                        continue
                    ft = fields[k].ty
                    if not (ft.k == 'prim' and ft.s in ('usize', 'i32', 'u32', 'isize', 'i64', 'u64')):
                        continue
                    r, pth = operand_root(b, o)
                    fs = [e for e in pth if e[0] == 'f']
                    if fs and fs[-1][1] == aid and fs[-1][2] == vi and fs[-1][3] == k:
                        continue        # carried over from the untyped node
                    computed.setdefault((aid, vi, k), b)
    readers = {}
    for b in prog.bodies.values():
        if b.crate == 'samlang_compiler' and '::hir_lowering::' in b.name + '::':
            for k, v in field_reads(b).items():
                readers.setdefault(k, (b, v))
    for (aid, vi, k), wb in sorted(computed.items(), key=lambda x: str(x[0])):
        adt = prog.adts[aid]
        f = adt.variants[vi].fields[k]
        nm = adt.name.split('source::')[-1]
        key = f'ordinal:{nm}.{f.name}'
        if (aid, vi, k) in readers:
            rb, line = readers[(aid, vi, k)]
            res.ok(key, rb.loc(line), f'resolved by {wb.name.split("::")[-1]}, read by {rb.name.split("::")[-1]}')
        else:
            res.violation(key, f'{adt.file}:{adt.line}', f'`{nm}.{f.name}` is resolved by the checker ({wb.name}) but never read by the '
                          f'source-to-HIR lowering, which therefore uses its own notion of position: a struct pattern that lists '
                          f'fields in another order than the declaration binds the wrong fields')
    res.floor('resolved ordinals', len(computed), 3)
    return [res]


# ---------------------------------------------------------------------------------------------------------------------
# GUARDED-OPERAND (C01): `a && b` / `a || b` evaluate b only when a does not already decide the result. In the lowering
# this is visible as a shape: the statements produced by lowering the second operand are placed inside a branch of an
# `IfElse` statement whose condition is the value of the first operand. Wherever such a guarded pair exists, every *other*
# place the second operand's statements go to (an unconditional concatenation, the result's statement list) must be behind
# a compile-time decision about the FIRST operand being a literal - any other route executes the operand's side effects
# unconditionally.

def run_guarded_operand(prog, tier, repo):
    from ..dataflow import root_local
    from ..tables import enum_switches
    from ..core import places_read
    res = RuleResult('GUARDED-OPERAND', 'C01: where the lowering guards the statements of one operand by the value of another '
                     '(short-circuit `&&` / `||`), those statements reach the output only inside the guarded branch or behind a '
                     'compile-time test of the guarding operand being a literal')
    hir_expr = [a for a in prog.adts.values() if a.name == 'samlang_ast::hir::Expression']
    if len(hir_expr) != 1:
        res.cannot_decide('samlang_ast::hir::Expression')
        return [res]
    hexpr = hir_expr[0]
    lit_variants = {i for i, v in enumerate(hexpr.variants) if 'Literal' in v.name}
    n = 0
    for b in sorted(prog.bodies.values(), key=lambda x: x.name):
        if not b.name.startswith('samlang_compiler::hir_lowering::') or '::tests' in b.name:
            continue
        # lowering calls: result type is a struct with a statements vector and an expression
        lows = {}
        for bi, bl in enumerate(b.blocks):
            t = bl.term
            if bl.cleanup or t[0] != 'call' or t[4] is None or t[4].proj:
                continue
            rt = b.locals[t[4].local]
            if rt.k == 'adt' and rt.name.endswith('::LoweringResult'):
                lows[t[4].local] = bi

        def origin(op):
            """(lowering-result local, field name) an operand is moved out of, or None"""
            if op[0] not in ('c', 'm'):
                return None
            r, path = operand_root(b, op)
            if r in lows:
                fs = [e for e in path if e[0] == 'f']
                if fs:
                    return r, fs[0][4]
            return None
        pairs = {}    # guarded lowering local -> (guard lowering local, line)
        agg_uses = set()
        for bi, bl in enumerate(b.blocks):
            if bl.cleanup:
                continue
            for st in bl.stmts:
                if st[0] == 'a' and st[2][0] == 'agg' and st[2][1][0] == 'adt' and st[2][1][3] == 'IfElse' \
                        and st[2][1][1].endswith('hir::Statement'):
                    ops = st[2][2]
                    cond = origin(ops[0]) if ops else None
                    for o in ops[1:3]:
                        og = origin(o)
                        if og and og[1] == 'statements' and cond and cond[1] == 'expression' and cond[0] != og[0]:
                            pairs[og[0]] = (cond[0], st[3])
                            agg_uses.add((bi, og[0]))
        if not pairs:
            continue
        cfg = cfg_of(b)
        switches = enum_switches(prog, b, hexpr.id)
        for guarded, (guard, line) in sorted(pairs.items()):
            n += 1
            # compile-time literal tests of the guard's expression
            lit_edges = []
            for sw in switches:
                r, path = root_local(b, sw.place.local)
                fs = [e for e in tuple(path) + tuple(sw.place.proj) if e[0] == 'f']
                if r == guard and fs and fs[0][4] == 'expression':
                    for v in lit_variants:
                        tg = sw.arms.get(v)
                        if tg is not None:
                            lit_edges.append((sw.bb, tg))
            bad = None
            for bi, bl in enumerate(b.blocks):
                if bl.cleanup:
                    continue
                uses = []
                for st in bl.stmts:
                    if st[0] == 'a':
                        if st[2][0] == 'agg':
                            for o in st[2][2]:
                                og = origin(o)
                                if og == (guarded, 'statements'):
                                    is_ifelse = st[2][1][0] == 'adt' and st[2][1][3] == 'IfElse'
                                    if not is_ifelse:
                                        uses.append(st[3])
                t = bl.term
                if t[0] == 'call':
                    for o in t[3]:
                        if origin(o) == (guarded, 'statements') and o[0] == 'm':
                            uses.append(t[7])
                for ln in uses:
                    arm_starts = [tg for _sb, tg in lit_edges]
                    if not (arm_starts and cfg.nodes_dominate(arm_starts, bi)):
                        bad = (bi, ln)
            k = sum(1 for i in res.instances if i.key.startswith(f'guarded:{b.name}#')) + 1
            key = f'guarded:{b.name}#{k}'
            if bad:
                res.violation(key, b.loc(bad[1]), f'{b.name} guards the statements of one lowered operand by the value of another '
                              f'(IfElse built at line {line}) but also moves those statements into the output on a path that is not '
                              f'behind a test of the guarding operand being a literal: the operand\'s side effects (calls, traps) '
                              f'run even when the first operand already decides the result')
            else:
                res.ok(key, b.loc(line), 'the guarded operand\'s statements are only used inside the branch or behind a literal '
                       'test of the guard')
    res.floor('guarded operand pairs (short-circuit lowerings)', n, 2)
    return [res]
