"""EVAL-ORDER (C01): source->HIR lowering emits the statements of sub-expressions in the language's evaluation order
(left to right: callee before arguments, left operand before right operand, scrutinee before arms). Decided as a
reachability rule: on no path is the later child lowered before the earlier one."""
from ..core import RuleResult
from ..cfg import cfg_of, single_def
from ..dataflow import operand_root
from ..facts import callee

# (struct, earlier field, later field): the language evaluates `earlier` completely before `later`
X = 'samlang_ast::source::expr::'
ORDER = [
    ((X + 'Call', 'callee'), (X + 'Call', 'arguments')),
    ((X + 'Binary', 'e1'), (X + 'Binary', 'e2')),
    ((X + 'Match', 'matched'), (X + 'VariantPatternToExpression', 'body')),
    ((X + 'IfElse', 'condition'), (X + 'IfElse', 'e1')),
    ((X + 'IfElse', 'condition'), (X + 'IfElse', 'e2')),
]
TRANSPARENT = ('as_ref', 'deref', 'as_deref', 'iter', 'into_iter', 'borrow', 'iter_mut', 'enumerate', 'rev', 'skip', 'zip')


def _trace(b, op, depth=0):
    r, pp = operand_root(b, op)
    if r is None:
        return None, ()
    if not (1 <= r <= b.nargs) and depth < 8:
        sd = single_def(b, r)
        if sd and sd[1] == 'term' and (callee(sd[2])[1] or '').split('::')[-1] in TRANSPARENT and sd[2][3]:
            r2, p2 = _trace(b, sd[2][3][0], depth + 1)
            return r2, tuple(p2) + tuple(pp)
    return r, pp


def run(prog, tier, repo):
    res = RuleResult('EVAL-ORDER', 'C01: compiled code evaluates sub-expressions in source order - no lowering path handles a '
                     'later child (arguments, right operand, arms) before an earlier one (callee, left operand, scrutinee)')
    is_lower = lambda nm: 'hir_lowering' in nm and nm.split('::')[-1].startswith(('lower', 'lowered_and_add'))
    tracked = {x for pair in ORDER for x in pair}
    bodies = [b for b in prog.bodies.values() if b.name.startswith('samlang_compiler::hir_lowering::') and b.kind != 'closure']
    n = 0
    for b in sorted(bodies, key=lambda x: x.name):
        cfg = cfg_of(b)
        events = []     # (block, adt name, field, line)
        for bi, bl in enumerate(b.blocks):
            if bl.cleanup:
                continue
            t = bl.term
            if t[0] == 'call' and is_lower(callee(t)[1] or '') and len(t[3]) >= 2:
                r, pp = _trace(b, t[3][1])
                for e in pp:
                    if e[0] == 'f' and e[1] in prog.adts and (prog.adts[e[1]].name, e[4]) in tracked:
                        events.append((bi, prog.adts[e[1]].name, e[4], t[7]))
            # a closure that lowers its argument, mapped over a child collection
            if t[0] == 'call' and t[3]:
                for o in t[3][1:]:
                    if o[0] not in ('c', 'm'):
                        continue
                    rr, _ = operand_root(b, o)
                    sd = single_def(b, rr) if rr is not None else None
                    if sd and sd[1] != 'term' and sd[2][0] == 'agg' and sd[2][1][0] == 'closure':
                        cb = prog.bodies.get(sd[2][1][1])
                        if cb is not None and any(x.term[0] == 'call' and is_lower(callee(x.term)[1] or '') for x in cb.blocks):
                            r, pp = _trace(b, t[3][0])
                            for e in pp:
                                if e[0] == 'f' and e[1] in prog.adts and (prog.adts[e[1]].name, e[4]) in tracked:
                                    events.append((bi, prog.adts[e[1]].name, e[4], t[7]))
        for (adt_name, first), (adt2, later) in ORDER:
            fe = [e for e in events if e[1] == adt_name and e[2] == first]
            le = [e for e in events if e[1] == adt2 and e[2] == later]
            if not fe or not le:
                continue
            n += 1
            key = f'order:{b.name}:{adt_name.split("::")[-1]}.{first}<{later}'
            bad = [(l, f) for l in le for f in fe if l[0] != f[0] and cfg.can_reach(l[0], f[0]) and not cfg.can_reach(f[0], l[0])]
            if bad:
                l, f = bad[0]
                res.violation(key, b.loc(l[3]), f'{b.name} lowers `{later}` of a {adt_name.split("::")[-1]} (line {l[3]}) on a path before '
                              f'it lowers `{first}` (line {f[3]}): the emitted statements evaluate the {later} first, so side effects '
                              f'(prints, panics) happen in a different order than the source prescribes')
            else:
                res.ok(key, b.loc(fe[0][3]), f'`{first}` is lowered before `{later}` on every path that lowers both')
    res.floor('ordered child pairs found in the lowering', n, 5)
    return [res]
