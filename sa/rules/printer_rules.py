"""C08 rules: PREC-ISO and LITERAL-PARITY (DESIGN.md §3.9)."""
from ..core import RuleResult
from ..cfg import cfg_of, single_def
from ..dataflow import operand_root, root_local, call_sites
from ..facts import callee
from ..tables import enum_switches, arm_regions
from ..callgraph import body_refs, family

SRC_BINOP = 'samlang_ast::source::expr::BinaryOperator'
SRC_BINARY = 'samlang_ast::source::expr::Binary'
E = 'samlang_ast::source::expr::E'


def _adt(prog, name):
    r = [a for a in prog.adts.values() if a.name == name]
    return r[0] if len(r) == 1 else None


def _returns_E(b):
    t = b.locals[0]
    return t.k == 'adt' and t.name == E


def parser_levels(prog, res):
    binop, binary = _adt(prog, SRC_BINOP), _adt(prog, SRC_BINARY)
    if binop is None or binary is None:
        return None
    parser = {b.id: b for b in prog.bodies.values() if b.crate == 'samlang_parser' and b.kind != 'closure'}
    levels = {}
    for b in parser.values():
        builds = False
        ops = set()
        for bl in b.blocks:
            if bl.cleanup:
                continue
            for st in bl.stmts:
                if st[0] == 'a' and st[2][0] == 'agg' and st[2][1][0] == 'adt':
                    if st[2][1][1] == binary.id:
                        builds = True
                    elif st[2][1][1] == binop.id:
                        ops.add(st[2][1][2])
        if builds and ops:
            levels[b.id] = ops
    # next tighter level: the level function that F's operand parser directly calls
    nxt = {}
    for fid in levels:
        f = parser[fid]
        cands = set()
        for r in body_refs(f):
            g = parser.get(r)
            if g is None or g.id in levels or not _returns_E(g):
                continue
            for r2 in body_refs(g):
                if r2 in levels and r2 != fid:
                    cands.add(r2)
        direct = {r for r in body_refs(f) if r in levels and r != fid}
        cands |= direct
        nxt[fid] = cands
    return parser, levels, nxt, binop


def run_prec_iso(prog, tier, repo):
    res = RuleResult('PREC-ISO', 'C08: formatting never changes grouping - the precedence order the parser implements and the '
                     'precedence table the printer elides parentheses with are order-isomorphic on all binary operators')
    pl = parser_levels(prog, res)
    if pl is None:
        res.cannot_decide('source BinaryOperator / Binary types')
        return [res]
    parser, levels, nxt, binop = pl
    names = [v.name for v in binop.variants]
    # chain
    roots = [f for f in levels if not any(f in n for n in nxt.values())]
    if len(roots) != 1 or any(len(n) > 1 for n in nxt.values()):
        res.cannot_decide('binary-operator productions of the parser do not form a single precedence chain '
                          f'(roots={[parser[r].name for r in roots]}, branching={[parser[f].name for f, n in nxt.items() if len(n) > 1]})')
        return [res]
    rank = {}
    cur = roots[0]
    i = 0
    seen = set()
    while cur is not None and cur not in seen:
        seen.add(cur)
        for op in levels[cur]:
            rank[op] = i
        i += 1
        n = nxt[cur]
        cur = next(iter(n)) if n else None
    if len(seen) != len(levels) or set(rank) != set(range(len(names))):
        res.cannot_decide(f'parser precedence chain does not cover every binary operator (covered {sorted(names[o] for o in rank)})')
        return [res]
    # printer table: fn precedence(&BinaryOperator) -> i32
    prec = None
    pbody = None
    for b in prog.bodies.values():
        if b.crate != 'samlang_ast' or b.locals[0].s != 'i32' or b.nargs != 1:
            continue
        for tb in enum_switches(prog, b, binop.id):
            regions, _ = arm_regions(b, tb)
            table = {}
            for v in range(len(names)):
                vals = set()
                for bi in regions[v]:
                    for st in b.blocks[bi].stmts:
                        if st[0] == 'a' and st[1].local == 0 and st[2][0] == 'use' and st[2][1][0] == 'k' and st[2][1][1].i is not None:
                            vals.add(st[2][1][1].i)
                if len(vals) == 1:
                    table[v] = next(iter(vals))
            if len(table) == len(names):
                prec, pbody = table, b
    if prec is None:
        res.cannot_decide('printer precedence table fn(&BinaryOperator) -> i32')
        return [res]
    sgn = lambda x: (x > 0) - (x < 0)
    for a in range(len(names)):
        for c in range(a + 1, len(names)):
            key = f'prec:{names[a]}~{names[c]}'
            p_rel = sgn(rank[a] - rank[c])          # >0: a binds tighter than c in the parser
            q_rel = sgn(prec[c] - prec[a])          # >0: a binds tighter than c for the printer (smaller = tighter)
            if p_rel == q_rel:
                res.ok(key, pbody.loc(), 'parser and printer agree')
            else:
                rel = {1: 'tighter than', 0: 'level with', -1: 'looser than'}
                res.violation(key, pbody.loc(), f'parser binds {names[a]} {rel[p_rel]} {names[c]} but the printer\'s table says '
                              f'{rel[q_rel]}: a tree nesting the two is printed without the parentheses it needs (or re-grouped) '
                              f'and re-parses to a different tree')
    res.analysed['parser_chain'] = [sorted(names[o] for o in levels[f]) for f in sorted(seen, key=lambda f: min(rank[o] for o in levels[f]))]
    res.analysed['printer_table'] = {names[v]: p for v, p in prec.items()}
    return [res]


def run_literal_parity(prog, tier, repo):
    res = RuleResult('LITERAL-PARITY', 'C08: literal printing inverts lexing - every transformation the parser applies to the '
                     'text of a string literal has its inverse on the printer\'s string-literal path')
    lit = _adt(prog, 'samlang_ast::source::Literal')
    if lit is None:
        res.cannot_decide('source::Literal')
        return [res]
    sidx = [i for i, v in enumerate(lit.variants) if v.name == 'String']
    if not sidx:
        res.cannot_decide('Literal::String')
        return [res]
    sidx = sidx[0]
    TRANSFORMS = ('str::<impl str>::replace', 'str::<impl str>::replacen', 'str::<impl str>::trim_matches',
                  'str::<impl str>::to_lowercase', 'str::<impl str>::to_uppercase')

    def transforms_on_path(bodies, is_site):
        """content-transforming std calls in functions that feed / consume Literal::String payloads"""
        out = []
        for b in bodies:
            sites = []
            for bi, bl in enumerate(b.blocks):
                if bl.cleanup:
                    continue
                if is_site(b, bl):
                    sites.append(bi)
            if not sites:
                continue
            # helpers directly called in this body (same crate) are part of the path
            scope = [b] + [prog.bodies[r] for r in body_refs(b) if r in prog.bodies and prog.bodies[r].crate == b.crate
                           and prog.bodies[r].kind != 'closure' and len(prog.bodies[r].blocks) < 12]
            for s in scope:
                for bi, t in call_sites(s, lambda n: n.endswith(TRANSFORMS)):
                    pat = []
                    for o in t[3][1:]:
                        if o[0] == 'k':
                            pat.append(o[1].v)
                        elif o[0] in ('c', 'm'):
                            r, pp = operand_root(s, o)
                            sd = single_def(s, r)
                            if sd and sd[1] != 'term' and sd[2][0] == 'use' and sd[2][1][0] == 'k':
                                pat.append(sd[2][1][1].v)
                            else:
                                pat.append('<dynamic>')
                    out.append((s, t[7], (callee(t)[1] or '').split('::')[-1], pat))
        return out

    def builds_string(b, bl):
        return any(st[0] == 'a' and st[2][0] == 'agg' and st[2][1][0] == 'adt' and st[2][1][1] == lit.id and st[2][1][2] == sidx
                   for st in bl.stmts)

    def reads_string(b, bl):
        from ..core import places_read
        for st in bl.stmts:
            if st[0] == 'a':
                pls = [st[1]]
                rv = st[2]
                if rv[0] == 'ref':
                    pls.append(rv[2])
                elif rv[0] == 'use' and rv[1][0] in ('c', 'm'):
                    pls.append(rv[1][1])
                for pl in pls:
                    for e in pl.proj:
                        if e[0] == 'f' and e[1] == lit.id and e[2] == sidx:
                            return True
        return False
    parser_bodies = [b for b in prog.bodies.values() if b.crate == 'samlang_parser']
    printer_bodies = [b for b in prog.bodies.values() if b.crate == 'samlang_printer']
    ptr = transforms_on_path(parser_bodies, builds_string)
    qtr = transforms_on_path(printer_bodies, reads_string)
    res.analysed['parser_transforms'] = [f'{b.name}:{n}{p}' for b, _, n, p in ptr]
    res.analysed['printer_transforms'] = [f'{b.name}:{n}{p}' for b, _, n, p in qtr]
    n_sites = sum(1 for b in parser_bodies for bl in b.blocks if not bl.cleanup and builds_string(b, bl))
    res.floor('Literal::String constructions in the parser', n_sites, 1)
    n_reads = sum(1 for b in printer_bodies for bl in b.blocks if not bl.cleanup and reads_string(b, bl))
    res.floor('Literal::String reads in the printer', n_reads, 1)
    for b, line, name, pat in ptr:
        key = f'unescape:{b.name}:{name}'
        # an inverse must exist on the printer side: a replace whose (from, to) patterns are swapped
        inv = [q for q in qtr if q[2] == name and list(reversed(q[3])) == pat]
        if inv:
            res.ok(key, b.loc(line), f'inverse {name}{inv[0][3]} on the printer path ({inv[0][0].name})')
        else:
            res.violation(key, b.loc(line), f'the parser applies {name}{pat} to the text of a string literal ({b.name}) but the '
                          f'printer emits Literal::String content without the inverse transformation: a literal containing an '
                          f'escaped quote is printed with a bare quote and no longer parses')
    if not ptr and not qtr:
        res.ok('no-transform', '-', 'neither side transforms string-literal text')
    for b, line, name, pat in qtr:
        if not any(p[2] == name and list(reversed(p[3])) == pat for p in ptr):
            res.violation(f'escape:{b.name}:{name}', b.loc(line), f'the printer applies {name}{pat} to string-literal text but the '
                          f'parser has no inverse: formatting changes the literal')
    return [res]


def def_sites_of(b, local):
    from ..cfg import def_sites
    return [d for d in def_sites(b).get(local, []) if not b.blocks[d[0]].cleanup]


def run_id_comment_pair(prog, tier, repo):
    """ID-COMMENT-PAIR (C09): where the printer prints the name of an identifier without its comments, the parser
    must provably never attach comments to that identifier slot."""
    res = RuleResult('ID-COMMENT-PAIR', 'C09: an identifier whose comments the printer does not print never carries comments')
    ID = _adt(prog, 'samlang_ast::source::Id')
    if ID is None:
        res.cannot_decide('source::Id')
        return [res]
    fidx = {f.name: i for i, f in enumerate(ID.variants[0].fields)}
    if 'name' not in fidx or 'associated_comments' not in fidx:
        res.cannot_decide('Id.name / Id.associated_comments')
        return [res]
    from ..core import places_read
    printer = [b for b in prog.bodies.values() if b.crate == 'samlang_printer' and '::source_printer::' in b.name]
    # per function: Id-typed parent slots whose name is read / whose comments are read
    unprinted = {}   # parent slot (adt, variant, field) -> printer function
    n_pairs = 0
    for b in printer:
        name_reads, comment_reads = {}, set()
        for pl, bi, line in places_read(b):
            fs = [e for e in pl.proj if e[0] == 'f']
            for j, e in enumerate(fs):
                if e[1] == ID.id and j > 0:
                    parent = (fs[j - 1][1], fs[j - 1][2], fs[j - 1][3])
                    if e[4] == 'name':
                        name_reads.setdefault(parent, line)
                    elif e[4] == 'associated_comments':
                        comment_reads.add(parent)
        # names bound through a local reference: `_x = &(.. as LocalId).1` then `(*_x).name`
        for pl, bi, line in places_read(b):
            fs = [e for e in pl.proj if e[0] == 'f']
            if fs and fs[0][1] == ID.id and len(fs) == 1:
                from ..cfg import def_sites
                r, p = root_local(b, pl.local)
                paths = [p]
                if not [e for e in p if e[0] == 'f']:
                    # or-pattern bindings: several `_x = &(.. as V).k` definitions of the same local
                    for dbb, si, rv in def_sites(b).get(r, []):
                        if si != 'term' and rv[0] == 'ref':
                            paths.append(tuple(e for e in rv[2].proj if e[0] in ('f', 't', 'v')))
                for pp in paths:
                    pfs = [e for e in pp if e[0] == 'f']
                    if pfs:
                        parent = (pfs[-1][1], pfs[-1][2], pfs[-1][3])
                        if fs[0][4] == 'name':
                            name_reads.setdefault(parent, line)
                        elif fs[0][4] == 'associated_comments':
                            comment_reads.add(parent)
        for parent, line in name_reads.items():
            n_pairs += 1
            if parent not in comment_reads:
                unprinted.setdefault(parent, (b, line))
        # identifiers reached without a parent slot (closure / iterator items): the same local must also give its comments
        loc_name, loc_comm = {}, set()
        for pl, bi, line in places_read(b):
            fs = [e for e in pl.proj if e[0] == 'f']
            if len(fs) == 1 and fs[0][1] == ID.id:
                r, p = root_local(b, pl.local)
                if not [e for e in p if e[0] == 'f'] and len(def_sites_of(b, r)) <= 1:
                    if fs[0][4] == 'name':
                        loc_name.setdefault(r, line)
                    elif fs[0][4] == 'associated_comments':
                        loc_comm.add(r)
        # only names that are turned into output count: the value must reach a Document-producing printer function
        def printed(r):
            for bl in b.blocks:
                t = bl.term
                if t[0] == 'call' and (callee(t)[1] or '').startswith('samlang_printer::'):
                    for o in t[3]:
                        if o[0] in ('c', 'm'):
                            rr, pp = operand_root(b, o)
                            if rr == r and [e for e in pp if e[0] == 'f' and e[1] == ID.id and e[4] == 'name']:
                                return True
            return False
        loc_name = {r: l for r, l in loc_name.items() if printed(r)}
        for r, line in loc_name.items():
            n_pairs += 1
            key = f'id-comments-item:{b.name}'
            # whole-Id copies (`*id`, passing the Id on) hand the comments along with the name
            if r in loc_comm:
                res.ok(key, b.loc(line), 'name and comments of the identifier are both read')
            else:
                res.violation(key, b.loc(line), f'{b.name} prints the name of an identifier taken from a list (or closure argument) '
                              f'without ever reading its comments: comments attached to such identifiers are lost by formatting')
    res.floor('identifier print sites', n_pairs, 5)
    parser = [b for b in prog.bodies.values() if b.crate == 'samlang_parser']
    for parent, (pb, pline) in sorted(unprinted.items()):
        adt = prog.adts.get(parent[0])
        if adt is None:
            continue
        slot_name = f'{adt.name}::{adt.variants[parent[1]].name}.{adt.variants[parent[1]].fields[parent[2]].name}'
        # is this slot's comment reference read by *any* printer function? then it is printed elsewhere
        n_prod = 0
        for b in parser:
            for bi, bl in enumerate(b.blocks):
                if bl.cleanup:
                    continue
                for st in bl.stmts:
                    if not (st[0] == 'a' and st[2][0] == 'agg' and st[2][1][0] == 'adt' and st[2][1][1] == parent[0]
                            and st[2][1][2] == parent[1]):
                        continue
                    n_prod += 1
                    idop = st[2][2][parent[2]]
                    key = f'id-comments:{b.name}:{slot_name}'
                    empty = False
                    if idop[0] in ('c', 'm'):
                        r, p = operand_root(b, idop)
                        sd = single_def(b, r) if not p else None
                        if sd and sd[1] != 'term' and sd[2][0] == 'agg' and sd[2][1][0] == 'adt' and sd[2][1][1] == ID.id:
                            c = sd[2][2][fidx['associated_comments']]
                            if c[0] == 'k' and 'NO_COMMENT_REFERENCE' in c[1].v:
                                empty = True
                    if empty:
                        res.ok(key, b.loc(st[3]), 'identifier built with the constant empty comment reference')
                    else:
                        res.violation(key, b.loc(st[3]), f'{b.name} builds {slot_name} from an identifier that may carry comments '
                                      f'(not the constant NO_COMMENT_REFERENCE), but {pb.name} prints only its name: comments '
                                      f'attached to that identifier are lost by formatting')
        res.analysed.setdefault('unprinted_slots', []).append(f'{slot_name} ({n_prod} parser constructions)')
    return [res]


def run_paren_assoc(prog, tier, repo):
    """PAREN-ASSOC (C08): the parser builds binary expressions left-associatively, so a right operand of the *same*
    precedence level keeps its parentheses: wherever the printer decides about parentheses for the right operand of a
    Binary node, it does so with `equal level => parenthesise`."""
    res = RuleResult('PAREN-ASSOC', 'C08: formatting never regroups a chain of non-associative operators - an equal-precedence '
                     'right operand of a binary expression is parenthesised')
    binary = _adt(prog, SRC_BINARY)
    if binary is None:
        res.cannot_decide('expr::Binary')
        return [res]
    # the parenthesis decider: printer function (.., &E, &E, bool) that calls E::precedence
    deciders = []
    for b in prog.bodies.values():
        if b.crate != 'samlang_printer' or b.kind == 'closure' or b.nargs < 3:
            continue
        if b.locals[b.nargs].s != 'bool':
            continue
        es = [i for i in range(1, b.nargs + 1) if b.locals[i].k == 'ref' and b.locals[i].args[0].k == 'adt' and b.locals[i].args[0].name == E]
        if len(es) == 2 and any((callee(bl.term)[1] or '').endswith('E::<T>::precedence') for bl in b.blocks if bl.term[0] == 'call'):
            deciders.append((b, es))
    if len(deciders) != 1:
        res.cannot_decide(f'the parenthesis decider of the printer (found {len(deciders)})')
        return [res]
    dec, es = deciders[0]
    sub_idx = es[1] - 1
    flag_idx = dec.nargs - 1
    n = 0
    for b in prog.bodies.values():
        if b.crate != 'samlang_printer':
            continue
        seen = {}
        for bi, t in call_sites(b, lambda nm: nm == dec.name):
            sub = t[3][sub_idx]
            r, p = operand_root(b, sub)
            fs = [e for e in p if e[0] == 'f']
            if not fs or fs[-1][1] != binary.id:
                continue
            side = fs[-1][4]
            n += 1
            base = f'paren:{b.name}:{side}'
            seen[base] = seen.get(base, 0) + 1
            key = f'{base}#{seen[base]}'
            flag = t[3][flag_idx]
            if side == 'e2':
                if flag[0] == 'k' and flag[1].i == 1:
                    res.ok(key, b.loc(t[7]), 'right operand: parenthesised at equal precedence')
                else:
                    res.violation(key, b.loc(t[7]), f'{b.name} decides about parentheses for the right operand of a binary expression '
                                  f'without parenthesising at equal precedence: `a - b - (c - d)` is printed as `a - b - c - d`, '
                                  f'which the left-associative parser groups as ((a - b) - c) - d')
            else:
                res.ok(key, b.loc(t[7]), 'left operand: equal precedence needs no parentheses (left associativity)')
    res.floor('parenthesis decisions for operands of Binary', n, 4)
    return [res]
