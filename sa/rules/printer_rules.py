"""C08 rules: PREC-ISO and LITERAL-PARITY (DESIGN.md §3.9)."""
from ..core import RuleResult
from ..cfg import cfg_of, single_def
from ..dataflow import operand_root, root_local, call_sites
from ..facts import callee
from ..tables import enum_switches, arm_regions
from ..callgraph import body_refs, family, iter_operands_rvalue

SRC_BINOP = 'samlang_ast::source::expr::BinaryOperator'
SRC_BINARY = 'samlang_ast::source::expr::Binary'
E = 'samlang_ast::source::expr::E'


def _adt(prog, name):
    r = [a for a in prog.adts.values() if a.name == name]
    return r[0] if len(r) == 1 else None


def _returns_E(b):
    t = b.locals[0]
    return t.k == 'adt' and t.name == E


def parser_levels(prog, res):
    binop, binary = _adt(prog, SRC_BINOP), _adt(prog, SRC_BINARY)
    if binop is None or binary is None:
        return None
    parser = {b.id: b for b in prog.bodies.values() if b.crate == 'samlang_parser' and b.kind != 'closure'}
    levels = {}
    info_ = {}
    for b in parser.values():
        builds = False
        ops = set()
        for bl in b.blocks:
            if bl.cleanup:
                continue
            for st in bl.stmts:
                if st[0] == 'a' and st[2][0] == 'agg' and st[2][1][0] == 'adt':
                    if st[2][1][1] == binary.id:
                        builds = True
                    elif st[2][1][1] == binop.id:
                        ops.add(st[2][1][2])
        info_[b.id] = (builds, ops)
    # a production may build the node through a shared constructor helper that mentions no operator itself
    # (`binary_expression(parser, comments, operator, e1, e2)`, `parse_binary_rest(parser, e1, operator, parse_operand)`)
    builders = {i for i, (bd, ops) in info_.items() if bd and not ops}
    for i, (bd, ops) in info_.items():
        if not bd and ops and any(r in builders for r in body_refs(parser[i])):
            bd = True
        if bd and ops:
            levels[i] = ops
    # next tighter level: the level function that F's operand parser directly calls
    nxt = {}
    for fid in levels:
        f = parser[fid]
        cands = set()
        for r in body_refs(f):
            g = parser.get(r)
            if g is None or g.id in levels or not _returns_E(g):
                continue
            for r2 in body_refs(g):
                if r2 in levels and r2 != fid:
                    cands.add(r2)
        direct = {r for r in body_refs(f) if r in levels and r != fid}
        cands |= direct
        nxt[fid] = cands
    return parser, levels, nxt, binop


def run_prec_iso(prog, tier, repo):
    res = RuleResult('PREC-ISO', 'C08: formatting never changes grouping - the precedence order the parser implements and the '
                     'precedence table the printer elides parentheses with are order-isomorphic on all binary operators')
    pl = parser_levels(prog, res)
    if pl is None:
        res.cannot_decide('source BinaryOperator / Binary types')
        return [res]
    parser, levels, nxt, binop = pl
    names = [v.name for v in binop.variants]
    # chain
    roots = [f for f in levels if not any(f in n for n in nxt.values())]
    if len(roots) != 1 or any(len(n) > 1 for n in nxt.values()):
        res.cannot_decide('binary-operator productions of the parser do not form a single precedence chain '
                          f'(roots={[parser[r].name for r in roots]}, branching={[parser[f].name for f, n in nxt.items() if len(n) > 1]})')
        return [res]
    rank = {}
    cur = roots[0]
    i = 0
    seen = set()
    while cur is not None and cur not in seen:
        seen.add(cur)
        for op in levels[cur]:
            rank[op] = i
        i += 1
        n = nxt[cur]
        cur = next(iter(n)) if n else None
    if len(seen) != len(levels) or set(rank) != set(range(len(names))):
        res.cannot_decide(f'parser precedence chain does not cover every binary operator (covered {sorted(names[o] for o in rank)})')
        return [res]
    # printer table: fn precedence(&BinaryOperator) -> i32
    prec = None
    pbody = None
    for b in prog.bodies.values():
        if b.crate != 'samlang_ast' or b.locals[0].s != 'i32' or b.nargs != 1:
            continue
        for tb in enum_switches(prog, b, binop.id):
            regions, _ = arm_regions(b, tb)
            table = {}
            for v in range(len(names)):
                vals = set()
                for bi in regions[v]:
                    for st in b.blocks[bi].stmts:
                        if st[0] == 'a' and st[1].local == 0 and st[2][0] == 'use' and st[2][1][0] == 'k' and st[2][1][1].i is not None:
                            vals.add(st[2][1][1].i)
                if len(vals) == 1:
                    table[v] = next(iter(vals))
            if len(table) == len(names):
                prec, pbody = table, b
    if prec is None:
        res.cannot_decide('printer precedence table fn(&BinaryOperator) -> i32')
        return [res]
    sgn = lambda x: (x > 0) - (x < 0)
    for a in range(len(names)):
        for c in range(a + 1, len(names)):
            key = f'prec:{names[a]}~{names[c]}'
            p_rel = sgn(rank[a] - rank[c])          # >0: a binds tighter than c in the parser
            q_rel = sgn(prec[c] - prec[a])          # >0: a binds tighter than c for the printer (smaller = tighter)
            if p_rel == q_rel:
                res.ok(key, pbody.loc(), 'parser and printer agree')
            else:
                rel = {1: 'tighter than', 0: 'level with', -1: 'looser than'}
                res.violation(key, pbody.loc(), f'parser binds {names[a]} {rel[p_rel]} {names[c]} but the printer\'s table says '
                              f'{rel[q_rel]}: a tree nesting the two is printed without the parentheses it needs (or re-grouped) '
                              f'and re-parses to a different tree')
    res.analysed['parser_chain'] = [sorted(names[o] for o in levels[f]) for f in sorted(seen, key=lambda f: min(rank[o] for o in levels[f]))]
    res.analysed['printer_table'] = {names[v]: p for v, p in prec.items()}
    return [res]


def run_literal_parity(prog, tier, repo):
    res = RuleResult('LITERAL-PARITY', 'C08: literal printing inverts lexing - every transformation the parser applies to the '
                     'text of a string literal has its inverse on the printer\'s string-literal path')
    lit = _adt(prog, 'samlang_ast::source::Literal')
    if lit is None:
        res.cannot_decide('source::Literal')
        return [res]
    sidx = [i for i, v in enumerate(lit.variants) if v.name == 'String']
    if not sidx:
        res.cannot_decide('Literal::String')
        return [res]
    sidx = sidx[0]
    TRANSFORMS = ('str::<impl str>::replace', 'str::<impl str>::replacen', 'str::<impl str>::trim_matches',
                  'str::<impl str>::to_lowercase', 'str::<impl str>::to_uppercase')

    def transforms_on_path(bodies, is_site):
        """content-transforming std calls in functions that feed / consume Literal::String payloads"""
        out = []
        for b in bodies:
            sites = []
            for bi, bl in enumerate(b.blocks):
                if bl.cleanup:
                    continue
                if is_site(b, bl):
                    sites.append(bi)
            if not sites:
                continue
            # helpers directly called in this body (same crate) are part of the path
            scope = [b] + [prog.bodies[r] for r in body_refs(b) if r in prog.bodies and prog.bodies[r].crate == b.crate
                           and prog.bodies[r].kind != 'closure' and len(prog.bodies[r].blocks) < 40]
            for s in scope:
                for bi, t in call_sites(s, lambda n: n.endswith(TRANSFORMS)):
                    pat = []
                    for o in t[3][1:]:
                        k_ = None
                        if o[0] == 'k':
                            k_ = o[1]
                        elif o[0] in ('c', 'm'):
                            r, pp = operand_root(s, o)
                            sd = single_def(s, r)
                            if sd and sd[1] != 'term' and sd[2][0] == 'use' and sd[2][1][0] == 'k':
                                k_ = sd[2][1][1]
                        if k_ is None:
                            pat.append('<dynamic>')
                        elif k_.u:
                            pat.append('<named constant>')       # `const QUOTE: &str = ..`: the facts do not evaluate it
                        else:
                            pat.append(k_.v)
                    out.append((s, t[7], (callee(t)[1] or '').split('::')[-1], pat))
        return out

    def builds_string(b, bl):
        return any(st[0] == 'a' and st[2][0] == 'agg' and st[2][1][0] == 'adt' and st[2][1][1] == lit.id and st[2][1][2] == sidx
                   for st in bl.stmts)

    def reads_string(b, bl):
        from ..core import places_read
        for st in bl.stmts:
            if st[0] == 'a':
                pls = [st[1]]
                rv = st[2]
                if rv[0] == 'ref':
                    pls.append(rv[2])
                elif rv[0] == 'use' and rv[1][0] in ('c', 'm'):
                    pls.append(rv[1][1])
                for pl in pls:
                    for e in pl.proj:
                        if e[0] == 'f' and e[1] == lit.id and e[2] == sidx:
                            return True
        return False
    parser_bodies = [b for b in prog.bodies.values() if b.crate == 'samlang_parser']
    printer_bodies = [b for b in prog.bodies.values() if b.crate == 'samlang_printer']
    ptr = transforms_on_path(parser_bodies, builds_string)
    qtr = transforms_on_path(printer_bodies, reads_string)
    res.analysed['parser_transforms'] = [f'{b.name}:{n}{p}' for b, _, n, p in ptr]
    res.analysed['printer_transforms'] = [f'{b.name}:{n}{p}' for b, _, n, p in qtr]
    n_sites = sum(1 for b in parser_bodies for bl in b.blocks if not bl.cleanup and builds_string(b, bl))
    res.floor('Literal::String constructions in the parser', n_sites, 1)
    n_reads = sum(1 for b in printer_bodies for bl in b.blocks if not bl.cleanup and reads_string(b, bl))
    res.floor('Literal::String reads in the printer', n_reads, 1)
    for b, line, name, pat in ptr:
        key = f'unescape:{b.name}:{name}'
        # an inverse must exist on the printer side: a replace whose (from, to) patterns are swapped
        inv = [q for q in qtr if q[2] == name and (list(reversed(q[3])) == pat or
                                                   (len(q[3]) == len(pat) and '<named constant>' in q[3] + pat))]
        if inv:
            res.ok(key, b.loc(line), f'inverse {name}{inv[0][3]} on the printer path ({inv[0][0].name})')
        else:
            res.violation(key, b.loc(line), f'the parser applies {name}{pat} to the text of a string literal ({b.name}) but the '
                          f'printer emits Literal::String content without the inverse transformation: a literal containing an '
                          f'escaped quote is printed with a bare quote and no longer parses')
    if not ptr and not qtr:
        res.ok('no-transform', '-', 'neither side transforms string-literal text')
    for b, line, name, pat in qtr:
        if not any(p[2] == name and (list(reversed(p[3])) == pat or (len(p[3]) == len(pat) and '<named constant>' in p[3] + pat))
                   for p in ptr):
            res.violation(f'escape:{b.name}:{name}', b.loc(line), f'the printer applies {name}{pat} to string-literal text but the '
                          f'parser has no inverse: formatting changes the literal')
    return [res]


def def_sites_of(b, local):
    from ..cfg import def_sites
    return [d for d in def_sites(b).get(local, []) if not b.blocks[d[0]].cleanup]


def run_id_comment_pair(prog, tier, repo):
    """ID-COMMENT-PAIR (C09): where the printer prints the name of an identifier without its comments, the parser
    must provably never attach comments to that identifier slot."""
    res = RuleResult('ID-COMMENT-PAIR', 'C09: an identifier whose comments the printer does not print never carries comments')
    ID = _adt(prog, 'samlang_ast::source::Id')
    if ID is None:
        res.cannot_decide('source::Id')
        return [res]
    fidx = {f.name: i for i, f in enumerate(ID.variants[0].fields)}
    if 'name' not in fidx or 'associated_comments' not in fidx:
        res.cannot_decide('Id.name / Id.associated_comments')
        return [res]
    from ..core import places_read
    printer = [b for b in prog.bodies.values() if b.crate == 'samlang_printer' and '::source_printer::' in b.name]
    # per function: Id-typed parent slots whose name is read / whose comments are read
    unprinted = {}   # parent slot (adt, variant, field) -> printer function
    n_pairs = 0
    for b in printer:
        name_reads, comment_reads = {}, set()
        for pl, bi, line in places_read(b):
            fs = [e for e in pl.proj if e[0] == 'f']
            for j, e in enumerate(fs):
                if e[1] == ID.id and j > 0:
                    parent = (fs[j - 1][1], fs[j - 1][2], fs[j - 1][3])
                    if e[4] == 'name':
                        name_reads.setdefault(parent, line)
                    elif e[4] == 'associated_comments':
                        comment_reads.add(parent)
        # names bound through a local reference: `_x = &(.. as LocalId).1` then `(*_x).name`
        for pl, bi, line in places_read(b):
            fs = [e for e in pl.proj if e[0] == 'f']
            if fs and fs[0][1] == ID.id and len(fs) == 1:
                from ..cfg import def_sites
                r, p = root_local(b, pl.local)
                paths = [p]
                if not [e for e in p if e[0] == 'f']:
                    # or-pattern bindings: several `_x = &(.. as V).k` definitions of the same local
                    for dbb, si, rv in def_sites(b).get(r, []):
                        if si != 'term' and rv[0] == 'ref':
                            paths.append(tuple(e for e in rv[2].proj if e[0] in ('f', 't', 'v')))
                for pp in paths:
                    pfs = [e for e in pp if e[0] == 'f']
                    if pfs:
                        parent = (pfs[-1][1], pfs[-1][2], pfs[-1][3])
                        if fs[0][4] == 'name':
                            name_reads.setdefault(parent, line)
                        elif fs[0][4] == 'associated_comments':
                            comment_reads.add(parent)
        for parent, line in name_reads.items():
            n_pairs += 1
            if parent not in comment_reads:
                unprinted.setdefault(parent, (b, line))
        # identifiers reached without a parent slot (closure / iterator items): the same local must also give its comments
        loc_name, loc_comm = {}, set()
        for pl, bi, line in places_read(b):
            fs = [e for e in pl.proj if e[0] == 'f']
            if len(fs) == 1 and fs[0][1] == ID.id:
                r, p = root_local(b, pl.local)
                if not [e for e in p if e[0] == 'f'] and len(def_sites_of(b, r)) <= 1:
                    if fs[0][4] == 'name':
                        loc_name.setdefault(r, line)
                    elif fs[0][4] == 'associated_comments':
                        loc_comm.add(r)
        # only names that are turned into output count: the value must reach a Document-producing printer function
        def printed(r):
            for bl in b.blocks:
                t = bl.term
                if t[0] == 'call' and (callee(t)[1] or '').startswith('samlang_printer::'):
                    for o in t[3]:
                        if o[0] in ('c', 'm'):
                            rr, pp = operand_root(b, o)
                            if rr == r and [e for e in pp if e[0] == 'f' and e[1] == ID.id and e[4] == 'name']:
                                return True
            return False
        loc_name = {r: l for r, l in loc_name.items() if printed(r)}
        for r, line in loc_name.items():
            n_pairs += 1
            key = f'id-comments-item:{b.name}'
            # whole-Id copies (`*id`, passing the Id on) hand the comments along with the name
            if r in loc_comm:
                res.ok(key, b.loc(line), 'name and comments of the identifier are both read')
            else:
                res.violation(key, b.loc(line), f'{b.name} prints the name of an identifier taken from a list (or closure argument) '
                              f'without ever reading its comments: comments attached to such identifiers are lost by formatting')
    res.floor('identifier print sites', n_pairs, 5)
    parser = [b for b in prog.bodies.values() if b.crate == 'samlang_parser']
    for parent, (pb, pline) in sorted(unprinted.items()):
        adt = prog.adts.get(parent[0])
        if adt is None:
            continue
        slot_name = f'{adt.name}::{adt.variants[parent[1]].name}.{adt.variants[parent[1]].fields[parent[2]].name}'
        # is this slot's comment reference read by *any* printer function? then it is printed elsewhere
        n_prod = 0
        for b in parser:
            for bi, bl in enumerate(b.blocks):
                if bl.cleanup:
                    continue
                for st in bl.stmts:
                    if not (st[0] == 'a' and st[2][0] == 'agg' and st[2][1][0] == 'adt' and st[2][1][1] == parent[0]
                            and st[2][1][2] == parent[1]):
                        continue
                    n_prod += 1
                    idop = st[2][2][parent[2]]
                    key = f'id-comments:{b.name}:{slot_name}'
                    empty = False
                    if idop[0] in ('c', 'm'):
                        r, p = operand_root(b, idop)
                        sd = single_def(b, r) if not p else None
                        if sd and sd[1] != 'term' and sd[2][0] == 'agg' and sd[2][1][0] == 'adt' and sd[2][1][1] == ID.id:
                            c = sd[2][2][fidx['associated_comments']]
                            if c[0] == 'k' and 'NO_COMMENT_REFERENCE' in c[1].v:
                                empty = True
                    if empty:
                        res.ok(key, b.loc(st[3]), 'identifier built with the constant empty comment reference')
                    else:
                        res.violation(key, b.loc(st[3]), f'{b.name} builds {slot_name} from an identifier that may carry comments '
                                      f'(not the constant NO_COMMENT_REFERENCE), but {pb.name} prints only its name: comments '
                                      f'attached to that identifier are lost by formatting')
        res.analysed.setdefault('unprinted_slots', []).append(f'{slot_name} ({n_prod} parser constructions)')
    return [res]


# ---------------------------------------------------------------------------------------------------------------------
# The parenthesis decider of the printer, found by role: a printer function with two `&E` parameters (parent, child) and a
# trailing *mode* parameter - a bool or a field-less enum - that compares `E::precedence()` of the two, itself or in a small
# predicate it calls. `eq_values` are the mode values under which an EQUAL precedence yields parentheses (the branch that
# compares with `>=`).

def _mode_type_ok(prog, t):
    if t.s == 'bool':
        return True
    a = prog.adts.get(t.id) if t.k == 'adt' else None
    return a is not None and a.kind == 'enum' and len(a.variants) >= 2 and all(not v.fields for v in a.variants)


def _e_params(b):
    return [i for i in range(1, b.nargs + 1) if b.locals[i].k == 'ref' and b.locals[i].args and b.locals[i].args[0].k == 'adt'
            and b.locals[i].args[0].name == E]


def _calls_precedence(b):
    return any((callee(bl.term)[1] or '').endswith('E::<T>::precedence') for bl in b.blocks if bl.term[0] == 'call' and not bl.cleanup)


def _eq_values_in(b, mode_param):
    """mode values whose branch compares with Ge"""
    cfg = cfg_of(b)
    out = set()
    for bi, bl in enumerate(b.blocks):
        t = bl.term
        if bl.cleanup or t[0] != 'switch' or t[1][0] not in ('c', 'm'):
            continue
        l = t[1][1].local
        is_mode = (l == mode_param and not t[1][1].proj)
        if not is_mode:
            sd = single_def(b, l)
            if sd and sd[1] != 'term' and sd[2][0] == 'disc' and root_local(b, sd[2][1].local)[0] == mode_param:
                is_mode = True
            elif sd and sd[1] != 'term' and sd[2][0] == 'use' and sd[2][1][0] in ('c', 'm') and root_local(b, sd[2][1][1].local)[0] == mode_param:
                is_mode = True
        if not is_mode:
            continue
        targets = [(v, tg) for v, tg in t[2]] + [(None, t[3])]
        reach = {tg: cfg.reachable(tg) for _v, tg in targets}
        for v, tg in targets:
            others = set()
            for _v2, tg2 in targets:
                if tg2 != tg:
                    others |= reach[tg2]
            excl = reach[tg] - others
            has_ge = any(st[0] == 'a' and st[2][0] == 'bin' and st[2][1] == 'Ge' for x in excl for st in b.blocks[x].stmts)
            if has_ge:
                if v is not None:
                    out.add(v)
                else:
                    # the otherwise edge: every value not listed
                    listed = {vv for vv, _ in t[2]}
                    out |= ({0, 1} - listed) if b.locals[mode_param].s == 'bool' else set(range(8)) - listed
    return out


def find_decider(prog):
    """(decider body, [parent idx, child idx], mode param idx, eq_values) or None"""
    found = []
    for b in prog.bodies.values():
        if b.crate != 'samlang_printer' or b.kind == 'closure' or b.nargs < 3 or not _mode_type_ok(prog, b.locals[b.nargs]):
            continue
        if b.locals[0].s == 'bool':
            continue        # a predicate, not the function that prints
        es = _e_params(b)
        if len(es) != 2:
            continue
        if _calls_precedence(b):
            found.append((b, es, b.nargs, _eq_values_in(b, b.nargs)))
            continue
        # the comparison may live in a small predicate that receives both expressions and the mode
        for bl in b.blocks:
            t = bl.term
            if bl.cleanup or t[0] != 'call':
                continue
            h = prog.bodies.get(callee(t)[0])
            if h is None or h.crate != 'samlang_printer' or h.kind == 'closure' or len(h.blocks) > 40 or not _calls_precedence(h):
                continue
            if len(_e_params(h)) != 2:
                continue
            mode_pos = [k + 1 for k, o in enumerate(t[3]) if o[0] in ('c', 'm') and root_local(b, o[1].local)[0] == b.nargs]
            if len(mode_pos) == 1:
                found.append((b, es, b.nargs, _eq_values_in(h, mode_pos[0])))
                break
    return found[0] if len(found) == 1 else (None if not found else found)


def mode_value(prog, b, op):
    """the constant value of a mode argument: bool constant, or the variant index of a field-less enum value"""
    if op[0] == 'k':
        if op[1].i is not None:
            return op[1].i
        a = prog.adts.get(op[1].ty.id) if op[1].ty.k == 'adt' else None
        if a is not None:
            for i, v in enumerate(a.variants):
                if (op[1].v or '').endswith('::' + v.name):
                    return i
        return None
    if op[0] in ('c', 'm') and not op[1].proj:
        sd = single_def(b, op[1].local)
        if sd and sd[1] != 'term':
            rv = sd[2]
            if rv[0] == 'use':
                return mode_value(prog, b, rv[1])
            if rv[0] == 'agg' and rv[1][0] == 'adt' and not rv[2]:
                return rv[1][2]
    return None


def run_paren_assoc(prog, tier, repo):
    """PAREN-ASSOC (C08): the parser builds binary expressions left-associatively, so a right operand of the *same*
    precedence level keeps its parentheses: wherever the printer decides about parentheses for the right operand of a
    Binary node, it does so with `equal level => parenthesise`."""
    res = RuleResult('PAREN-ASSOC', 'C08: formatting never regroups a chain of non-associative operators - an equal-precedence '
                     'right operand of a binary expression is parenthesised')
    binary = _adt(prog, SRC_BINARY)
    if binary is None:
        res.cannot_decide('expr::Binary')
        return [res]
    fd = find_decider(prog)
    if fd is None or isinstance(fd, list) or not fd[3]:
        res.cannot_decide('the parenthesis decider of the printer (a function of parent, child and a mode that compares precedences)')
        return [res]
    dec, es, _mp, eq_values = fd
    sub_idx = es[1] - 1
    flag_idx = dec.nargs - 1
    n = 0
    for b in prog.bodies.values():
        if b.crate != 'samlang_printer':
            continue
        seen = {}
        for bi, t in call_sites(b, lambda nm: nm == dec.name):
            sub = t[3][sub_idx]
            r, p = operand_root(b, sub)
            fs = [e for e in p if e[0] == 'f']
            if not fs or fs[-1][1] != binary.id:
                continue
            side = fs[-1][4]
            n += 1
            base = f'paren:{b.name}:{side}'
            seen[base] = seen.get(base, 0) + 1
            key = f'{base}#{seen[base]}'
            flag = t[3][flag_idx]
            if side == 'e2':
                if mode_value(prog, b, flag) in eq_values:
                    res.ok(key, b.loc(t[7]), 'right operand: parenthesised at equal precedence')
                else:
                    res.violation(key, b.loc(t[7]), f'{b.name} decides about parentheses for the right operand of a binary expression '
                                  f'without parenthesising at equal precedence: `a - b - (c - d)` is printed as `a - b - c - d`, '
                                  f'which the left-associative parser groups as ((a - b) - c) - d')
            else:
                res.ok(key, b.loc(t[7]), 'left operand: equal precedence needs no parentheses (left associativity)')
    res.floor('parenthesis decisions for operands of Binary', n, 4)
    return [res]


# ---------------------------------------------------------------------------------------------------------------------
# PAREN-SINK (C08): positions whose printed form is not delimited by brackets or keywords - the operand of a unary operator,
# both operands of a binary operator, the body of a lambda, the base of a `.member` / call chain - keep the program's
# grouping only if the printer compares precedences there. The printer has exactly one function doing that (the decider also
# used by PAREN-ASSOC). Rule: (a) every such child field that reaches an expression printer reaches the decider, never the
# plain printer directly; (b) a printer function whose signature is (parent expression, sub expression) - i.e. "print sub in
# the context of parent" - never hands `sub` to the plain printer itself.

RESTRICTED = [('Unary', 'argument'), ('Binary', 'e1'), ('Binary', 'e2'), ('Lambda', 'body')]
# operators for which (a op b) op c == a op (b op c) for every value: wrapping i32 * and +, string concatenation, and the
# short-circuit boolean connectives. Everything else (-, /, %, comparisons) is not associative.
ASSOC = {'MUL', 'PLUS', 'CONCAT', 'AND', 'OR'}


def _binary_plain_guard(prog, b, bi, side, parent_local):
    """Why may Binary.<side> be handed to the plain printer in block bi? 'left-assoc', 'assoc-chain' or None."""
    from ..cfg import cfg_of, single_def
    cfg = cfg_of(b)

    def path_of(op):
        r, p = operand_root(b, op)
        return r, tuple(e[4] for e in p if e[0] == 'f')

    def prec_arg(local):
        sd = single_def(b, local)
        if sd and sd[1] == 'term' and (callee(sd[2])[1] or '').endswith('::precedence') and sd[2][3]:
            return path_of(sd[2][3][0])
        return None
    for sb in sorted(cfg.reach):
        t = b.blocks[sb].term
        if t[0] != 'switch' or t[1][0] not in ('c', 'm') or t[1][1].proj:
            continue
        sd = single_def(b, t[1][1].local)
        if not sd:
            continue
        true_tg = t[3]
        if not cfg.edges_dominate([(sb, true_tg)], bi) or any(tg == true_tg for _, tg in t[2]):
            continue
        if side == 'e1' and sd[1] != 'term' and sd[2][0] == 'bin' and sd[2][1] == 'Eq':
            x, y = sd[2][2], sd[2][3]
            if x[0] in ('c', 'm') and y[0] in ('c', 'm'):
                px, py = prec_arg(x[1].local), prec_arg(y[1].local)
                if px and py:
                    for u, w in ((px, py), (py, px)):
                        if u[0] == parent_local and u[1][-1:] == ('e1',) and w[0] == parent_local and w[1] == ():
                            return 'left-assoc'
        if side == 'e2' and sd[1] == 'term' and (callee(sd[2])[1] or '').endswith('PartialEq>::eq') and len(sd[2][3]) == 2:
            pa, pb = path_of(sd[2][3][0]), path_of(sd[2][3][1])
            same_op = False
            for u, w in ((pa, pb), (pb, pa)):
                if u[1][-1:] == ('operator',) and w[1][-1:] == ('operator',) and w[0] == parent_local and 'e2' not in w[1]:
                    ur = u
                    # the other side must be the operator of the right operand
                    if 'e2' in u[1] or _rooted_in_e2(b, sd[2][3][0 if u is pa else 1], parent_local):
                        same_op = True
            if not same_op:
                continue
            # and the parent's operator is restricted to the associative ones on every path to bi
            from ..tables import enum_switches
            binop = [a for a in prog.adts.values() if a.name == 'samlang_ast::source::expr::BinaryOperator']
            if len(binop) != 1:
                return None
            for tb in enum_switches(prog, b, binop[0].id):
                rr, pp = root_local(b, tb.place.local)
                names = tuple(e[4] for e in tuple(pp) + tuple(tb.place.proj) if e[0] == 'f')
                if rr != parent_local or 'e2' in names or names[-1:] != ('operator',):
                    continue
                if not cfg.nodes_dominate([tb.bb], bi):
                    continue
                allowed = {v for v in range(len(binop[0].variants))
                           if tb.target(v) is not None and (tb.target(v) == bi or cfg.can_reach(tb.target(v), bi))}
                if allowed and all(binop[0].variants[v].name in ASSOC for v in allowed):
                    return 'assoc-chain'
    return None


def _rooted_in_e2(b, op, parent_local):
    """is the operand a field of the Binary payload obtained by matching the parent's e2 (through Box::as_ref)?"""
    from ..cfg import single_def
    r, p = operand_root(b, op)
    seen = 0
    while r is not None and seen < 6:
        seen += 1
        sd = single_def(b, r)
        if sd and sd[1] == 'term' and (callee(sd[2])[1] or '').split('::')[-1] in ('as_ref', 'deref', 'borrow') and sd[2][3]:
            r2, p2 = operand_root(b, sd[2][3][0])
            if any(e[0] == 'f' and e[4] == 'e2' for e in p2) and r2 == parent_local:
                return True
            r = r2
        else:
            break
    return False


def _chain_spine_clause(prog, res, b, bi, t):
    """The associative shortcut prints the right operand bare. That is only harmless for a chain of *one* operator: if the right
    operand itself starts with another operator of the same level (`a * ((x / y) * c)`), the bare print `a * x / y * c` re-parses
    as `((a * x) / y) * c` - a different value. The shortcut must therefore sit behind a test of the operand's left spine: a bool
    function of the printer that receives the right operand's Binary node, reads its `e1` and `operator`, and recurses or loops."""
    from .delegate import origin
    from ..core import field_reads
    from ..callgraph import body_refs
    cfg = cfg_of(b)
    key = f'chain-spine:{b.name}'
    ok_edges = []
    for bj, bl in enumerate(b.blocks):
        t2 = bl.term
        if bl.cleanup or t2[0] != 'call' or t2[4] is None or t2[5] is None:
            continue
        cb = prog.bodies.get(callee(t2)[0])
        if cb is None or cb.crate != 'samlang_printer' or cb.locals[0].s != 'bool':
            continue
        if not any(o[0] in ('c', 'm') and any(e[0] == 'f' and e[4] == 'e2' for e in origin(b, o[1].local)[1]) for o in t2[3]):
            continue
        names = {k[2] if isinstance(k, tuple) and len(k) > 2 else None for k in field_reads(cb)}
        fr = set()
        for pl_key in field_reads(cb):
            fr.add(pl_key)
        reads = set()
        for bl3 in cb.blocks:
            for st in bl3.stmts:
                if st[0] == 'a':
                    pls = []
                    rv = st[2]
                    if rv[0] == 'ref':
                        pls.append(rv[2])
                    elif rv[0] in ('disc', 'copyderef'):
                        pls.append(rv[1])
                    for o in iter_operands_rvalue(rv):
                        if o[0] in ('c', 'm'):
                            pls.append(o[1])
                    for pl in pls:
                        for e in pl.proj:
                            if e[0] == 'f':
                                reads.add(e[4])
        walks = cb.id in body_refs(cb) or bool(cfg_of(cb).back_edges())
        if not ({'e1', 'operator'} <= reads and walks):
            continue
        for bk, bl4 in enumerate(b.blocks):
            t4 = bl4.term
            if not bl4.cleanup and t4[0] == 'switch' and t4[1][0] in ('c', 'm') and root_local(b, t4[1][1].local)[0] == t2[4].local:
                ok_edges += [(bk, t4[3])] + [(bk, tg) for v, tg in t4[2] if v != 0]
    if ok_edges and cfg.edges_dominate(ok_edges, bi):
        res.ok(key, b.loc(t[7]), 'the bare print of the right operand is behind a test that walks the operand\'s left spine')
    else:
        res.violation(key, b.loc(t[7]), f'{b.name} prints the right operand of an associative operator without parentheses as soon as '
                      f'the operand has the same operator, without looking at what the operand starts with: `a * ((x / y) * c)` is '
                      f'printed as `a * x / y * c`, which re-parses as `((a * x) / y) * c` - for integers a different value')


def run_paren_sink(prog, tier, repo):
    res = RuleResult('PAREN-SINK', 'C08: every sub-expression printed in an undelimited position (unary operand, binary operands, '
                     'lambda body, base of a member/call chain) goes through the precedence decider, never straight to the plain '
                     'expression printer')
    fd = find_decider(prog)
    if fd is None or isinstance(fd, list):
        res.cannot_decide('the parenthesis decider of the printer (a function of parent, child and a mode that compares precedences)')
        return [res]
    dec, es = fd[0], fd[1]
    sub_idx = es[1] - 1
    # plain expression printers: printer functions with exactly one &E parameter returning what the decider returns, that the
    # decider itself calls
    plain = set()
    for bl in dec.blocks:
        t = bl.term
        if t[0] == 'call' and not bl.cleanup:
            cid, nm = callee(t)
            cb = prog.bodies.get(cid) if cid else None
            if cb is not None and cb.crate == 'samlang_printer':
                pe = [i for i in range(1, cb.nargs + 1) if cb.locals[i].k == 'ref' and cb.locals[i].args[0].k == 'adt' and cb.locals[i].args[0].name == E]
                if len(pe) == 1:
                    plain.add(cid)
                    # and the printers it delegates to with the same single-expression signature
                    for bl2 in cb.blocks:
                        t2 = bl2.term
                        if t2[0] == 'call' and not bl2.cleanup:
                            c2 = prog.bodies.get(callee(t2)[0]) if callee(t2)[0] else None
                            if c2 is not None and c2.crate == 'samlang_printer' and c2.locals[0].s == cb.locals[0].s:
                                pe2 = [i for i in range(1, c2.nargs + 1) if c2.locals[i].k == 'ref' and c2.locals[i].args[0].k == 'adt' and c2.locals[i].args[0].name == E]
                                if len(pe2) == 1 and c2.nargs == cb.nargs:
                                    plain.add(c2.id)
    if not plain:
        res.cannot_decide('the plain expression printer called by the decider')
        return [res]
    # the parenthesiser: the function the decider applies to the plain printer's result in its add-parentheses branch
    wrappers = set()
    for bl in dec.blocks:
        t = bl.term
        if t[0] == 'call' and not bl.cleanup and callee(t)[0] in plain and t[4] is not None:
            for bl2 in dec.blocks:
                t2 = bl2.term
                if t2[0] == 'call' and not bl2.cleanup and callee(t2)[0] and callee(t2)[0] not in plain and any(
                        o[0] in ('c', 'm') and operand_root(dec, o)[0] == t[4].local for o in t2[3]):
                    wrappers.add(callee(t2)[0])

    def always_wrapped(b, t):
        # the plain printer's result is consumed by a call of the parenthesiser and by nothing else
        if not wrappers or t[4] is None or t[4].proj:
            return False
        dl, uses, wrapped = t[4].local, 0, 0
        for bl2 in b.blocks:
            if bl2.cleanup:
                continue
            for st in bl2.stmts:
                if st[0] == 'a':
                    for o in iter_operands_rvalue(st[2]):
                        if o[0] in ('c', 'm') and o[1].local == dl:
                            uses += 1
                    if st[2][0] in ('ref',) and st[2][2].local == dl:
                        uses += 1
            t2 = bl2.term
            if t2[0] == 'call':
                for o in t2[3]:
                    if o[0] in ('c', 'm') and o[1].local == dl:
                        uses += 1
                        if callee(t2)[0] in wrappers:
                            wrapped += 1
        return uses == wrapped == 1
    # a local closure that only forwards its argument to the decider / the plain printer (`let guarded = |e| decide(.., e, true)`)
    # is that function under another name
    forwarders = {}
    for cb in prog.bodies.values():
        if cb.crate != 'samlang_printer' or cb.kind != 'closure' or cb.nargs != 2:
            continue
        kinds = set()
        for cbl in cb.blocks:
            ct = cbl.term
            if cbl.cleanup or ct[0] != 'call':
                continue
            ccid = callee(ct)[0]
            if ccid == dec.id and len(ct[3]) > sub_idx and operand_root(cb, ct[3][sub_idx])[0] == 2:
                kinds.add('dec')
            elif ccid in plain and any(o[0] in ('c', 'm') and operand_root(cb, o)[0] == 2 for o in ct[3]):
                kinds.add('plain')
        if len(kinds) == 1:
            forwarders[cb.id] = kinds.pop()

    def unforward(b, t):
        """(kind, operand) when the call invokes a forwarding closure: the operand is the element of the argument tuple"""
        cid = callee(t)[0]
        if cid not in forwarders or len(t[3]) < 2 or t[3][1][0] not in ('c', 'm'):
            return None, None
        sdt = single_def(b, t[3][1][1].local)
        if sdt and sdt[1] != 'term' and sdt[2][0] == 'agg' and sdt[2][2]:
            return forwarders[cid], sdt[2][2][0]
        return None, None
    reached = {}
    for b in prog.bodies.values():
        if b.crate != 'samlang_printer' or b.id == dec.id:
            continue
        two_exprs = [i for i in range(1, b.nargs + 1) if b.locals[i].k == 'ref' and b.locals[i].args[0].k == 'adt' and b.locals[i].args[0].name == E]
        for bi, bl in enumerate(b.blocks):
            t = bl.term
            if bl.cleanup or t[0] != 'call':
                continue
            cid, nm = callee(t)
            fk, fop = unforward(b, t)
            if fk == 'dec':
                r, p = operand_root(b, fop)
                fs = [e for e in p if e[0] == 'f']
                if fs:
                    reached.setdefault((prog.adts[fs[-1][1]].name.split('::')[-1], fs[-1][4]), []).append((b, t[7]))
                continue
            if fk == 'plain':
                cid = next(iter(plain))
                t = t[:3] + ((fop,),) + t[4:]
            if cid == dec.id:
                r, p = operand_root(b, t[3][sub_idx])
                fs = [e for e in p if e[0] == 'f']
                if fs:
                    reached.setdefault((prog.adts[fs[-1][1]].name.split('::')[-1], fs[-1][4]), []).append((b, t[7]))
                elif r is not None and 1 <= r <= b.nargs and len(two_exprs) == 2:
                    reached.setdefault(('chain', 'base'), []).append((b, t[7]))
                continue
            if cid not in plain:
                continue
            eargs = [o for o in t[3] if o[0] in ('c', 'm') and b.locals[o[1].local].k == 'ref' and b.locals[o[1].local].args
                     and b.locals[o[1].local].args[0].k == 'adt' and b.locals[o[1].local].args[0].name == E]
            for o in eargs:
                r, p = operand_root(b, o)
                fs = [e for e in p if e[0] == 'f']
                if fs and always_wrapped(b, t):
                    pos = (prog.adts[fs[-1][1]].name.split('::')[-1], fs[-1][4])
                    nth = sum(1 for i in res.instances if i.key.startswith(f'sink:{b.name}:{pos[0]}.{pos[1]}:parenthesised')) + 1
                    res.ok(f'sink:{b.name}:{pos[0]}.{pos[1]}:parenthesised#{nth}', b.loc(t[7]), 'printed plainly, but the result is '
                           'handed straight to the parenthesiser: always delimited')
                    continue
                if fs:
                    pos = (prog.adts[fs[-1][1]].name.split('::')[-1], fs[-1][4])
                    if pos in (('Binary', 'e1'), ('Binary', 'e2')):
                        verdict = _binary_plain_guard(prog, b, bi, pos[1], r)
                        if verdict == 'left-assoc':
                            res.ok(f'sink:{b.name}:Binary.e1:equal-level', b.loc(t[7]), 'left operand printed plainly only where its '
                                   'precedence equals the parent\'s (the parser groups equal levels to the left)')
                            continue
                        if verdict == 'assoc-chain':
                            _chain_spine_clause(prog, res, b, bi, t)
                            res.violation(f'regroup:{b.name}:associative-chain', b.loc(t[7]), f'{b.name} prints the right operand of a '
                                          f'binary expression without parentheses when it is a binary expression with the same '
                                          f'associative operator ({", ".join(sorted(ASSOC))}): `a + (b + c)` is printed as `a + b + c`, '
                                          f'which re-parses as `(a + b) + c` - a different tree with the same value')
                            continue
                    if pos in RESTRICTED:
                        res.violation(f'sink:{b.name}:{pos[0]}.{pos[1]}', b.loc(t[7]), f'{b.name} prints {pos[0]}.{pos[1]} with the plain '
                                      f'expression printer: the child is emitted without comparing its precedence with its parent\'s, so '
                                      f'needed parentheses are dropped and the output re-parses with a different grouping')
                elif len(two_exprs) == 2 and r == two_exprs[1] and b.kind != 'closure':
                    res.violation(f'sink:{b.name}:sub-expression', b.loc(t[7]), f'{b.name} takes (parent, sub-expression) but hands the '
                                  f'sub-expression to the plain expression printer instead of the precedence decider: a chain base such '
                                  f'as `(-x).f()` loses its parentheses and re-parses as `-(x.f())`')
    for pos in RESTRICTED + [('chain', 'base')]:
        key = f'decided:{pos[0]}.{pos[1]}'
        if pos in reached:
            b, line = reached[pos][0]
            res.ok(key, b.loc(line), f'{pos[0]}.{pos[1]} reaches the precedence decider ({len(reached[pos])} site(s))')
        else:
            res.violation(key, dec.loc(), f'no printer function hands {pos[0]}.{pos[1]} to the precedence decider {dec.name} any more: '
                          f'the decision whether this undelimited child needs parentheses is not made by precedence comparison')
    res.analysed['decider'] = dec.name
    res.analysed['plain_printers'] = sorted(prog.bodies[i].name for i in plain)
    return [res]


# ---------------------------------------------------------------------------------------------------------------------
# LINE-COMMENT-BREAK (C09): a `//` comment runs to the end of its line, so whatever the printer emits after it must start
# on a new line *in every layout* - a soft line may be flattened into a space, and the next comment or token then becomes
# part of the comment's text. Rule: every line-comment document is placed into a document sequence immediately followed by
# the constant hard line break (vec!/array literal neighbour, or the next push onto the same vector on every path).

def run_line_comment_break(prog, tier, repo):
    from ..cfg import cfg_of, single_def
    res = RuleResult('LINE-COMMENT-BREAK', 'C09: every line-comment document is immediately followed by a hard line break in the '
                     'sequence it is emitted into (a soft break can be flattened and the following text is swallowed by the comment)')
    n = 0

    def is_hard(b, op):
        if op[0] not in ('c', 'm') or op[1].proj:
            return False
        sd = single_def(b, op[1].local)
        while sd and sd[1] != 'term' and sd[2][0] == 'use' and sd[2][1][0] in ('c', 'm') and not sd[2][1][1].proj:
            sd = single_def(b, sd[2][1][1].local)
        return bool(sd and sd[1] != 'term' and sd[2][0] == 'agg' and sd[2][1][0] == 'adt' and sd[2][1][3] == 'LineHard')
    for b in prog.bodies.values():
        if b.crate != 'samlang_printer' or '::source_printer::' not in b.name + '::':
            continue
        for bi, bl in enumerate(b.blocks):
            t = bl.term
            if bl.cleanup or t[0] != 'call' or not (callee(t)[1] or '').endswith('Document::line_comment') or t[4] is None or t[4].proj:
                continue
            n += 1
            key = f'line-comment:{b.name}#{n}'
            R = t[4].local
            # follow whole-local moves of R
            holders = {R}
            changed = True
            while changed:
                changed = False
                for bl2 in b.blocks:
                    for st in bl2.stmts:
                        if st[0] == 'a' and not st[1].proj and st[2][0] == 'use' and st[2][1][0] in ('c', 'm') \
                                and not st[2][1][1].proj and st[2][1][1].local in holders and st[1].local not in holders:
                            holders.add(st[1].local)
                            changed = True
            ok = False
            why = 'the comment document does not reach a sequence literal or a push'
            cfg = cfg_of(b)
            for bj, bl2 in enumerate(b.blocks):
                if bl2.cleanup:
                    continue
                for st in bl2.stmts:
                    if st[0] == 'a' and st[2][0] == 'agg' and st[2][1][0] == 'array':
                        ops = st[2][2]
                        for k, o in enumerate(ops):
                            if o[0] in ('c', 'm') and not o[1].proj and o[1].local in holders:
                                if k + 1 < len(ops) and is_hard(b, ops[k + 1]):
                                    ok = True
                                else:
                                    why = 'its right neighbour in the sequence literal is not the constant hard line break'
                t2 = bl2.term
                if t2[0] == 'call' and (callee(t2)[1] or '').endswith('::push') and len(t2[3]) == 2 \
                        and t2[3][1][0] in ('c', 'm') and not t2[3][1][1].proj and t2[3][1][1].local in holders:
                    vec = operand_root(b, t2[3][0])[0]
                    # the next push / append / extend on the same vector, along every path, must push the hard break
                    frontier = [t2[5]] if t2[5] is not None else []
                    seen = set()
                    good = bool(frontier)
                    while frontier and good:
                        x = frontier.pop()
                        if x in seen:
                            continue
                        seen.add(x)
                        tx = b.blocks[x].term
                        if tx[0] == 'call' and tx[3] and operand_root(b, tx[3][0])[0] == vec \
                                and (callee(tx)[1] or '').split('::')[-1] in ('push', 'append', 'extend', 'insert', 'extend_from_slice'):
                            if (callee(tx)[1] or '').endswith('::push') and len(tx[3]) == 2 and is_hard(b, tx[3][1]):
                                continue
                            good = False
                            break
                        if tx[0] == 'ret':
                            good = False
                            break
                        frontier.extend(cfg.succ[x])
                    if good:
                        ok = True
                    else:
                        why = 'the next element pushed onto the same vector is not, on every path, the constant hard line break'
            if ok:
                res.ok(key, b.loc(t[7]), 'followed by Document::LineHard in the emitted sequence')
            else:
                res.violation(key, b.loc(t[7]), f'{b.name}: a line-comment document is emitted but {why}: in a layout where the soft break '
                              f'is flattened the following comment or code is printed on the same line and becomes part of the `//` '
                              f'comment')
    res.floor('line-comment documents', n, 1)
    return [res]


# ---------------------------------------------------------------------------------------------------------------------
# ELEMENT-COMMENTS (C09): where the printer walks a sequence of nodes that carry their own comment reference (import
# lines, class members, match arms, if-else chain blocks, imported names), every trip through the loop body - or every run
# of the per-element closure - reads that reference or hands the whole element to another printer function. A read that
# only happens inside a lazily invoked closure (`entry().or_insert_with(|| ..)`) does not count: from the second element
# with the same key on, the comments are never looked at and silently disappear from the output.

SORTERS = ('sorted_by', 'sorted_by_key', 'sort_by', 'sort_by_key', 'sorted_unstable_by', 'sort_unstable_by', 'max_by', 'min_by',
           'cmp', 'partial_cmp', 'dedup_by', 'binary_search_by')


def run_element_comments(prog, tier, repo):
    from ..cfg import cfg_of, single_def
    res = RuleResult('ELEMENT-COMMENTS', 'C09: every iteration over comment-carrying nodes in the printer reads the element\'s comment '
                     'reference (or delegates the whole element) on every path through the iteration')

    def peel(t):
        from ..facts import strip_refs
        t = strip_refs(t)
        while t.k == 'adt' and t.name.split('<')[0] in ('std::boxed::Box', 'std::option::Option') and t.args:
            t = strip_refs(t.args[0])
        return t

    def cfields(t):
        t = peel(t)
        if t.k != 'adt' or t.id not in prog.adts:
            return None
        a = prog.adts[t.id]
        if a.kind != 'struct' or not a.name.startswith('samlang_ast::source'):
            return None
        fs = [(fi, f.name) for fi, f in enumerate(a.variants[0].fields) if f.ty.k == 'adt' and f.ty.name.endswith('CommentReference')]
        return (a, fs) if fs else None
    n = 0
    for b in prog.bodies.values():
        if b.crate != 'samlang_printer' or '::source_printer::' not in b.name + '::' or '::tests' in b.name:
            continue
        cfg = cfg_of(b)
        heads = {h for _, h in cfg.back_edges()}
        roots = []
        if b.kind == 'closure':
            # comparator closures only look at names
            exempt = False
            parents = [pb for pb in prog.bodies.values() if pb.crate == b.crate and any(
                st[0] == 'a' and st[2][0] == 'agg' and st[2][1][0] == 'closure' and st[2][1][1] == b.id
                for bl0 in pb.blocks for st in bl0.stmts)]
            for parent in parents:
                for bl in parent.blocks:
                    t = bl.term
                    if t[0] == 'call' and (callee(t)[1] or '').split('::')[-1] in SORTERS:
                        for o in t[3]:
                            if o[0] in ('c', 'm') and not o[1].proj:
                                sd = single_def(parent, o[1].local)
                                if sd and sd[1] != 'term' and sd[2][0] == 'agg' and sd[2][1][0] == 'closure' and sd[2][1][1] == b.id:
                                    exempt = True
            if not exempt:
                for i in range(2, b.nargs + 1):
                    if cfields(b.locals[i]):
                        roots.append((i, 0, 'per-element closure'))
        for bi, bl in enumerate(b.blocks):
            if bl.cleanup:
                continue
            for st in bl.stmts:
                if st[0] == 'a' and not st[1].proj and st[2][0] == 'use' and st[2][1][0] in ('c', 'm'):
                    pl = st[2][1][1]
                    if pl.proj and pl.proj[0][0] == 'v' and cfields(b.locals[st[1].local]):
                        sd = single_def(b, pl.local)
                        if sd and sd[1] == 'term' and (callee(sd[2])[1] or '').endswith('::next'):
                            roots.append((st[1].local, bi, 'loop'))
        for r, start, kind in roots:
            a, fs = cfields(b.locals[r])
            r0, p0 = root_local(b, r)
            p0 = tuple(p0)
            fidx = [x[0] for x in fs]
            bc = set()
            for bi, bl in enumerate(b.blocks):
                if bl.cleanup:
                    continue
                for st in bl.stmts:
                    if st[0] != 'a':
                        continue
                    rv = st[2]
                    pls = []
                    if rv[0] == 'use' and rv[1][0] in ('c', 'm'):
                        pls.append(rv[1][1])
                    if rv[0] == 'ref':
                        dl = st[1].local
                        deferred = any(s2[0] == 'a' and s2[2][0] == 'agg' and s2[2][1][0] == 'closure'
                                       and any(o[0] in ('c', 'm') and o[1].local == dl for o in s2[2][2])
                                       for b2 in b.blocks for s2 in b2.stmts)
                        if not deferred:
                            pls.append(rv[2])
                    for pl in pls:
                        rr, pp = root_local(b, pl.local)
                        full = tuple(pp) + tuple(e for e in pl.proj if e[0] in ('f', 't', 'v'))
                        if rr == r0 and full[:len(p0)] == p0 and any(e[0] == 'f' and e[1] == a.id and e[3] in fidx for e in full[len(p0):]):
                            bc.add(bi)
                t = bl.term
                if t[0] == 'call' and (callee(t)[1] or '').startswith('samlang_printer'):
                    for o in t[3]:
                        if o[0] in ('c', 'm'):
                            rr, pp = root_local(b, o[1].local)
                            full = tuple(pp) + tuple(e for e in o[1].proj if e[0] in ('f', 't', 'v'))
                            if rr == r0 and full == p0:
                                bc.add(bi)
            n += 1
            ends = set(cfg.exits) | (heads if kind == 'loop' else set())
            reach = cfg.reachable(start, removed_nodes=bc)
            ok = start in bc or not ((reach - {start}) & ends if kind == 'loop' else reach & ends)
            key = f'elements:{b.name}:{a.name.split("::")[-1]}'
            names = ', '.join(x[1] for x in fs)
            if ok:
                res.ok(key, b.loc(), f'{a.name.split("::")[-1]}.{names} read on every path of the {kind}')
            else:
                res.violation(key, b.loc(), f'{b.name}: a {kind} over {a.name.split("::")[-1]} nodes has a path on which the element\'s '
                              f'comment reference (`{names}`) is neither read nor handed to another printer function - reads inside a '
                              f'lazily invoked closure do not count: the comments attached to such an element are dropped from the '
                              f'formatted output')
    res.floor('iterations over comment-carrying nodes', n, 5)
    return [res]


# ---------------------------------------------------------------------------------------------------------------------
# PATTERN-PARENS (C08, C15): in the pattern grammar `( p )` is a one-element tuple pattern, not grouping. A pattern printer
# may therefore put parentheses only around the element list of a tuple / variant payload (the result of the comma-separated
# list builder), never around the document of a whole sub-pattern: that changes the tree (and what the pattern matches).

def run_pattern_parens(prog, tier, repo):
    from ..cfg import single_def
    res = RuleResult('PATTERN-PARENS', 'C08: the pattern printer parenthesises only comma-separated element lists (tuple and variant '
                     'payloads), never a whole sub-pattern - `(p)` is a one-element tuple pattern, not grouping')
    n = 0

    def pattern_fn(b):
        from ..facts import strip_refs
        for i in range(1, b.nargs + 1):
            t = strip_refs(b.locals[i])
            if t.k == 'adt' and ('::pattern::MatchingPattern' in t.name or '::pattern::TuplePattern' in t.name):
                return True
        return False
    for b in prog.bodies.values():
        if b.crate != 'samlang_printer' or '::tests' in b.name:
            continue
        owner = b
        if b.kind == 'closure':
            parents = [pb for pb in prog.bodies.values() if pb.crate == b.crate and pb.kind != 'closure' and b.name.startswith(pb.name + '::')]
            owner = parents[0] if parents else b
        if not pattern_fn(owner):
            continue
        for bi, bl in enumerate(b.blocks):
            t = bl.term
            if bl.cleanup or t[0] != 'call' or not (callee(t)[1] or '').endswith('parenthesis_surrounded_doc') or not t[3]:
                continue
            n += 1
            nb = sum(1 for i in res.instances if i.key.startswith(f'parens:{b.name}#')) + 1
            key = f'parens:{b.name}#{nb}'
            o = t[3][0]
            src = None
            if o[0] in ('c', 'm') and not o[1].proj:
                sd = single_def(b, o[1].local)
                hops = 0
                while sd and sd[1] != 'term' and sd[2][0] == 'use' and sd[2][1][0] in ('c', 'm') and not sd[2][1][1].proj and hops < 6:
                    hops += 1
                    sd = single_def(b, sd[2][1][1].local)
                if sd and sd[1] == 'term':
                    src = callee(sd[2])[1] or ''
            if src and src.split('::')[-1] in ('comma_sep_list',):
                res.ok(key, b.loc(t[7]), 'parentheses around a comma-separated element list')
            else:
                res.violation(key, b.loc(t[7]), f'{b.name} puts parentheses around `{(src or "a computed document").split("::")[-1]}` inside '
                              f'the pattern printer: a parenthesised sub-pattern re-parses as a one-element tuple pattern, so the '
                              f'formatted (or renamed) document no longer denotes the same program')
    res.floor('parenthesised documents in pattern printers', n, 1)
    return [res]


# ---------------------------------------------------------------------------------------------------------------------
# PAREN-UNARY-LEVEL (C08): whether an operand of *equal* precedence needs parentheses is dictated by the parser. The unary
# production parses its operand with the next tighter production (a postfix chain), not with itself, so `!!a` / `--a` do not
# parse; the printer must therefore parenthesise a unary operand that is itself unary (equal level). The rule reads the
# parser side from the MIR (does the function that builds `E::Unary` obtain the operand from itself or from another
# production?) and requires the printer's decision for `Unary.argument` to parenthesise at equal precedence accordingly.

def run_paren_unary_level(prog, tier, repo):
    from ..cfg import single_def
    res = RuleResult('PAREN-UNARY-LEVEL', 'C08: a unary operand of equal precedence is parenthesised, because the parser\'s unary '
                     'production takes a tighter production (not itself) as its operand')
    # parser side
    recursive = None
    where = None
    for b in prog.bodies.values():
        if b.crate != 'samlang_parser' or '::tests' in b.name:
            continue
        for bl in b.blocks:
            if bl.cleanup:
                continue
            for st in bl.stmts:
                if st[0] == 'a' and st[2][0] == 'agg' and st[2][1][0] == 'adt' and st[2][1][1].endswith('source::expr::Unary'):
                    adt = prog.adts.get(st[2][1][1])
                    fn = [f.name for f in adt.variants[0].fields]
                    o = st[2][2][fn.index('argument')]
                    # Box::new(x) <- x <- call g(parser)
                    cur = o[1].local if o[0] in ('c', 'm') else None
                    g = None
                    for _ in range(6):
                        sd = single_def(b, cur) if cur is not None else None
                        if not sd:
                            break
                        if sd[1] == 'term':
                            nm = callee(sd[2])[1] or ''
                            if nm.split('::')[-1] in ('new',) and sd[2][3] and sd[2][3][0][0] in ('c', 'm'):
                                cur = sd[2][3][0][1].local
                                continue
                            g = callee(sd[2])[0]
                            break
                        if sd[2][0] == 'use' and sd[2][1][0] in ('c', 'm'):
                            cur = sd[2][1][1].local
                            continue
                        break
                    if g is None:
                        continue
                    rec = (g == b.id)
                    recursive = rec if recursive is None else (recursive and rec)
                    where = b
    if recursive is None:
        res.cannot_decide('the parser production that builds E::Unary and the production it takes its operand from')
        return [res]
    # printer side: the decider call for Unary.argument
    fd_ = find_decider(prog)
    if fd_ is None or isinstance(fd_, list):
        res.cannot_decide('the parenthesis decider of the printer')
        return [res]
    n = 0
    for b in prog.bodies.values():
        if b.crate != 'samlang_printer' or '::tests' in b.name:
            continue
        for bi, t in call_sites(b, lambda nm: fd_ is not None and nm == fd_[0].name):
            sub = t[3][fd_[1][1] - 1] if len(t[3]) >= fd_[0].nargs else None
            if sub is None:
                continue
            r, p = operand_root(b, sub)
            fs = [e for e in p if e[0] == 'f']
            if not fs or not prog.adts[fs[-1][1]].name.endswith('expr::Unary') or fs[-1][4] != 'argument':
                continue
            n += 1
            flag = t[3][fd_[0].nargs - 1]
            key = f'unary-operand:{b.name}'
            if recursive or (mode_value(prog, b, flag) in fd_[3]):
                res.ok(key, b.loc(t[7]), 'equal-precedence unary operand is parenthesised' if not recursive else 'the parser accepts nested unary operators')
            else:
                res.violation(key, b.loc(t[7]), f'{b.name} prints a unary operand without parentheses when it has the same precedence as the '
                              f'unary expression itself, but {where.name} parses the operand with a tighter production: `!(!a)` is '
                              f'printed as `!!a` and `-(-b)` as `--b`, which do not parse')
    res.floor('unary operand decisions', n, 1)
    return [res]


# ---------------------------------------------------------------------------------------------------------------------
# PLAIN-POSITION (C08): the printer emits some children with the plain expression printer, without asking whether they need
# parentheses (the scrutinee of `match`, the condition of `if`, call arguments, ...). That is right exactly when the parser
# accepts *any* expression in that position, i.e. builds the child with the top production of the expression grammar. The
# productions form a chain by fall-through (expression -> match -> if/else -> `||` -> ... -> base): P falls through to Q when
# P can call Q before consuming a token. A position the parser fills from a production further down the chain rejects the
# looser forms unless they are parenthesised, so printing it plainly yields text that does not parse.

def run_plain_position(prog, tier, repo):
    res = RuleResult('PLAIN-POSITION', 'C08: a child the printer emits without a parenthesis decision is parsed with the top production '
                     'of the expression grammar (any expression is accepted there)')
    # ---- parser side: productions returning E and taking only the parser
    prods = {}
    for b in prog.bodies.values():
        if b.crate != 'samlang_parser' or '::tests' in b.name or b.kind == 'closure':
            continue
        if b.locals[0].k == 'adt' and b.locals[0].name == E and b.nargs >= 1:
            prods[b.id] = b
    if len(prods) < 8:
        res.cannot_decide('the expression productions of the parser')
        return [res]

    def consumes(t):
        nm = (callee(t)[1] or '').split('::')[-1]
        return nm == 'consume' or nm.startswith('assert_and_consume')
    fall = {}
    for i, b in prods.items():
        cfg = cfg_of(b)
        cons = [bi for bi, bl in enumerate(b.blocks) if not bl.cleanup and bl.term[0] == 'call' and consumes(bl.term)]
        outs = set()
        for bi, bl in enumerate(b.blocks):
            t = bl.term
            if bl.cleanup or t[0] != 'call':
                continue
            cid = callee(t)[0]
            if cid in prods and cid != i and bi in cfg.reachable(0, removed_nodes=cons):
                # only calls that take no already-parsed expression: a continuation (`_with_start(parser, e)`) is not a fall-through
                if not any(o[0] in ('c', 'm') and _unbox_e(b.locals[o[1].local]) for o in t[3]):
                    outs.add(cid)
        fall[i] = outs
    indeg = {i: 0 for i in prods}
    for i, outs in fall.items():
        for o in outs:
            indeg[o] += 1
    # the top: the production reached by fall-through from nobody that itself falls through the longest chain
    def depth_from(i, seen=()):
        return 1 + max([depth_from(o, seen + (i,)) for o in fall[i] if o not in seen] or [0])
    tops = sorted(prods, key=lambda i: -depth_from(i))
    top = tops[0]
    level = {top: 0}
    frontier = [top]
    while frontier:
        nxt = []
        for x in frontier:
            for o in fall[x]:
                if o not in level:
                    level[o] = level[x] + 1
                    nxt.append(o)
        frontier = nxt
    # a production that never consumes a token itself and falls through to exactly one production accepts the same
    # language as that production (`parse_expression` = `parse_match`): they share a level
    mc = {}

    def may_consume(i, seen=None):
        if i in mc:
            return mc[i]
        seen = seen if seen is not None else set()
        if i in seen:
            return False
        seen.add(i)
        bb = prog.bodies.get(i)
        r = False
        if bb is not None and bb.crate == 'samlang_parser':
            for bl in bb.blocks:
                if bl.cleanup or bl.term[0] != 'call':
                    continue
                if consumes(bl.term) or (callee(bl.term)[0] and may_consume(callee(bl.term)[0], seen)):
                    r = True
                    break
            if not r:
                for c in prog.closures_of.get(i, []):
                    if may_consume(c, seen):
                        r = True
        mc[i] = r
        return r

    def transparent(i):
        # falls through to exactly one production and nothing else it calls can consume a token: same language as its target
        b = prods[i]
        if len(fall[i]) != 1:
            return False
        tgt = next(iter(fall[i]))
        for bl in b.blocks:
            if bl.cleanup or bl.term[0] != 'call':
                continue
            cid = callee(bl.term)[0]
            if cid == tgt:
                continue
            if consumes(bl.term) or (cid and may_consume(cid)):
                return False
        return True
    order = sorted(level, key=lambda i: level[i])
    shift = 0
    new_level = {}
    for i in order:
        new_level[i] = level[i] - shift
        if transparent(i):
            shift += 1
    level = new_level

    def production_of(b, op):
        cur = op[1].local if op[0] in ('c', 'm') else None
        for _ in range(8):
            sd = single_def(b, cur) if cur is not None else None
            if not sd:
                return None
            if sd[1] == 'term':
                nm = callee(sd[2])[1] or ''
                if nm.split('::')[-1] in ('new',) and sd[2][3] and sd[2][3][0][0] in ('c', 'm'):
                    cur = sd[2][3][0][1].local
                    continue
                return callee(sd[2])[0]
            if sd[2][0] == 'use' and sd[2][1][0] in ('c', 'm'):
                cur = sd[2][1][1].local
                continue
            return None
        return None
    built = {}      # (struct short name, field) -> set of production ids
    for b in prog.bodies.values():
        if b.crate != 'samlang_parser' or '::tests' in b.name:
            continue
        for bl in b.blocks:
            if bl.cleanup:
                continue
            for st in bl.stmts:
                if st[0] == 'a' and st[2][0] == 'agg' and st[2][1][0] == 'adt' and '::source::expr::' in st[2][1][1]:
                    adt = prog.adts.get(st[2][1][1])
                    if adt is None or adt.kind != 'struct':
                        continue
                    for k, f in enumerate(adt.variants[0].fields):
                        if k < len(st[2][2]) and _unbox_e(f.ty):
                            g = production_of(b, st[2][2][k])
                            if g is not None:
                                built.setdefault((adt.name.split('::')[-1], f.name), set()).add(g)
    # ---- printer side: children handed to the plain printer
    fdp = find_decider(prog)
    deciders = [fdp[0]] if fdp is not None and not isinstance(fdp, list) else []
    plain = {b.id for b in prog.bodies.values() if b.crate == 'samlang_printer' and b.name.endswith('::create_doc')}
    if not plain:
        res.cannot_decide('the plain expression printer')
        return [res]
    n = 0
    seen = set()
    # positions under precedence management (handed to the decider somewhere) belong to PAREN-SINK / PREC-ISO
    decided = set()
    dec_ids = {d.id for d in deciders}
    for b in prog.bodies.values():
        if b.crate != 'samlang_printer':
            continue
        for bl in b.blocks:
            t = bl.term
            if bl.cleanup or t[0] != 'call' or callee(t)[0] not in dec_ids:
                continue
            for o in t[3]:
                if o[0] in ('c', 'm') and _unbox_e(b.locals[o[1].local]):
                    r, p = operand_root(b, o)
                    fs = [e for e in p if e[0] == 'f']
                    if fs and prog.adts.get(fs[-1][1]) is not None:
                        decided.add((prog.adts[fs[-1][1]].name.split('::')[-1], fs[-1][4]))
    for b in sorted(prog.bodies.values(), key=lambda x: x.name):
        if b.crate != 'samlang_printer' or '::tests' in b.name:
            continue
        for bi, bl in enumerate(b.blocks):
            t = bl.term
            if bl.cleanup or t[0] != 'call' or callee(t)[0] not in plain:
                continue
            for o in t[3]:
                if o[0] not in ('c', 'm') or not _unbox_e(b.locals[o[1].local]):
                    continue
                r, p = operand_root(b, o)
                fs = [e for e in p if e[0] == 'f']
                if not fs:
                    continue
                a = prog.adts.get(fs[-1][1])
                if a is None or '::source::expr::' not in a.name:
                    continue
                pos = (a.name.split('::')[-1], fs[-1][4])
                if pos in seen or pos not in built or pos in decided:
                    continue
                # consumed by a parenthesiser right away? then the position is delimited
                if t[4] is not None and not t[4].proj:
                    uses = [bl2.term for bl2 in b.blocks if not bl2.cleanup and bl2.term[0] == 'call'
                            and any(o2[0] in ('c', 'm') and o2[1].local == t[4].local for o2 in bl2.term[3])]
                    if len(uses) == 1 and 'surrounded' in (callee(uses[0])[1] or ''):
                        continue
                seen.add(pos)
                n += 1
                lv = [(level.get(g), g) for g in built[pos]]
                key = f'plain:{pos[0]}.{pos[1]}'
                bad = [(l, g) for l, g in lv if l is not None and l > 0]
                if bad:
                    g = prods[bad[0][1]]
                    res.violation(key, b.loc(t[7]), f'{b.name} prints {pos[0]}.{pos[1]} without a parenthesis decision, but the parser fills '
                                  f'that position from {g.name.split("::")[-1]}, {bad[0][0]} step(s) below the top production '
                                  f'{prods[top].name.split("::")[-1]}: a looser expression there (`if`/`match`, or a lower-precedence '
                                  f'operator) is only accepted in parentheses, which the printer drops - the formatted text does not parse')
                else:
                    res.ok(key, b.loc(t[7]), 'parsed with the top production' if all(l == 0 for l, _ in lv) else 'production not on the fall-through chain (delimited)')
    res.floor('plainly printed child positions with a traced production', n, 3)
    res.analysed['production_levels'] = {prods[i].name.split('::')[-1]: l for i, l in sorted(level.items(), key=lambda kv: kv[1])}
    return [res]


def _unbox_e(t):
    from ..facts import strip_refs
    t = strip_refs(t)
    while t.k == 'adt' and t.name.startswith('std::boxed::Box') and t.args:
        t = strip_refs(t.args[0])
    return t.k == 'adt' and t.name == E


# ---------------------------------------------------------------------------------------------------------------------
# CONTINUATION-LEVELS (C08): after the tuple / lambda look-ahead has consumed `( lowerId`, the parser continues an
# expression "from the base": it applies the continuation of every binary-operator level (`.. _with_start`) in turn. That
# sequence is a second copy of the precedence chain; a level missing from it makes `(a :: b) * c` - text the printer itself
# produces - unparsable. Cross-check of siblings: a function that applies several operator-level continuations to an
# already parsed expression applies all of them.

def run_continuation_levels(prog, tier, repo):
    res = RuleResult('CONTINUATION-LEVELS', 'C08: every place that continues an already parsed expression through the operator '
                     'levels applies the continuation of every level (the look-ahead path agrees with the normal chain)')
    pl = parser_levels(prog, res)
    if pl is None:
        res.cannot_decide('source BinaryOperator / Binary types')
        return [res]
    parser, levels, nxt, binop = pl
    # continuation form of a level: takes an already parsed expression
    conts = {i for i in levels if any(_unbox_e(parser[i].locals[k]) for k in range(1, parser[i].nargs + 1))}
    if len(conts) < 3:
        res.cannot_decide(f'operator-level continuations taking a parsed expression (found {len(conts)})')
        return [res]
    n = 0
    for b in sorted(parser.values(), key=lambda x: x.name):
        if b.id in levels:
            continue
        called = {r for r in body_refs(b) if r in conts}
        if len(called) < 2:
            continue
        n += 1
        key = f'from-base:{b.name}'
        missing = sorted(parser[i].name.split('::')[-1] for i in conts - called)
        if missing:
            res.violation(key, b.loc(), f'{b.name} continues a parsed expression through {len(called)} of the {len(conts)} operator levels '
                          f'but not through {missing}: an operator of that level after a parenthesised identifier (`(a :: b) * c`) is a '
                          f'syntax error, although the formatter prints exactly that text')
        else:
            res.ok(key, b.loc(), f'applies all {len(conts)} operator-level continuations')
    res.floor('functions continuing an expression through the operator levels', n, 1)
    return [res]
