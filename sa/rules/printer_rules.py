"""C08 rules: PREC-ISO and LITERAL-PARITY (DESIGN.md §3.9)."""
from ..core import RuleResult
from ..cfg import cfg_of, single_def
from ..dataflow import operand_root, root_local, call_sites
from ..facts import callee
from ..tables import enum_switches, arm_regions
from ..callgraph import body_refs, family

SRC_BINOP = 'samlang_ast::source::expr::BinaryOperator'
SRC_BINARY = 'samlang_ast::source::expr::Binary'
E = 'samlang_ast::source::expr::E'


def _adt(prog, name):
    r = [a for a in prog.adts.values() if a.name == name]
    return r[0] if len(r) == 1 else None


def _returns_E(b):
    t = b.locals[0]
    return t.k == 'adt' and t.name == E


def parser_levels(prog, res):
    binop, binary = _adt(prog, SRC_BINOP), _adt(prog, SRC_BINARY)
    if binop is None or binary is None:
        return None
    parser = {b.id: b for b in prog.bodies.values() if b.crate == 'samlang_parser' and b.kind != 'closure'}
    levels = {}
    for b in parser.values():
        builds = False
        ops = set()
        for bl in b.blocks:
            if bl.cleanup:
                continue
            for st in bl.stmts:
                if st[0] == 'a' and st[2][0] == 'agg' and st[2][1][0] == 'adt':
                    if st[2][1][1] == binary.id:
                        builds = True
                    elif st[2][1][1] == binop.id:
                        ops.add(st[2][1][2])
        if builds and ops:
            levels[b.id] = ops
    # next tighter level: the level function that F's operand parser directly calls
    nxt = {}
    for fid in levels:
        f = parser[fid]
        cands = set()
        for r in body_refs(f):
            g = parser.get(r)
            if g is None or g.id in levels or not _returns_E(g):
                continue
            for r2 in body_refs(g):
                if r2 in levels and r2 != fid:
                    cands.add(r2)
        direct = {r for r in body_refs(f) if r in levels and r != fid}
        cands |= direct
        nxt[fid] = cands
    return parser, levels, nxt, binop


def run_prec_iso(prog, tier, repo):
    res = RuleResult('PREC-ISO', 'C08: formatting never changes grouping - the precedence order the parser implements and the '
                     'precedence table the printer elides parentheses with are order-isomorphic on all binary operators')
    pl = parser_levels(prog, res)
    if pl is None:
        res.cannot_decide('source BinaryOperator / Binary types')
        return [res]
    parser, levels, nxt, binop = pl
    names = [v.name for v in binop.variants]
    # chain
    roots = [f for f in levels if not any(f in n for n in nxt.values())]
    if len(roots) != 1 or any(len(n) > 1 for n in nxt.values()):
        res.cannot_decide('binary-operator productions of the parser do not form a single precedence chain '
                          f'(roots={[parser[r].name for r in roots]}, branching={[parser[f].name for f, n in nxt.items() if len(n) > 1]})')
        return [res]
    rank = {}
    cur = roots[0]
    i = 0
    seen = set()
    while cur is not None and cur not in seen:
        seen.add(cur)
        for op in levels[cur]:
            rank[op] = i
        i += 1
        n = nxt[cur]
        cur = next(iter(n)) if n else None
    if len(seen) != len(levels) or set(rank) != set(range(len(names))):
        res.cannot_decide(f'parser precedence chain does not cover every binary operator (covered {sorted(names[o] for o in rank)})')
        return [res]
    # printer table: fn precedence(&BinaryOperator) -> i32
    prec = None
    pbody = None
    for b in prog.bodies.values():
        if b.crate != 'samlang_ast' or b.locals[0].s != 'i32' or b.nargs != 1:
            continue
        for tb in enum_switches(prog, b, binop.id):
            regions, _ = arm_regions(b, tb)
            table = {}
            for v in range(len(names)):
                vals = set()
                for bi in regions[v]:
                    for st in b.blocks[bi].stmts:
                        if st[0] == 'a' and st[1].local == 0 and st[2][0] == 'use' and st[2][1][0] == 'k' and st[2][1][1].i is not None:
                            vals.add(st[2][1][1].i)
                if len(vals) == 1:
                    table[v] = next(iter(vals))
            if len(table) == len(names):
                prec, pbody = table, b
    if prec is None:
        res.cannot_decide('printer precedence table fn(&BinaryOperator) -> i32')
        return [res]
    sgn = lambda x: (x > 0) - (x < 0)
    for a in range(len(names)):
        for c in range(a + 1, len(names)):
            key = f'prec:{names[a]}~{names[c]}'
            p_rel = sgn(rank[a] - rank[c])          # >0: a binds tighter than c in the parser
            q_rel = sgn(prec[c] - prec[a])          # >0: a binds tighter than c for the printer (smaller = tighter)
            if p_rel == q_rel:
                res.ok(key, pbody.loc(), 'parser and printer agree')
            else:
                rel = {1: 'tighter than', 0: 'level with', -1: 'looser than'}
                res.violation(key, pbody.loc(), f'parser binds {names[a]} {rel[p_rel]} {names[c]} but the printer\'s table says '
                              f'{rel[q_rel]}: a tree nesting the two is printed without the parentheses it needs (or re-grouped) '
                              f'and re-parses to a different tree')
    res.analysed['parser_chain'] = [sorted(names[o] for o in levels[f]) for f in sorted(seen, key=lambda f: min(rank[o] for o in levels[f]))]
    res.analysed['printer_table'] = {names[v]: p for v, p in prec.items()}
    return [res]


def run_literal_parity(prog, tier, repo):
    res = RuleResult('LITERAL-PARITY', 'C08: literal printing inverts lexing - every transformation the parser applies to the '
                     'text of a string literal has its inverse on the printer\'s string-literal path')
    lit = _adt(prog, 'samlang_ast::source::Literal')
    if lit is None:
        res.cannot_decide('source::Literal')
        return [res]
    sidx = [i for i, v in enumerate(lit.variants) if v.name == 'String']
    if not sidx:
        res.cannot_decide('Literal::String')
        return [res]
    sidx = sidx[0]
    TRANSFORMS = ('str::<impl str>::replace', 'str::<impl str>::replacen', 'str::<impl str>::trim_matches',
                  'str::<impl str>::to_lowercase', 'str::<impl str>::to_uppercase')

    def transforms_on_path(bodies, is_site):
        """content-transforming std calls in functions that feed / consume Literal::String payloads"""
        out = []
        for b in bodies:
            sites = []
            for bi, bl in enumerate(b.blocks):
                if bl.cleanup:
                    continue
                if is_site(b, bl):
                    sites.append(bi)
            if not sites:
                continue
            # helpers directly called in this body (same crate) are part of the path
            scope = [b] + [prog.bodies[r] for r in body_refs(b) if r in prog.bodies and prog.bodies[r].crate == b.crate
                           and prog.bodies[r].kind != 'closure' and len(prog.bodies[r].blocks) < 12]
            for s in scope:
                for bi, t in call_sites(s, lambda n: n.endswith(TRANSFORMS)):
                    pat = []
                    for o in t[3][1:]:
                        if o[0] == 'k':
                            pat.append(o[1].v)
                        elif o[0] in ('c', 'm'):
                            r, pp = operand_root(s, o)
                            sd = single_def(s, r)
                            if sd and sd[1] != 'term' and sd[2][0] == 'use' and sd[2][1][0] == 'k':
                                pat.append(sd[2][1][1].v)
                            else:
                                pat.append('<dynamic>')
                    out.append((s, t[7], (callee(t)[1] or '').split('::')[-1], pat))
        return out

    def builds_string(b, bl):
        return any(st[0] == 'a' and st[2][0] == 'agg' and st[2][1][0] == 'adt' and st[2][1][1] == lit.id and st[2][1][2] == sidx
                   for st in bl.stmts)

    def reads_string(b, bl):
        from ..core import places_read
        for st in bl.stmts:
            if st[0] == 'a':
                pls = [st[1]]
                rv = st[2]
                if rv[0] == 'ref':
                    pls.append(rv[2])
                elif rv[0] == 'use' and rv[1][0] in ('c', 'm'):
                    pls.append(rv[1][1])
                for pl in pls:
                    for e in pl.proj:
                        if e[0] == 'f' and e[1] == lit.id and e[2] == sidx:
                            return True
        return False
    parser_bodies = [b for b in prog.bodies.values() if b.crate == 'samlang_parser']
    printer_bodies = [b for b in prog.bodies.values() if b.crate == 'samlang_printer']
    ptr = transforms_on_path(parser_bodies, builds_string)
    qtr = transforms_on_path(printer_bodies, reads_string)
    res.analysed['parser_transforms'] = [f'{b.name}:{n}{p}' for b, _, n, p in ptr]
    res.analysed['printer_transforms'] = [f'{b.name}:{n}{p}' for b, _, n, p in qtr]
    n_sites = sum(1 for b in parser_bodies for bl in b.blocks if not bl.cleanup and builds_string(b, bl))
    res.floor('Literal::String constructions in the parser', n_sites, 1)
    n_reads = sum(1 for b in printer_bodies for bl in b.blocks if not bl.cleanup and reads_string(b, bl))
    res.floor('Literal::String reads in the printer', n_reads, 1)
    for b, line, name, pat in ptr:
        key = f'unescape:{b.name}:{name}'
        # an inverse must exist on the printer side: a replace whose (from, to) patterns are swapped
        inv = [q for q in qtr if q[2] == name and list(reversed(q[3])) == pat]
        if inv:
            res.ok(key, b.loc(line), f'inverse {name}{inv[0][3]} on the printer path ({inv[0][0].name})')
        else:
            res.violation(key, b.loc(line), f'the parser applies {name}{pat} to the text of a string literal ({b.name}) but the '
                          f'printer emits Literal::String content without the inverse transformation: a literal containing an '
                          f'escaped quote is printed with a bare quote and no longer parses')
    if not ptr and not qtr:
        res.ok('no-transform', '-', 'neither side transforms string-literal text')
    for b, line, name, pat in qtr:
        if not any(p[2] == name and list(reversed(p[3])) == pat for p in ptr):
            res.violation(f'escape:{b.name}:{name}', b.loc(line), f'the printer applies {name}{pat} to string-literal text but the '
                          f'parser has no inverse: formatting changes the literal')
    return [res]
