"""ORDER-TAINT (C12): rendered diagnostics do not depend on hash seeds.

`HashMap` / `HashSet` iterate in an order that changes from process to process (RandomState). The error set itself is an
ordered set, so the *sequence* of diagnostics is stable; what remains is the *content* of a diagnostic. Necessary
condition: no value whose element order comes from iterating a hash collection reaches an argument of an error report
without passing an order-removing step.

  sources     results of iter / into_iter / keys / values / drain / into_keys / into_values on a HashMap or HashSet;
  propagation through iterator adapters and conversions (any call with a tainted argument taints its result, unless it is a
              sanitiser), through `next()` elements, through push / extend / append / insert into a Vec or String (the receiver
              becomes order-tainted; also when the push happens inside a loop driven by a tainted iterator), through
              aggregates, and through function results (a function whose return value is tainted taints its callers);
  sanitisers  sorted* / sort* (on the receiver, dominating the sink), min / max / sum / count / len / any / all / is_empty /
              contains*, and collecting into an unordered or self-ordering collection (result type HashMap, HashSet, BTreeMap,
              BTreeSet);
  sinks       arguments of `ErrorSet::report_*` and `StackableError::add_*`.
Picking one element out of a hash iteration (`find`, `next`, `first`) stays tainted: which element is picked depends on the order."""
from ..core import RuleResult
from ..cfg import cfg_of, single_def, def_sites
from ..dataflow import operand_root, root_local
from ..facts import callee, strip_refs
from ..callgraph import iter_operands_rvalue

SOURCES = ('iter', 'into_iter', 'keys', 'values', 'drain', 'into_keys', 'into_values', 'iter_mut', 'values_mut')
SANITISERS = ('sorted', 'sorted_by', 'sorted_by_key', 'sorted_unstable', 'sorted_unstable_by', 'sorted_unstable_by_key',
              'sorted_by_cached_key', 'min', 'max', 'min_by', 'max_by', 'min_by_key', 'max_by_key', 'sum', 'product', 'count', 'len',
              'any', 'all', 'is_empty', 'contains', 'contains_key', 'get', 'is_some', 'is_none', 'eq', 'ne', 'is_subset',
              'is_superset', 'is_disjoint')
SORTS = ('sort', 'sort_by', 'sort_by_key', 'sort_unstable', 'sort_unstable_by', 'sort_unstable_by_key', 'sort_by_cached_key')
ORDERED_PUSH = ('push', 'push_str', 'extend', 'append', 'insert', 'push_back', 'push_front', 'extend_from_slice')
SCOPE = ('samlang_checker', 'samlang_parser', 'samlang_errors')


def _is_hash(t):
    t = strip_refs(t)
    return t.k == 'adt' and t.name.startswith(('std::collections::HashMap', 'std::collections::HashSet',
                                               'std::collections::hash_map', 'std::collections::hash_set'))


def _unordered_result(t):
    t = strip_refs(t)
    return t.k == 'adt' and t.name.startswith(('std::collections::HashMap', 'std::collections::HashSet',
                                               'std::collections::BTreeMap', 'std::collections::BTreeSet'))


def _is_seq(t):
    t = strip_refs(t)
    return t.k == 'adt' and t.name.startswith(('std::vec::Vec', 'std::string::String', 'std::collections::VecDeque'))


class OrderTaint:
    def __init__(self, prog):
        self.prog = prog
        self.bodies = [b for b in prog.bodies.values() if b.crate in SCOPE and '::tests' not in b.name]
        self.ret = set()          # body ids whose return value is order-tainted
        self.tl = {}              # body id -> {local: (reason line)}

    KEYED = ('sorted_by_key', 'sort_by_key', 'sorted_by_cached_key', 'sort_by_cached_key', 'sorted_unstable_by_key',
             'sort_unstable_by_key', 'min_by_key', 'max_by_key')

    def _partial_key_sort(self, b, t, short):
        """A keyed sort / selection whose key is not the whole element (nor the unique first component of a map entry) leaves
        ties in the order the elements arrived in - for a hash iteration, the hash order."""
        if short not in self.KEYED or len(t[3]) < 2 or t[3][1][0] not in ('c', 'm'):
            return False
        ct = b.locals[t[3][1][1].local]
        if ct.k != 'closure' or ct.id not in self.prog.bodies:
            return False
        key_ty = strip_refs(self.prog.bodies[ct.id].locals[0])
        # element type: the single generic argument of the result (IntoIter<T>, Option<T>) or of the receiver (Vec<T>)
        cands = []
        if t[4] is not None:
            cands.append(strip_refs(b.locals[t[4].local]))
        if t[3][0][0] in ('c', 'm'):
            cands.append(strip_refs(b.locals[t[3][0][1].local]))
        elem = None
        for c in cands:
            if c.k in ('adt', 'slice', 'arr') and c.args:
                elem = strip_refs(c.args[0])
                break
        if elem is None:
            return False
        uniq = [elem.s]
        if elem.k == 'tup' and elem.args:
            uniq.append(strip_refs(elem.args[0]).s)      # (K, V) of a map entry: K is unique
        return key_ty.s not in uniq

    def analyse(self, b):
        taint = dict(self.tl.get(b.id, {}))
        changed_any = False
        # in-place sorts: uses of the sorted local that the sort dominates no longer carry the hash order
        sorts = {}
        for bi0, bl0 in enumerate(b.blocks):
            t0 = bl0.term
            if not bl0.cleanup and t0[0] == 'call' and t0[3] and (callee(t0)[1] or '').split('::')[-1] in SORTS \
                    and not self._partial_key_sort(b, t0, (callee(t0)[1] or '').split('::')[-1]):
                r0, _p0 = operand_root(b, t0[3][0])
                for _d in range(4):     # `v.sort()` on a Vec goes through `DerefMut::deref_mut(&mut v)`
                    sd0 = single_def(b, r0) if r0 is not None else None
                    if sd0 and sd0[1] == 'term' and sd0[2][3] and (callee(sd0[2])[1] or '').split('::')[-1] in (
                            'deref_mut', 'deref', 'as_mut_slice', 'as_mut', 'borrow_mut', 'as_slice'):
                        r0, _p0 = operand_root(b, sd0[2][3][0])
                    else:
                        break
                if r0 is not None:
                    sorts.setdefault(r0, []).append(bi0)
        cfg = cfg_of(b) if sorts else None
        cur = [0]
        for _ in range(30):
            changed = False

            def mark(l, why):
                nonlocal changed
                if l is not None and l not in taint:
                    taint[l] = why
                    changed = True

            def op_t(o):
                if o[0] not in ('c', 'm'):
                    return None
                r, _ = root_local(b, o[1].local)
                for x in (o[1].local, r):
                    if x in sorts and cfg.nodes_dominate(sorts[x], cur[0]) and cur[0] not in sorts[x]:
                        return None
                if o[1].local in taint:
                    return taint[o[1].local]
                return taint.get(r)
            # loops driven by a tainted iterator: blocks inside
            for bi, bl in enumerate(b.blocks):
                if bl.cleanup:
                    continue
                cur[0] = bi
                for st in bl.stmts:
                    if st[0] != 'a':
                        continue
                    dst, rv = st[1], st[2]
                    ops = list(iter_operands_rvalue(rv))
                    if rv[0] == 'ref':
                        ops.append(('c', rv[2]))
                    elif rv[0] in ('copyderef',):
                        ops.append(('c', rv[1]))
                    for o in ops:
                        w = op_t(o)
                        if w:
                            mark(dst.local, w)
                t = bl.term
                if t[0] != 'call':
                    continue
                cid, nm = callee(t)
                short = (nm or '').split('::')[-1]
                dl = t[4].local if t[4] is not None else None
                args = t[3]
                if short in SOURCES and args and args[0][0] in ('c', 'm') and _is_hash(b.locals[args[0][1].local]):
                    mark(dl, f'iteration of a {strip_refs(b.locals[args[0][1].local]).name.split("::")[-1].split("<")[0]} at line {t[7]}')
                    continue
                if (short in SANITISERS or short in SORTS) and not self._partial_key_sort(b, t, short):
                    continue
                tainted_arg = None
                for o in args:
                    w = op_t(o)
                    if w:
                        tainted_arg = w
                if short in ORDERED_PUSH and args and args[0][0] in ('c', 'm'):
                    r, _ = operand_root(b, args[0])
                    if r is not None and _is_seq(b.locals[r]):
                        w = None
                        for o in args[1:]:
                            w = w or op_t(o)
                        if w:
                            mark(r, w)
                    continue
                if cid in self.ret and dl is not None:
                    mark(dl, f'order-dependent result of {nm.split("::")[-1]} (line {t[7]})')
                if tainted_arg and dl is not None:
                    if _unordered_result(b.locals[dl]):
                        continue
                    mark(dl, tainted_arg)
            if not changed:
                break
            changed_any = True
        self.tl[b.id] = taint
        return taint


def run(prog, tier, repo):
    res = RuleResult('ORDER-TAINT', 'C12: the content of every rendered diagnostic is independent of hash seeds - no element order '
                     'obtained by iterating a HashMap / HashSet reaches an argument of an error report without being sorted or reduced')
    ot = OrderTaint(prog)
    n_sources = 0
    for _round in range(6):
        before = set(ot.ret)
        for b in ot.bodies:
            taint = ot.analyse(b)
            if 0 in taint and not _unordered_result(b.locals[0]):
                ot.ret.add(b.id)
        if ot.ret == before:
            break
    n_sinks = 0
    for b in sorted(ot.bodies, key=lambda x: x.name):
        taint = ot.tl.get(b.id, {})
        cfg = None
        for bi, bl in enumerate(b.blocks):
            t = bl.term
            if bl.cleanup or t[0] != 'call':
                continue
            nm = callee(t)[1] or ''
            short = nm.split('::')[-1]
            if short in SOURCES and t[3] and t[3][0][0] in ('c', 'm') and _is_hash(b.locals[t[3][0][1].local]):
                n_sources += 1
            if not (('ErrorSet::report_' in nm) or ('StackableError::add_' in nm)):
                continue
            n_sinks += 1
            ns = sum(1 for i in res.instances if i.key.startswith(f'sink:{b.name}:{short}#')) + 1
            if not any((o[0] in ('c', 'm')) and (taint.get(o[1].local) or taint.get(root_local(b, o[1].local)[0])) for o in t[3][1:]):
                res.ok(f'sink:{b.name}:{short}#{ns}', b.loc(t[7]), 'no argument carries a hash iteration order')
            for k, o in enumerate(t[3][1:], 1):
                if o[0] not in ('c', 'm'):
                    continue
                r, _ = root_local(b, o[1].local)
                why = taint.get(o[1].local) or taint.get(r)
                if not why:
                    continue
                # sorted in place before the report?
                cfg = cfg or cfg_of(b)
                sorted_before = False
                for bj, bl2 in enumerate(b.blocks):
                    t2 = bl2.term
                    if bl2.cleanup or t2[0] != 'call' or not t2[3]:
                        continue
                    if (callee(t2)[1] or '').split('::')[-1] in SORTS and operand_root(b, t2[3][0])[0] in (r, o[1].local) \
                            and cfg.nodes_dominate([bj], bi):
                        sorted_before = True
                nb = sum(1 for i in res.instances if i.key.startswith(f'report:{b.name}:{short}#')) + 1
                key = f'report:{b.name}:{short}#{nb}'
                if sorted_before:
                    res.ok(key, b.loc(t[7]), 'argument sorted before it is reported')
                else:
                    res.violation(key, b.loc(t[7]), f'{b.name}: argument {k} of {short} carries the element order of a hash collection '
                                  f'({why}): the rendered diagnostic lists its items in an order that changes with the process\'s hash '
                                  f'seed, so two runs on the same sources print different messages')
    res.floor('error-report call sites inspected', n_sinks, 40)
    res.floor('hash-collection iterations in scope', n_sources, 8)
    res.analysed['functions_returning_hash_order'] = sorted(prog.bodies[i].name for i in ot.ret)
    return [res]


# ---------------------------------------------------------------------------------------------------------------------
# INTERN-ORDER (C12). Identifiers longer than 15 bytes live in the heap's string table and `PStr`'s `Ord` compares their
# table index, i.e. the order in which they were interned. Diagnostics list and pick names by that order (`sorted()`,
# `BTreeSet<PStr>`, `min()`), so the rendered text is a function of the interning order. Necessary condition: in the function
# that renders the diagnostics of a compilation, no call that can intern strings and receives an element of a hash-ordered
# iteration runs before the rendering - otherwise the interning order, and with it the text, follows the per-process seed.

def run_intern_order(prog, tier, repo):
    from ..callgraph import body_refs
    res = RuleResult('INTERN-ORDER', 'C12: before diagnostics are rendered, strings are never interned in the iteration order of a '
                     'HashMap / HashSet (long identifiers are ordered by interning index, and diagnostics list names in that order)')
    interners = {b.id for b in prog.bodies.values() if b.crate == 'samlang_heap' and b.kind != 'closure'
                 and '::Heap::alloc_' in b.name and '::tests' not in b.name}
    if len(interners) < 2:
        res.cannot_decide('the interning functions of the heap (samlang_heap::Heap::alloc_*)')
        return [res]
    reach = {}

    def reaches_intern(i, depth=0, seen=None):
        if i in interners:
            return True
        if i in reach:
            return reach[i]
        seen = seen if seen is not None else set()
        if i in seen or depth > 12:
            return False
        seen.add(i)
        b = prog.bodies.get(i)
        r = False
        if b is not None:
            for c in list(body_refs(b)) + prog.closures_of.get(i, []):
                if reaches_intern(c, depth + 1, seen):
                    r = True
                    break
        if depth == 0:
            reach[i] = r
        return r

    def is_mut_heap(t):
        return t.k == 'ref' and t.extra and strip_refs(t).k == 'adt' and strip_refs(t).name == 'samlang_heap::Heap'
    ot = OrderTaint(prog)
    ot.bodies = [b for b in prog.bodies.values() if b.crate in ('samlang_compiler', 'samlang_cli') and '::tests' not in b.name]
    n_render = 0
    for b in sorted(ot.bodies, key=lambda x: x.name):
        renders = [bi for bi, bl in enumerate(b.blocks) if not bl.cleanup and bl.term[0] == 'call'
                   and 'ErrorSet::pretty_print_error_messages' in (callee(bl.term)[1] or '')]
        if not renders:
            continue
        n_render += 1
        cfg = cfg_of(b)
        found = False
        # the body itself and the closures it builds before rendering (`measure_time(.., || { parse loop })`)
        scan = [(b, bi, bl) for bi, bl in enumerate(b.blocks)]
        for c in prog.closures_of.get(b.id, []):
            built = [bi for bi, bl in enumerate(b.blocks) for st in bl.stmts
                     if st[0] == 'a' and st[2][0] == 'agg' and st[2][1][0] == 'closure' and st[2][1][1] == c]
            if any(r in cfg.reachable(x) for x in built for r in renders):
                scan += [(prog.bodies[c], None, bl) for bl in prog.bodies[c].blocks]
        taints = {}
        for fb, bi, bl in scan:
            t = bl.term
            if bl.cleanup or t[0] != 'call':
                continue
            if fb.id not in taints:
                taints[fb.id] = ot.analyse(fb)
            taint = taints[fb.id]
            cid, nm = callee(t)
            if not any(o[0] in ('c', 'm') and is_mut_heap(fb.locals[o[1].local]) for o in t[3]):
                continue
            if not (cid and reaches_intern(cid)):
                continue
            why = None
            for o in t[3]:
                if o[0] in ('c', 'm'):
                    r, _ = root_local(fb, o[1].local)
                    w = taint.get(o[1].local) or taint.get(r)
                    if w:
                        why = w
            if not why:
                continue
            if bi is not None and not any(r in cfg.reachable(bi) for r in renders):
                continue
            found = True
            k = sum(1 for i in res.instances if i.key.startswith(f'intern:{b.name}:')) + 1
            res.violation(f'intern:{b.name}:{(nm or "?").split("::")[-1]}#{k}', fb.loc(t[7]),
                          f'{b.name} calls {nm} with the heap and an element of a hash-ordered iteration ({why}) before it renders '
                          f'the diagnostics: strings are interned in an order that changes with the process\'s hash seed, identifiers '
                          f'longer than 15 bytes compare by interning index, and every diagnostic that sorts or picks names '
                          f'(missing members, missing fields, the non-exhaustive match example) prints them in that order')
        if not found:
            res.ok(f'intern:{b.name}', b.loc(), 'no hash-ordered interning before the diagnostics are rendered')
    res.floor('functions rendering the diagnostics of a compilation', n_render, 1)
    res.analysed['interning_functions'] = sorted(prog.bodies[i].name for i in interners)
    return [res]


# ---------------------------------------------------------------------------------------------------------------------
# SORT-KEY-LOSSY (C09 for the printer, C12 elsewhere). Entries of a HashMap arrive in hash order; `sorted_by_key` / `sort_by_key`
# are stable, so two entries with equal keys stay in the order they arrived in. Where the key closure computes the key from the
# *unique* part of the entry (the map key, the whole element), the sort is total exactly as long as the computation is injective.
# The rule follows the closure's return value back to the element and fails when a function from the table of lossy
# transformations (case folding, trimming, lengths, prefixes) lies on the way: two different map keys may then compare equal and
# the output order of those two follows the per-process hash seed (an unstable `format --check`, diagnostics or emitted items that
# swap between runs). Functions outside both tables are left undecided and listed in the evidence.

LOSSY = ('to_lowercase', 'to_uppercase', 'to_ascii_lowercase', 'to_ascii_uppercase', 'make_ascii_lowercase', 'trim', 'trim_start',
         'trim_end', 'trim_matches', 'trim_start_matches', 'trim_end_matches', 'len', 'count', 'is_empty', 'first', 'last', 'chars',
         'bytes', 'split', 'split_once', 'rsplit', 'rsplit_once', 'starts_with', 'ends_with', 'contains', 'find', 'nth', 'get',
         'hash', 'file_stem', 'file_name', 'extension', 'to_string_lossy', 'eq_ignore_ascii_case', 'abs', 'signum', 'min', 'max',
         'strip_prefix', 'strip_suffix', 'truncate', 'take', 'skip', 'is_some', 'is_none', 'unwrap_or_default')
FAITHFUL = ('pretty_print', 'as_str', 'clone', 'to_string', 'to_owned', 'deref', 'borrow', 'as_ref', 'into', 'from', 'to_vec',
            'as_bytes', 'as_slice', 'into_boxed_str', 'into_string', 'encoded_for_test', 'encoded', 'into_iter', 'iter', 'collect',
            'cloned', 'copied', 'join')


def _key_chain(prog, kb):
    """Trace the returned key of closure body `kb` back to its element parameter (_2). Returns (field path, [call names]) or None
    when the value has several definitions / no derivation from the element."""
    calls = []
    cur = 0
    path = ()
    for _ in range(32):
        r, p = root_local(kb, cur)
        path = p + path
        if r == 2:
            return path, calls
        sd = single_def(kb, r)
        if sd is None:
            return None
        if sd[1] == 'term':
            t = sd[2]
            calls.append(((callee(t)[1] or callee_decl_name(t) or '?'), t[7]))
            nxt = None
            for o in t[3]:
                if o[0] in ('c', 'm'):
                    rr, _pp = root_local(kb, o[1].local)
                    if rr == 2 or _derives(kb, o[1].local):
                        nxt = o[1].local
                        break
            if nxt is None:
                return None
            cur = nxt
            continue
        rv = sd[2]
        ops = [o for o in iter_operands_rvalue(rv) if o[0] in ('c', 'm')]
        if len(ops) != 1:
            return None
        path = tuple(e for e in ops[0][1].proj if e[0] in ('f', 't', 'v')) + path
        cur = ops[0][1].local
    return None


def callee_decl_name(t):
    from ..facts import callee_decl
    return callee_decl(t)[1]


def _derives(kb, local, depth=0):
    """Does `local` derive (through copies, references and calls) from the element parameter _2?"""
    if depth > 12:
        return False
    r, _ = root_local(kb, local)
    if r == 2:
        return True
    sd = single_def(kb, r)
    if sd is None:
        return False
    if sd[1] == 'term':
        return any(o[0] in ('c', 'm') and _derives(kb, o[1].local, depth + 1) for o in sd[2][3])
    return any(o[0] in ('c', 'm') and _derives(kb, o[1].local, depth + 1) for o in iter_operands_rvalue(sd[2]))


def run_sort_key_lossy(prog, tier, repo, crates=None, floor=1):
    res = RuleResult('SORT-KEY-LOSSY', 'the key of a stable keyed sort over the entries of a hash collection is not computed from the '
                     'entry\'s unique part by a lossy transformation (ties would be left in hash order, which changes from run to run)')
    n = 0
    unclassified = set()
    ot_local = None
    taints = {}
    for b in sorted(prog.bodies.values(), key=lambda x: x.name):
        if not b.crate.startswith('samlang') or '::tests' in b.name or (crates and b.crate not in crates):
            continue
        for bl in b.blocks:
            t = bl.term
            if bl.cleanup or t[0] != 'call' or len(t[3]) < 2:
                continue
            short = (callee(t)[1] or '').split('::')[-1]
            if short not in OrderTaint.KEYED or t[3][0][0] not in ('c', 'm') or t[3][1][0] not in ('c', 'm'):
                continue
            recv = strip_refs(b.locals[t[3][0][1].local])
            if 'std::collections::hash_map::' not in recv.s and 'std::collections::hash_set::' not in recv.s:
                # an in-place sort of a vector that was collected from a hash iteration (`let mut v = map.into_iter().collect();
                # v.sort_by_cached_key(..)`): the receiver carries the hash order according to the ORDER-TAINT analysis
                if ot_local is None:
                    ot_local = OrderTaint(prog)
                taint = taints.get(b.id)
                if taint is None:
                    taint = taints[b.id] = ot_local.analyse(b)
                r0, _p0 = operand_root(b, t[3][0])
                for _d in range(4):
                    sd0 = single_def(b, r0) if r0 is not None else None
                    if sd0 and sd0[1] == 'term' and sd0[2][3] and (callee(sd0[2])[1] or '').split('::')[-1] in (
                            'deref_mut', 'deref', 'as_mut_slice', 'as_mut', 'borrow_mut', 'as_slice'):
                        r0, _p0 = operand_root(b, sd0[2][3][0])
                    else:
                        break
                if not (r0 in taint or t[3][0][1].local in taint):
                    continue
            ct = strip_refs(b.locals[t[3][1][1].local])
            if ct.k != 'closure' or ct.id not in prog.bodies:
                continue
            kb = prog.bodies[ct.id]
            n += 1
            k = sum(1 for i in res.instances if i.key.startswith(f'sort:{b.name}:{short}#')) + 1
            key = f'sort:{b.name}:{short}#{k}'
            ch = _key_chain(prog, kb)
            if ch is None:
                res.ok(key, b.loc(t[7]), 'key not derived from the element by a single chain of calls: not decided')
                continue
            path, calls = ch
            fields = [e for e in path if e[0] in ('f', 't')]
            unique_part = (not fields) or (fields[0][0] == 't' and fields[0][1] == 0) or \
                (fields[0][0] == 'f' and str(fields[0][4]) == '0' and 'hash_map' in recv.s)
            lossy = [(nm, ln) for nm, ln in calls if nm.split('::')[-1] in LOSSY]
            for nm, _ln in calls:
                if nm.split('::')[-1] not in LOSSY and nm.split('::')[-1] not in FAITHFUL:
                    unclassified.add(nm)
            if unique_part and lossy:
                res.violation(key, kb.loc(lossy[0][1]), f'{b.name} orders the entries of a hash collection with `{short}`, and the key '
                              f'closure ({kb.loc()}) computes the key from the entry\'s unique part through '
                              f'`{lossy[0][0].split("::")[-1]}`, which maps different values to the same key: entries whose keys '
                              f'collide keep their hash order, so the result differs between runs of the same input')
            elif unique_part:
                res.ok(key, b.loc(t[7]), 'key = the entry\'s unique part' + (' through ' + ', '.join(c[0].split('::')[-1] for c in calls)
                                                                            if calls else ''))
            else:
                res.ok(key, b.loc(t[7]), 'key is another part of the entry (its uniqueness is a data invariant): not decided')
    res.floor('keyed sorts over hash-collection entries', n, floor)
    res.analysed['unclassified_key_functions'] = sorted(unclassified)
    return [res]


def run_sort_key_lossy_printer(prog, tier, repo):
    out = run_sort_key_lossy(prog, tier, repo, crates=('samlang_printer',), floor=1)
    out[0].clause = 'C09: ' + out[0].clause
    return out


def run_sort_key_lossy_compiler(prog, tier, repo):
    out = run_sort_key_lossy(prog, tier, repo, crates=('samlang_checker', 'samlang_compiler', 'samlang_errors', 'samlang_parser',
                                                       'samlang_optimization'), floor=4)
    out[0].clause = 'C12: ' + out[0].clause
    return out
