"""ORDER-TAINT (C12): rendered diagnostics do not depend on hash seeds.

`HashMap` / `HashSet` iterate in an order that changes from process to process (RandomState). The error set itself is an
ordered set, so the *sequence* of diagnostics is stable; what remains is the *content* of a diagnostic. Necessary
condition: no value whose element order comes from iterating a hash collection reaches an argument of an error report
without passing an order-removing step.

  sources     results of iter / into_iter / keys / values / drain / into_keys / into_values on a HashMap or HashSet;
  propagation through iterator adapters and conversions (any call with a tainted argument taints its result, unless it is a
              sanitiser), through `next()` elements, through push / extend / append / insert into a Vec or String (the receiver
              becomes order-tainted; also when the push happens inside a loop driven by a tainted iterator), through
              aggregates, and through function results (a function whose return value is tainted taints its callers);
  sanitisers  sorted* / sort* (on the receiver, dominating the sink), min / max / sum / count / len / any / all / is_empty /
              contains*, and collecting into an unordered or self-ordering collection (result type HashMap, HashSet, BTreeMap,
              BTreeSet);
  sinks       arguments of `ErrorSet::report_*` and `StackableError::add_*`.
Picking one element out of a hash iteration (`find`, `next`, `first`) stays tainted: which element is picked depends on the order."""
from ..core import RuleResult
from ..cfg import cfg_of, single_def, def_sites
from ..dataflow import operand_root, root_local
from ..facts import callee, strip_refs
from ..callgraph import iter_operands_rvalue

SOURCES = ('iter', 'into_iter', 'keys', 'values', 'drain', 'into_keys', 'into_values', 'iter_mut', 'values_mut')
SANITISERS = ('sorted', 'sorted_by', 'sorted_by_key', 'sorted_unstable', 'sorted_unstable_by', 'sorted_unstable_by_key',
              'sorted_by_cached_key', 'min', 'max', 'min_by', 'max_by', 'min_by_key', 'max_by_key', 'sum', 'product', 'count', 'len',
              'any', 'all', 'is_empty', 'contains', 'contains_key', 'get', 'is_some', 'is_none', 'eq', 'ne', 'is_subset',
              'is_superset', 'is_disjoint')
SORTS = ('sort', 'sort_by', 'sort_by_key', 'sort_unstable', 'sort_unstable_by', 'sort_unstable_by_key', 'sort_by_cached_key')
ORDERED_PUSH = ('push', 'push_str', 'extend', 'append', 'insert', 'push_back', 'push_front', 'extend_from_slice')
SCOPE = ('samlang_checker', 'samlang_parser', 'samlang_errors')


def _is_hash(t):
    t = strip_refs(t)
    return t.k == 'adt' and t.name.startswith(('std::collections::HashMap', 'std::collections::HashSet',
                                               'std::collections::hash_map', 'std::collections::hash_set'))


def _unordered_result(t):
    t = strip_refs(t)
    return t.k == 'adt' and t.name.startswith(('std::collections::HashMap', 'std::collections::HashSet',
                                               'std::collections::BTreeMap', 'std::collections::BTreeSet'))


def _is_seq(t):
    t = strip_refs(t)
    return t.k == 'adt' and t.name.startswith(('std::vec::Vec', 'std::string::String', 'std::collections::VecDeque'))


class OrderTaint:
    def __init__(self, prog):
        self.prog = prog
        self.bodies = [b for b in prog.bodies.values() if b.crate in SCOPE and '::tests' not in b.name]
        self.ret = set()          # body ids whose return value is order-tainted
        self.tl = {}              # body id -> {local: (reason line)}

    def analyse(self, b):
        taint = dict(self.tl.get(b.id, {}))
        changed_any = False
        for _ in range(30):
            changed = False

            def mark(l, why):
                nonlocal changed
                if l is not None and l not in taint:
                    taint[l] = why
                    changed = True

            def op_t(o):
                if o[0] not in ('c', 'm'):
                    return None
                if o[1].local in taint:
                    return taint[o[1].local]
                r, _ = root_local(b, o[1].local)
                return taint.get(r)
            # loops driven by a tainted iterator: blocks inside
            for bi, bl in enumerate(b.blocks):
                if bl.cleanup:
                    continue
                for st in bl.stmts:
                    if st[0] != 'a':
                        continue
                    dst, rv = st[1], st[2]
                    ops = list(iter_operands_rvalue(rv))
                    if rv[0] == 'ref':
                        ops.append(('c', rv[2]))
                    elif rv[0] in ('copyderef',):
                        ops.append(('c', rv[1]))
                    for o in ops:
                        w = op_t(o)
                        if w:
                            mark(dst.local, w)
                t = bl.term
                if t[0] != 'call':
                    continue
                cid, nm = callee(t)
                short = (nm or '').split('::')[-1]
                dl = t[4].local if t[4] is not None else None
                args = t[3]
                if short in SOURCES and args and args[0][0] in ('c', 'm') and _is_hash(b.locals[args[0][1].local]):
                    mark(dl, f'iteration of a {strip_refs(b.locals[args[0][1].local]).name.split("::")[-1].split("<")[0]} at line {t[7]}')
                    continue
                if short in SANITISERS or short in SORTS:
                    continue
                tainted_arg = None
                for o in args:
                    w = op_t(o)
                    if w:
                        tainted_arg = w
                if short in ORDERED_PUSH and args and args[0][0] in ('c', 'm'):
                    r, _ = operand_root(b, args[0])
                    if r is not None and _is_seq(b.locals[r]):
                        w = None
                        for o in args[1:]:
                            w = w or op_t(o)
                        if w:
                            mark(r, w)
                    continue
                if cid in self.ret and dl is not None:
                    mark(dl, f'order-dependent result of {nm.split("::")[-1]} (line {t[7]})')
                if tainted_arg and dl is not None:
                    if _unordered_result(b.locals[dl]):
                        continue
                    mark(dl, tainted_arg)
            if not changed:
                break
            changed_any = True
        self.tl[b.id] = taint
        return taint


def run(prog, tier, repo):
    res = RuleResult('ORDER-TAINT', 'C12: the content of every rendered diagnostic is independent of hash seeds - no element order '
                     'obtained by iterating a HashMap / HashSet reaches an argument of an error report without being sorted or reduced')
    ot = OrderTaint(prog)
    n_sources = 0
    for _round in range(6):
        before = set(ot.ret)
        for b in ot.bodies:
            taint = ot.analyse(b)
            if 0 in taint and not _unordered_result(b.locals[0]):
                ot.ret.add(b.id)
        if ot.ret == before:
            break
    n_sinks = 0
    for b in sorted(ot.bodies, key=lambda x: x.name):
        taint = ot.tl.get(b.id, {})
        cfg = None
        for bi, bl in enumerate(b.blocks):
            t = bl.term
            if bl.cleanup or t[0] != 'call':
                continue
            nm = callee(t)[1] or ''
            short = nm.split('::')[-1]
            if short in SOURCES and t[3] and t[3][0][0] in ('c', 'm') and _is_hash(b.locals[t[3][0][1].local]):
                n_sources += 1
            if not (('ErrorSet::report_' in nm) or ('StackableError::add_' in nm)):
                continue
            n_sinks += 1
            ns = sum(1 for i in res.instances if i.key.startswith(f'sink:{b.name}:{short}#')) + 1
            if not any((o[0] in ('c', 'm')) and (taint.get(o[1].local) or taint.get(root_local(b, o[1].local)[0])) for o in t[3][1:]):
                res.ok(f'sink:{b.name}:{short}#{ns}', b.loc(t[7]), 'no argument carries a hash iteration order')
            for k, o in enumerate(t[3][1:], 1):
                if o[0] not in ('c', 'm'):
                    continue
                r, _ = root_local(b, o[1].local)
                why = taint.get(o[1].local) or taint.get(r)
                if not why:
                    continue
                # sorted in place before the report?
                cfg = cfg or cfg_of(b)
                sorted_before = False
                for bj, bl2 in enumerate(b.blocks):
                    t2 = bl2.term
                    if bl2.cleanup or t2[0] != 'call' or not t2[3]:
                        continue
                    if (callee(t2)[1] or '').split('::')[-1] in SORTS and operand_root(b, t2[3][0])[0] in (r, o[1].local) \
                            and cfg.nodes_dominate([bj], bi):
                        sorted_before = True
                nb = sum(1 for i in res.instances if i.key.startswith(f'report:{b.name}:{short}#')) + 1
                key = f'report:{b.name}:{short}#{nb}'
                if sorted_before:
                    res.ok(key, b.loc(t[7]), 'argument sorted before it is reported')
                else:
                    res.violation(key, b.loc(t[7]), f'{b.name}: argument {k} of {short} carries the element order of a hash collection '
                                  f'({why}): the rendered diagnostic lists its items in an order that changes with the process\'s hash '
                                  f'seed, so two runs on the same sources print different messages')
    res.floor('error-report call sites inspected', n_sinks, 40)
    res.floor('hash-collection iterations in scope', n_sources, 8)
    res.analysed['functions_returning_hash_order'] = sorted(prog.bodies[i].name for i in ot.ret)
    return [res]
