"""Discriminant-switch table extraction: read a `match` over an enum out of MIR as variant -> region,
independent of how the match is written (arm order, or-patterns, wildcard)."""
from .cfg import cfg_of, single_def
from .dataflow import root_local


def place_type(body, pl):
    t = body.locals[pl.local]
    for e in pl.proj:
        if e[0] == 'd':
            if t.k in ('ref', 'ptr') or (t.k == 'adt' and t.name.startswith(('std::boxed::Box', 'std::sync::Arc', 'std::rc::Rc'))):
                t = t.args[0]
            else:
                return None
        elif e[0] == 'f':
            t = e[5]
        elif e[0] == 't':
            t = e[2]
        elif e[0] == 'v':
            pass
        elif e[0] in ('i', 'c', 's') and t.args:
            t = t.args[0] if e[0] != 's' else t
        else:
            return None
    return t


class SwitchTable:
    def __init__(self, body, bb, place, adt, arms, otherwise):
        self.body, self.bb, self.place, self.adt, self.arms, self.otherwise = body, bb, place, adt, arms, otherwise

    def target(self, v):
        return self.arms.get(v, self.otherwise)


def _real(body, bb):
    """Follow falseEdge / goto chains with no statements to the real arm start."""
    seen = set()
    while bb not in seen:
        seen.add(bb)
        bl = body.blocks[bb]
        if bl.term[0] == 'false_edge' and not [s for s in bl.stmts if s[0] == 'a']:
            bb = bl.term[1]
            continue
        break
    return bb


def enum_switches(prog, body, adt_id):
    """All switches on the discriminant of a place whose type is the enum adt_id."""
    out = []
    adt = prog.adts.get(adt_id)
    for bi, bl in enumerate(body.blocks):
        if bl.cleanup:
            continue
        t = bl.term
        if t[0] != 'switch' or t[1][0] not in ('c', 'm'):
            continue
        sd = single_def(body, t[1][1].local)
        if sd is None or sd[1] == 'term' or sd[2][0] != 'disc':
            continue
        pt = place_type(body, sd[2][1])
        if pt is None or pt.k != 'adt' or pt.id != adt_id:
            continue
        arms = {v: _real(body, tg) for v, tg in t[2]}
        other = t[3]
        ob = body.blocks[other]
        unreachable = ob.term[0] == 'unreachable'
        out.append(SwitchTable(body, bi, sd[2][1], adt, arms, None if unreachable else _real(body, other)))
    return out


def arm_regions(body, table):
    """variant -> set of blocks reachable from its arm start, minus the blocks reachable from every arm
    (the join after the match)."""
    cfg = cfg_of(body)
    nv = len(table.adt.variants)
    reach = {}
    for v in range(nv):
        tg = table.target(v)
        reach[v] = cfg.reachable(tg) if tg is not None else set()
    starts = {table.target(v) for v in range(nv) if table.target(v) is not None}
    if len(starts) > 1:
        common = set.intersection(*[cfg.reachable(s) for s in starts])
    else:
        common = set()
    return {v: reach[v] - common for v in range(nv)}, common


def variant_tests(prog, body, adt_id):
    """Comparisons of an enum-typed place against a unit variant: calls to PartialEq::{eq,ne} (or matches!
    style discriminant switches) -> list of dict(variant, eq_edges, ne_edges, place_root)."""
    out = []
    for bi, bl in enumerate(body.blocks):
        if bl.cleanup:
            continue
        t = bl.term
        if t[0] == 'call' and len(t[3]) == 2:
            from .facts import callee_decl
            nm = callee_decl(t)[1] or ''
            if nm not in ('std::cmp::PartialEq::ne', 'std::cmp::PartialEq::eq'):
                continue
            var = None
            other = None
            for a, b in ((t[3][0], t[3][1]), (t[3][1], t[3][0])):
                if a[0] not in ('c', 'm'):
                    continue
                r, p = root_local(body, a[1].local)
                sd = single_def(body, r)
                if sd and sd[1] != 'term' and sd[2][0] == 'agg' and sd[2][1][0] == 'adt' and sd[2][1][1] == adt_id and not p:
                    var = sd[2][1][2]
                    other = b
            if var is None:
                continue
            res = t[4].local
            for bj, bl2 in enumerate(body.blocks):
                tt = bl2.term
                if tt[0] == 'switch' and tt[1][0] in ('c', 'm') and root_local(body, tt[1][1].local)[0] == res:
                    zero = [(bj, tg) for v, tg in tt[2] if v == 0]
                    nonzero = [(bj, tt[3])] + [(bj, tg) for v, tg in tt[2] if v != 0]
                    if nm.endswith('::ne'):
                        out.append(dict(variant=var, ne_edges=nonzero, eq_edges=zero, operand=other, bb=bi))
                    else:
                        out.append(dict(variant=var, ne_edges=zero, eq_edges=nonzero, operand=other, bb=bi))
    for tb in enum_switches(prog, body, adt_id):
        # `matches!(x, V1 | V2)` / `match`: explicit arms are "equal" edges, the rest not-equal
        for v, tg in tb.arms.items():
            others = [(tb.bb, t2) for v2, t2 in tb.arms.items() if v2 != v]
            if tb.otherwise is not None:
                others.append((tb.bb, tb.otherwise))
            out.append(dict(variant=v, eq_edges=[(tb.bb, body.blocks[tb.bb].term[2][[x for x, _ in body.blocks[tb.bb].term[2]].index(v)][1])],
                            ne_edges=[(tb.bb, x) for x in _raw_targets(body, tb.bb, exclude=v)], operand=None, bb=tb.bb))
    return out


def _raw_targets(body, bb, exclude):
    t = body.blocks[bb].term
    out = [tg for v, tg in t[2] if v != exclude]
    out.append(t[3])
    return out


def excluded_variants(prog, body, adt_id, block):
    """Variants V of enum adt_id such that reaching `block` implies the tested operand != V. Besides direct
    dominance by a `!= V` edge this follows booleans that were materialised from the tests
    (`let may = op == A || op == B; if may .. else ..`)."""
    from .cfg import def_sites
    cfg = cfg_of(body)
    tests = variant_tests(prog, body, adt_id)

    def direct(bb):
        return {t['variant'] for t in tests if t['ne_edges'] and cfg.edges_dominate(t['ne_edges'], bb)}
    # result local of each eq/ne call test -> (variant, True if the call is `eq`)
    test_result = {}
    for t in tests:
        if t.get('operand') is None:
            continue
        tb = body.blocks[t['bb']].term
        if tb[0] == 'call':
            from .facts import callee_decl
            test_result[tb[4].local] = (t['variant'], callee_decl(tb)[1].endswith('::eq'))
    out = set(direct(block))
    for bj, bl in enumerate(body.blocks):
        tt = bl.term
        if bl.cleanup or tt[0] != 'switch' or tt[1][0] not in ('c', 'm') or tt[1][1].proj:
            continue
        m = tt[1][1].local
        if body.locals[m].s != 'bool':
            continue
        m = root_local(body, m)[0]      # through `_t = copy _m` temporaries down to the (multi-def) bool
        zero_t = {tg for v, tg in tt[2] if v == 0}
        nonzero_t = {tt[3]} | {tg for v, tg in tt[2] if v != 0}
        if zero_t & nonzero_t:
            continue
        if zero_t and cfg.edges_dominate([(bj, x) for x in zero_t], block):
            tau = False
        elif cfg.edges_dominate([(bj, x) for x in nonzero_t], block):
            tau = True
        else:
            continue
        defs = [d for d in def_sites(body).get(m, []) if not body.blocks[d[0]].cleanup]
        if not defs:
            continue
        acc = None
        for dbb, si, rv in defs:
            facts = set(direct(dbb))
            if si != 'term' and rv[0] == 'use' and rv[1][0] == 'k' and rv[1][1].i is not None:
                if bool(rv[1][1].i) != tau:
                    continue          # this definition cannot have produced tau
            elif si != 'term' and rv[0] == 'use' and rv[1][0] in ('c', 'm') and not rv[1][1].proj:
                src = root_local(body, rv[1][1].local)[0]
                if src in test_result:
                    v, is_eq = test_result[src]
                    if is_eq != tau:
                        facts.add(v)
            elif si == 'term':
                # the bool is directly the result of an eq/ne test at this definition
                from .facts import callee_decl
                nm = callee_decl(rv)[1] or ''
                if nm in ('std::cmp::PartialEq::eq', 'std::cmp::PartialEq::ne'):
                    for t in tests:
                        if t.get('operand') is not None and t['bb'] == dbb:
                            if nm.endswith('::eq') != tau:
                                facts.add(t['variant'])
            acc = facts if acc is None else (acc & facts)
        if acc:
            out |= acc
    return out
