"""MIR-level inlining of private helper functions (fallback view of the program).

Rules look for a shape inside one function (a guard dominating a use, two calls in order, a loop that consumes). An
"extract function" refactor moves part of the shape into a private helper and the rule loses its anchor although nothing
changed. Inlining is semantics-preserving, so a structural necessary condition that holds on the inlined program holds
for the code as written. `inlined_view(prog)` returns a copy of the program in which calls of small, private,
non-recursive functions of the same crate are replaced by the callee's blocks (parameters become assignments from the
arguments, `return` becomes an assignment to the call's destination followed by a jump to the call's target), repeated a
few levels deep; helpers whose every call site was inlined are dropped from the view."""
import copy
from .facts import Place, callee, Block, Body, Program

MAX_CALLEE_BLOCKS = 120
MAX_BODY_BLOCKS = 4000
LEVELS = 3


class _Off(int):
    """local offset of an inlined callee, with aliases for parameters bound directly to a caller local"""
    alias = {}

    def __new__(cls, off, alias=None):
        o = int.__new__(cls, off)
        o.alias = alias or {}
        return o


def _ml(l, loff):
    a = getattr(loff, 'alias', None)
    if a and l in a:
        return a[l]
    return l + int(loff)


def _map_place(pl, loff):
    proj = pl.proj
    if any(e[0] == 'i' for e in proj):
        proj = tuple(('i', _ml(e[1], loff)) + tuple(e[2:]) if e[0] == 'i' else e for e in proj)
    return Place(_ml(pl.local, loff), proj)


def _map_operand(o, loff):
    if o[0] in ('c', 'm'):
        return (o[0], _map_place(o[1], loff))
    return o


def _map_rvalue(rv, loff):
    k = rv[0]
    if k in ('use', 'repeat'):
        return (k, _map_operand(rv[1], loff))
    if k == 'ref':
        return ('ref', rv[1], _map_place(rv[2], loff))
    if k in ('rawptr', 'disc', 'copyderef'):
        return (k, _map_place(rv[1], loff))
    if k == 'cast':
        return ('cast', rv[1], _map_operand(rv[2], loff), rv[3])
    if k == 'bin':
        return ('bin', rv[1], _map_operand(rv[2], loff), _map_operand(rv[3], loff))
    if k == 'un':
        return ('un', rv[1], _map_operand(rv[2], loff))
    if k == 'agg':
        return ('agg', rv[1], tuple(_map_operand(o, loff) for o in rv[2]))
    return rv


def _map_stmt(st, loff):
    k = st[0]
    if k == 'a':
        return ('a', _map_place(st[1], loff), _map_rvalue(st[2], loff)) + tuple(st[3:])
    if k in ('sd', 'fr', 'pm'):
        return (k, _map_place(st[1], loff)) + tuple(st[2:])
    return st


def _map_term(t, loff, boff, unwind_to, ret_to):
    """ret_to = (dest place, target bb or None) of the call being replaced; returns (extra stmts, term)"""
    k = t[0]
    bb = lambda x: None if x is None else x + boff
    if k == 'goto':
        return [], ('goto', bb(t[1]))
    if k == 'switch':
        return [], ('switch', _map_operand(t[1], loff), tuple((v, bb(x)) for v, x in t[2]), bb(t[3])) + tuple(t[4:])
    if k == 'ret':
        dest, tgt = ret_to
        st = ('a', dest, ('use', ('m', Place(int(loff), ()))), t[1] if len(t) > 1 else 0, 0)
        return [st], (('goto', tgt) if tgt is not None else ('unreachable',))
    if k == 'drop':
        uw = bb(t[4]) if t[4] is not None else unwind_to
        return [], ('drop', _map_place(t[1], loff), t[2], bb(t[3]), uw) + tuple(t[5:])
    if k == 'call':
        uw = bb(t[6]) if t[6] is not None else unwind_to
        return [], ('call', _map_operand(t[1], loff), t[2], tuple(_map_operand(o, loff) for o in t[3]), _map_place(t[4], loff),
                    bb(t[5]), uw) + tuple(t[7:])
    if k == 'assert':
        m = t[3]
        if m[0] == 'bounds':
            m = ('bounds', _map_operand(m[1], loff), _map_operand(m[2], loff))
        elif m[0] == 'overflow':
            m = ('overflow', m[1], _map_operand(m[2], loff), _map_operand(m[3], loff))
        elif m[0] in ('overflow_neg', 'div_zero', 'rem_zero'):
            m = (m[0], _map_operand(m[1], loff))
        return [], ('assert', _map_operand(t[1], loff), t[2], m, bb(t[4])) + tuple(t[5:])
    if k == 'false_edge':
        return [], ('false_edge', bb(t[1]), bb(t[2]))
    if k == 'false_unwind':
        return [], ('false_unwind', bb(t[1]))
    if k == 'resume':
        return [], (('goto', unwind_to) if unwind_to is not None else ('resume',))
    return [], t


MAX_CALL_SITES = 2


def _call_counts(prog):
    n = {}
    for b in prog.bodies.values():
        if not b.crate.startswith('samlang') or '::tests' in b.name:
            continue
        for bl in b.blocks:
            if bl.term[0] == 'call' and not bl.cleanup:
                cid = callee(bl.term)[0]
                if cid:
                    n[cid] = n.get(cid, 0) + 1
    return n


def _inlinable(prog, caller, c):
    if c is None or c.id == caller.id or c.kind == 'closure' or c.crate != caller.crate:
        return False
    # "extract function" puts the helper next to its caller; a function of another file is an interface of that module
    if c.file != caller.file:
        return False
    # a function with many callers plays a role of its own (`recheck`, `peek`, a grammar production): rules name it
    if getattr(prog, 'call_counts', {}).get(c.id, 0) > MAX_CALL_SITES:
        return False
    if c.pub or len(c.blocks) > MAX_CALLEE_BLOCKS or '::tests' in c.name:
        return False
    # not directly recursive
    for bl in c.blocks:
        if bl.term[0] == 'call' and callee(bl.term)[0] == c.id:
            return False
    return True


def _inline_once(prog, b, inlined_ids):
    nb = None
    bi = 0
    changed = False
    blocks = b.blocks
    while bi < len(blocks):
        bl = blocks[bi]
        t = bl.term
        if t[0] == 'call' and not bl.cleanup and len(blocks) < MAX_BODY_BLOCKS:
            cid = callee(t)[0]
            c = prog.bodies.get(cid)
            if c is not None and _inlinable(prog, b, c) and len(t[3]) == c.nargs:
                if nb is None:
                    nb = Body()
                    for s in Body.__slots__:
                        if s != '_cache':
                            setattr(nb, s, getattr(b, s))
                    nb._cache = {}
                    nb.locals = list(b.locals)
                    nb.vars = list(b.vars)
                    nb.blocks = [bl2 for bl2 in b.blocks]
                    blocks = nb.blocks
                base_off = len(nb.locals)
                boff = len(blocks)
                # a parameter that receives a plain local of the caller - directly, or through a chain of moves and whole
                # re-borrows (`&mut *self`) - and is never re-assigned in the callee is that local under another name
                alias = {}
                from .dataflow import root_local
                from .cfg import def_sites
                cdefs = def_sites(c)
                for k in range(c.nargs):
                    o = t[3][k]
                    if o[0] in ('c', 'm') and not o[1].proj and not cdefs.get(k + 1):
                        try:
                            r, path = root_local(nb, o[1].local)
                        except Exception:
                            r, path = None, ()
                        if r is not None and not path and nb.locals[r].s == c.locals[k + 1].s:
                            alias[k + 1] = r
                loff = _Off(base_off, alias)
                nb.locals.extend(c.locals)
                nb.vars.extend((n, _map_place(pl, loff)) for n, pl in c.vars)
                line = t[7]
                entry = Block()
                entry.cleanup = bl.cleanup
                entry.stmts = list(bl.stmts) + [('a', Place(base_off + k + 1, ()), ('use', t[3][k]), line, 0)
                                                for k in range(c.nargs) if (k + 1) not in alias]
                entry.term = ('goto', boff)
                nb._cache = {}
                blocks[bi] = entry
                for cbl in c.blocks:
                    n2 = Block()
                    n2.cleanup = cbl.cleanup
                    n2.stmts = [_map_stmt(s, loff) for s in cbl.stmts]
                    extra, term = _map_term(cbl.term, loff, boff, t[6], (t[4], t[5]))
                    n2.stmts += extra
                    n2.term = term
                    blocks.append(n2)
                inlined_ids.add(cid)
                # the closures the callee builds are now built in the caller
                if prog.closures_of.get(cid):
                    prog.closures_of.setdefault(b.id, [])
                    prog.closures_of[b.id] = list(prog.closures_of[b.id]) + [x for x in prog.closures_of[cid] if x not in prog.closures_of[b.id]]
                changed = True
        bi += 1
    return nb if changed else None


def inlined_view(prog):
    view = Program()
    view.adts = prog.adts
    view.crates = list(prog.crates)
    view.bodies = dict(prog.bodies)
    view.closures_of = {k: list(v) for k, v in prog.closures_of.items()}
    inlined_ids = set()
    view.call_counts = _call_counts(prog)
    for _ in range(LEVELS):
        any_change = False
        for i, b in list(view.bodies.items()):
            if not b.crate.startswith('samlang') or '::tests' in b.name:
                continue
            nb = _inline_once(view, b, inlined_ids)
            if nb is not None:
                for _ in range(3):
                    if not _sra(nb):
                        break
                view.bodies[i] = nb
                any_change = True
        if not any_change:
            break
    # helpers with no remaining call site are no longer part of the view
    still_called = set()
    for b in view.bodies.values():
        for bl in b.blocks:
            if bl.term[0] == 'call':
                cid = callee(bl.term)[0]
                if cid:
                    still_called.add(cid)
            for st in bl.stmts:
                if st[0] == 'a':
                    rv = st[2]
                    ops = []
                    if rv[0] in ('use', 'repeat'):
                        ops = [rv[1]]
                    elif rv[0] == 'agg':
                        ops = list(rv[2])
                    elif rv[0] == 'cast':
                        ops = [rv[2]]
                    for o in ops:
                        if o[0] == 'k' and o[1].fn is not None:
                            still_called.add(o[1].fn[0])
            if bl.term[0] == 'call':
                for o in bl.term[3]:
                    if o[0] == 'k' and o[1].fn is not None:
                        still_called.add(o[1].fn[0])
    for cid in inlined_ids:
        if cid not in still_called and cid in view.bodies:
            del view.bodies[cid]
    view.inlined = sorted(inlined_ids)
    return view


# ---------------------------------------------------------------------------------------------------------------------
# Scalar replacement of aggregates built and taken apart locally: after inlining, a helper's `(start, end)` / `Range` /
# small struct result is an aggregate assigned once and only read field by field. Reading `agg.k` is reading the k-th
# operand the aggregate was built from, so the projection is replaced by that operand (when the operand is a local that
# is itself assigned once, or a constant). Rules then see the values, not the packaging.

def _sra(b):
    from .cfg import def_sites
    defs = def_sites(b)

    def sdef(l):
        ds = [d for d in defs.get(l, []) if not b.blocks[d[0]].cleanup]
        return ds[0] if len(ds) == 1 else None

    def agg_of(l, depth=0):
        """the aggregate rvalue a local holds, looking through whole moves / copies"""
        if depth > 6 or 1 <= l <= b.nargs:
            return None
        d = sdef(l)
        if d is None or d[1] == 'term':
            return None
        rv = d[2]
        if rv[0] == 'agg' and (rv[1][0] == 'tuple' or (rv[1][0] == 'adt' and (rv[1][2] == 0))):
            return rv
        if rv[0] == 'use' and rv[1][0] in ('c', 'm') and not rv[1][1].proj:
            return agg_of(rv[1][1].local, depth + 1)
        return None

    def stable(op):
        if op[0] == 'k':
            return True
        if op[0] in ('c', 'm') and not op[1].proj:
            l = op[1].local
            return (1 <= l <= b.nargs and not defs.get(l)) or sdef(l) is not None
        return False

    def field_index(e):
        if e[0] == 'f':
            return e[3]
        if e[0] == 't':
            return e[1]
        return None
    changed = [False]

    def rw_place(pl):
        if not pl.proj:
            return pl, None
        k = field_index(pl.proj[0])
        if k is None:
            return pl, None
        rv = agg_of(pl.local)
        if rv is None or k >= len(rv[2]) or not stable(rv[2][k]):
            return pl, None
        o = rv[2][k]
        if o[0] == 'k':
            if len(pl.proj) == 1:
                return pl, o
            return pl, None
        changed[0] = True
        return Place(o[1].local, tuple(pl.proj[1:])), None

    def rw_operand(o):
        if o[0] in ('c', 'm'):
            pl, const = rw_place(o[1])
            if const is not None:
                changed[0] = True
                return const
            return (o[0], pl) if pl is not o[1] else o
        return o

    def rw_rvalue(rv):
        k = rv[0]
        if k in ('use', 'repeat'):
            return (k, rw_operand(rv[1]))
        if k == 'ref':
            return ('ref', rv[1], rw_place(rv[2])[0])
        if k in ('rawptr', 'disc', 'copyderef'):
            return (k, rw_place(rv[1])[0])
        if k == 'cast':
            return ('cast', rv[1], rw_operand(rv[2]), rv[3])
        if k == 'bin':
            return ('bin', rv[1], rw_operand(rv[2]), rw_operand(rv[3]))
        if k == 'un':
            return ('un', rv[1], rw_operand(rv[2]))
        if k == 'agg':
            return ('agg', rv[1], tuple(rw_operand(o) for o in rv[2]))
        return rv
    new_blocks = []
    for bl in b.blocks:
        n2 = Block()
        n2.cleanup = bl.cleanup
        n2.stmts = []
        for st in bl.stmts:
            if st[0] == 'a':
                n2.stmts.append(('a', st[1], rw_rvalue(st[2])) + tuple(st[3:]))
            else:
                n2.stmts.append(st)
        t = bl.term
        if t[0] == 'call':
            t = ('call', t[1], t[2], tuple(rw_operand(o) for o in t[3])) + tuple(t[4:])
        elif t[0] == 'switch':
            t = ('switch', rw_operand(t[1])) + tuple(t[2:])
        elif t[0] == 'assert':
            m = t[3]
            if m[0] == 'bounds':
                m = ('bounds', rw_operand(m[1]), rw_operand(m[2]))
            elif m[0] == 'overflow':
                m = ('overflow', m[1], rw_operand(m[2]), rw_operand(m[3]))
            t = ('assert', rw_operand(t[1]), t[2], m) + tuple(t[4:])
        n2.term = t
        new_blocks.append(n2)
    if changed[0]:
        b.blocks = new_blocks
        b._cache = {}
    return changed[0]
