"""Concrete evaluation of small, pure, enum-to-enum mapping functions over their MIR.

`evaluate(prog, body, args)` runs the body on concrete enum/bool arguments. Only what such table functions use is
modelled: moves/copies, tuples, references to locals, discriminant reads, switches, fieldless or wrapping aggregates and
calls to other local functions (evaluated recursively). Anything else evaluates to UNKNOWN, and a switch on UNKNOWN
aborts the evaluation (the caller reports "cannot decide"). Nothing is executed: this is constant propagation over the
MIR with fully known inputs, i.e. it computes the function's table."""
from .cfg import succs
from .facts import callee

UNKNOWN = ('unknown',)


def enum_val(adt_id, idx, fields=()):
    return ('enum', adt_id, idx, tuple(fields))


def bool_val(b):
    return ('int', 1 if b else 0)


class Abort(Exception):
    pass


def _read_place(env, pl, depth=0):
    v = env.get(pl.local, UNKNOWN)
    for e in pl.proj:
        k = e[0]
        if v is UNKNOWN or v == UNKNOWN:
            return UNKNOWN
        if k == 'd':
            if v[0] == 'ref':
                v = _read_place(v[1], v[2], depth + 1) if depth < 8 else UNKNOWN
            else:
                return UNKNOWN
        elif k == 'v':
            continue
        elif k in ('f', 't'):
            idx = e[1]
            if v[0] == 'enum' and idx < len(v[3]):
                v = v[3][idx]
            elif v[0] == 'tuple' and idx < len(v[1]):
                v = v[1][idx]
            else:
                return UNKNOWN
        else:
            return UNKNOWN
    return v


def _operand(env, o):
    if o[0] in ('c', 'm'):
        return _read_place(env, o[1])
    if o[0] == 'k':
        c = o[1]
        if c.i is not None:
            return ('int', c.i)
        return UNKNOWN
    return UNKNOWN


def evaluate(prog, b, args, depth=0, fuel=400):
    """args: list of values for _1.._n. Returns the value of _0 at return."""
    if depth > 6:
        return UNKNOWN
    env = {}
    for i, a in enumerate(args):
        env[i + 1] = a
    bi = 0
    while fuel > 0:
        fuel -= 1
        bl = b.blocks[bi]
        for st in bl.stmts:
            if st[0] != 'a':
                continue
            pl, rv = st[1], st[2]
            k = rv[0]
            if k == 'use':
                v = _operand(env, rv[1])
            elif k == 'ref':
                v = ('ref', env, rv[2])
            elif k == 'copyderef':
                v = _read_place(env, rv[1])
            elif k == 'disc':
                x = _read_place(env, rv[1])
                v = ('int', x[2]) if x[0] == 'enum' else UNKNOWN
            elif k == 'agg':
                ak = rv[1]
                ops = [_operand(env, o) for o in rv[2]]
                if ak[0] == 'adt':
                    v = enum_val(ak[1], ak[2], ops)
                elif ak[0] == 'tuple':
                    v = ('tuple', tuple(ops))
                else:
                    v = UNKNOWN
            elif k == 'bin' and rv[1] in ('Eq', 'Ne'):
                x, y = _operand(env, rv[2]), _operand(env, rv[3])
                if x[0] == 'int' and y[0] == 'int':
                    v = bool_val((x[1] == y[1]) == (rv[1] == 'Eq'))
                else:
                    v = UNKNOWN
            elif k == 'un' and rv[1] == 'Not':
                x = _operand(env, rv[2])
                v = bool_val(not x[1]) if x[0] == 'int' else UNKNOWN
            else:
                v = UNKNOWN
            if not pl.proj:
                env[pl.local] = v
            elif len(pl.proj) == 1 and pl.proj[0][0] in ('f', 't'):
                cur = env.get(pl.local, UNKNOWN)
                idx = pl.proj[0][1]
                if cur[0] == 'tuple' and idx < len(cur[1]):
                    lst = list(cur[1])
                    lst[idx] = v
                    env[pl.local] = ('tuple', tuple(lst))
                else:
                    env[pl.local] = UNKNOWN
            else:
                env[pl.local] = UNKNOWN
        t = bl.term
        k = t[0]
        if k == 'ret':
            return env.get(0, UNKNOWN)
        if k == 'switch':
            x = _operand(env, t[1])
            if x[0] != 'int':
                raise Abort(f'switch on a value that is not determined by the arguments in bb{bi}')
            nxt = t[3]
            for vv, tg in t[2]:
                if vv == x[1]:
                    nxt = tg
            bi = nxt
            continue
        if k == 'call':
            cid = callee(t)[0] if callee(t) else None
            nm = callee(t)[1] or ''
            argv = [_operand(env, o) for o in t[3]]
            v = UNKNOWN
            cb = prog.bodies.get(cid) if cid else None
            if cb is not None and cb.kind != 'closure':
                v = evaluate(prog, cb, argv, depth + 1, fuel)
            elif nm.split('::')[-1] in ('dupe', 'clone') and len(argv) == 1 and argv[0][0] == 'ref':
                v = _read_place(argv[0][1], argv[0][2])
            elif nm.endswith('Option::<T>::unwrap') or nm.split('::')[-1] == 'unwrap':
                if argv and argv[0][0] == 'enum' and argv[0][3]:
                    v = argv[0][3][0]
            if t[4] is not None and not t[4].proj:
                env[t[4].local] = v
            if t[5] is None:
                raise Abort(f'diverging call in bb{bi}')
            bi = t[5]
            continue
        succ = succs(b, bi)
        if not succ:
            raise Abort(f'no successor in bb{bi} ({k})')
        bi = succ[0]
    raise Abort('evaluation did not terminate within the fuel bound')


def show(prog, v):
    if v == UNKNOWN:
        return '?'
    if v[0] == 'enum':
        adt = prog.adts.get(v[1])
        nm = adt.variants[v[2]].name if adt and v[2] < len(adt.variants) else f'#{v[2]}'
        if v[3]:
            return f'{nm}(' + ', '.join(show(prog, f) for f in v[3]) + ')'
        return nm
    if v[0] == 'int':
        return str(v[1])
    if v[0] == 'tuple':
        return '(' + ', '.join(show(prog, f) for f in v[1]) + ')'
    return v[0]
