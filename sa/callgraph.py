"""Call graph over all extracted bodies: direct calls (resolved), closure construction, fn items as values."""
from .facts import callee, callee_decl


def iter_operands_rvalue(rv):
    k = rv[0]
    if k in ('use', 'repeat'):
        yield rv[1]
    elif k == 'cast':
        yield rv[2]
    elif k == 'bin':
        yield rv[2]
        yield rv[3]
    elif k == 'un':
        yield rv[2]
    elif k == 'agg':
        for o in rv[2]:
            yield o


def body_refs(body):
    """Set of body ids this body may transfer control to (calls, closures built, fn items mentioned)."""
    r = body._cache.get('refs')
    if r is not None:
        return r
    r = set()
    for bl in body.blocks:
        for st in bl.stmts:
            if st[0] == 'a':
                rv = st[2]
                if rv[0] == 'agg' and rv[1][0] == 'closure':
                    r.add(rv[1][1])
                for o in iter_operands_rvalue(rv):
                    if o[0] == 'k' and o[1].fn is not None:
                        r.add(o[1].fn[0])
        t = bl.term
        if t[0] == 'call':
            cid, _ = callee(t)
            if cid:
                r.add(cid)
            did, _ = callee_decl(t)
            if did:
                r.add(did)
            for o in t[3]:
                if o[0] == 'k' and o[1].fn is not None:
                    r.add(o[1].fn[0])
    body._cache['refs'] = r
    return r


def family(prog, entries, in_scope):
    """Bodies reachable from entry ids through bodies satisfying in_scope(body)."""
    seen = {}
    stack = [e for e in entries]
    while stack:
        i = stack.pop()
        if i in seen:
            continue
        b = prog.bodies.get(i)
        if b is None:
            continue
        if not in_scope(b) and i not in entries:
            continue
        seen[i] = b
        for c in prog.closures_of.get(i, []):
            stack.append(c)
        for r in body_refs(b):
            if r not in seen:
                stack.append(r)
    return seen


def callers_of(prog, pred):
    """[(body, bb, term)] for every call whose resolved or declared callee name satisfies pred."""
    out = []
    for b in prog.bodies.values():
        for bi, bl in enumerate(b.blocks):
            t = bl.term
            if t[0] == 'call':
                n1 = callee(t)[1]
                n2 = callee_decl(t)[1]
                if (n1 and pred(n1)) or (n2 and pred(n2)):
                    out.append((b, bi, t))
    return out
