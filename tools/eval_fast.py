#!/usr/bin/env python3
"""eval_fast.py [id ...]: development shortcut - evaluates every seeded change with tools/eval_patch.py on scratch copies, 8 at
a time (static rules only, /repo untouched). The recorded detection comes from tools/eval_seeds.py (official protocol)."""
import glob, os, subprocess, sys, re
from concurrent.futures import ThreadPoolExecutor
V = os.path.dirname(os.path.dirname(os.path.abspath(__file__)))
ids = sys.argv[1:] or sorted(os.path.basename(d) for d in glob.glob(os.path.join(V, 'seeded', 'C*')))
def one(sid):
    r = subprocess.run([sys.executable, os.path.join(V, 'tools', 'eval_patch.py'), os.path.join(V, 'seeded', sid, 'patch.diff')],
                       capture_output=True, text=True, cwd=V)
    keys = re.findall(r'^(C\d\d): ([A-Z][^|\n]*)\|', r.stdout, re.M)
    fired = sorted({f'{p}:{k}' for p, k in keys})
    tail = (r.stdout + r.stderr).strip().splitlines()[-1:] if not fired else []
    return sid, fired, tail
with ThreadPoolExecutor(6) as ex:
    res = list(ex.map(one, ids))
n = 0
for sid, fired, tail in res:
    if fired:
        n += 1
    print(sid, 'CAUGHT ' + ', '.join(fired) if fired else 'missed ' + ' '.join(tail))
print(f'{n} of {len(res)} caught')
