#!/usr/bin/env python3
"""scratch_facts.py <patch.diff> <out_facts_dir>: apply a patch to a scratch copy of /repo (outside /repo and /verif),
extract facts from the copy into <out_facts_dir>, remove the copy. Used to debug rules on mutants."""
import os, shutil, subprocess, sys, tempfile
sys.path.insert(0, os.path.dirname(os.path.dirname(os.path.abspath(__file__))))
from sa import selftest
patch, out = sys.argv[1], sys.argv[2]
scratch = tempfile.mkdtemp(prefix='samlang-scratch-')
try:
    copy = os.path.join(scratch, 'repo')
    subprocess.run(['rsync', '-a', '--exclude', 'target', '--exclude', '.git', '--exclude', 'node_modules', '/repo/', copy + '/'], check=True)
    r = subprocess.run(['patch', '-p1', '--no-backup-if-mismatch', '-s', '-f', '-i', os.path.abspath(patch)], cwd=copy)
    if r.returncode != 0:
        sys.exit('patch does not apply')
    shutil.rmtree(out, ignore_errors=True)
    os.makedirs(out)
    # extract into a sibling dir so that the temporary cargo target dir stays out of the facts dir
    ok, log = selftest.extract_facts(copy, out, None)
    print('ok' if ok else log)
finally:
    shutil.rmtree(scratch, ignore_errors=True)
