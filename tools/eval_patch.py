#!/usr/bin/env python3
"""eval_patch.py <patch.diff> [PROP ...]: which checks fire on a source change? Applies the patch to a scratch copy of
/repo (outside /repo and /verif), extracts facts there and runs the static rules of every claimed property (or the given
ones); prints the violations that are new with respect to the unpatched tree."""
import os, shutil, subprocess, sys, tempfile, json, glob
VERIF = os.path.dirname(os.path.dirname(os.path.abspath(__file__)))
sys.path.insert(0, VERIF)
from sa import selftest, registry
from sa.facts import load_program

patch = os.path.abspath(sys.argv[1])
props = sys.argv[2:] or sorted(registry.PROPERTIES)
# the base is the committed HEAD of /repo (git archive), not its working tree, so that this tool can be used while
# tools/eval_seeds.py has a seeded change applied to /repo
head = os.environ.get('EVAL_BASE') or subprocess.check_output(['git', '-C', '/repo', 'rev-parse', '--short', 'HEAD'], text=True).strip()   # EVAL_BASE: evaluate a change made against an earlier commit of /repo
base_dir = os.path.join(tempfile.gettempdir(), f'samlang-basefacts-{head}')
if not os.path.exists(os.path.join(base_dir, 'DONE')):
    tmpb = tempfile.mkdtemp(prefix='samlang-base-')
    try:
        os.makedirs(os.path.join(tmpb, 'repo'))
        subprocess.run(f'git -C /repo archive {head} | tar -x -C {tmpb}/repo', shell=True, check=True)
        shutil.rmtree(base_dir, ignore_errors=True)
        os.makedirs(base_dir)
        ok, log = selftest.extract_facts(os.path.join(tmpb, 'repo'), base_dir, None)
        if not ok:
            sys.exit('base does not compile: ' + log[-300:])
        open(os.path.join(base_dir, 'DONE'), 'w').write('ok')
    finally:
        shutil.rmtree(tmpb, ignore_errors=True)
base_prog = load_program(base_dir)
scratch = tempfile.mkdtemp(prefix='samlang-eval-')
try:
    copy = os.path.join(scratch, 'repo')
    os.makedirs(copy)
    subprocess.run(f'git -C /repo archive {head} | tar -x -C {copy}', shell=True, check=True)
    r = subprocess.run(['patch', '-p1', '--no-backup-if-mismatch', '-s', '-f', '-i', patch], cwd=copy)
    if r.returncode != 0:
        sys.exit('patch does not apply')
    facts = os.path.join(scratch, 'facts')
    os.makedirs(facts)
    ok, log = selftest.extract_facts(copy, facts, None)
    if not ok:
        sys.exit('does not compile: ' + log[-500:])
    prog = load_program(facts)
    out = {}
    for p in props:
        base = {i.full_key() for res in registry.run_property(base_prog, p, 'quick', '/repo', static_only=True)
                for i in res.instances if i.status == 'violation'}
        new = [(i.full_key(), i.where, i.msg) for res in registry.run_property(prog, p, 'quick', copy, static_only=True)
               for i in res.instances if i.status == 'violation' and i.full_key() not in base]
        out[p] = new
        for k, w, m in new:
            print(f'{p}: {k}\n      at {w}\n      {m[:300]}')
    fired = [p for p in props if out[p]]
    print('FIRED:', fired if fired else 'nothing')
finally:
    shutil.rmtree(scratch, ignore_errors=True)
