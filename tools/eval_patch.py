#!/usr/bin/env python3
"""eval_patch.py <patch.diff> [PROP ...]: which checks fire on a source change? Applies the patch to a scratch copy of
/repo (outside /repo and /verif), extracts facts there and runs the static rules of every claimed property (or the given
ones); prints the violations that are new with respect to the unpatched tree."""
import os, shutil, subprocess, sys, tempfile, json, glob
VERIF = os.path.dirname(os.path.dirname(os.path.abspath(__file__)))
sys.path.insert(0, VERIF)
from sa import selftest, registry
from sa.facts import load_program

patch = os.path.abspath(sys.argv[1])
props = sys.argv[2:] or sorted(registry.PROPERTIES)
import re
out = subprocess.run([os.path.join(VERIF, 'check'), 'C10', '--no-evidence'], capture_output=True, text=True, cwd=VERIF).stdout
hx = re.search(r'facts ([0-9a-f]+) ', out).group(1)
base_prog = load_program(os.path.join(VERIF, '.work', hx, 'facts'))
scratch = tempfile.mkdtemp(prefix='samlang-eval-')
try:
    copy = os.path.join(scratch, 'repo')
    subprocess.run(['rsync', '-a', '--exclude', 'target', '--exclude', '.git', '--exclude', 'node_modules', '--exclude', '_seed', '/repo/', copy + '/'], check=True)
    r = subprocess.run(['patch', '-p1', '--no-backup-if-mismatch', '-s', '-f', '-i', patch], cwd=copy)
    if r.returncode != 0:
        sys.exit('patch does not apply')
    facts = os.path.join(scratch, 'facts')
    os.makedirs(facts)
    ok, log = selftest.extract_facts(copy, facts, None)
    if not ok:
        sys.exit('does not compile: ' + log[-500:])
    prog = load_program(facts)
    out = {}
    for p in props:
        base = {i.full_key() for res in registry.run_property(base_prog, p, 'quick', '/repo', static_only=True)
                for i in res.instances if i.status == 'violation'}
        new = [(i.full_key(), i.where, i.msg) for res in registry.run_property(prog, p, 'quick', copy, static_only=True)
               for i in res.instances if i.status == 'violation' and i.full_key() not in base]
        out[p] = new
        for k, w, m in new:
            print(f'{p}: {k}\n      at {w}\n      {m[:300]}')
    fired = [p for p in props if out[p]]
    print('FIRED:', fired if fired else 'nothing')
finally:
    shutil.rmtree(scratch, ignore_errors=True)
