#!/usr/bin/env python3
"""eval_seeds.py [id ...]: run the registered quick checks against each seeded change the way the brief prescribes:
git -C /repo apply <patch>; ./check <P> for every claimed property; git -C /repo checkout -- . ; records which checks
report a violation in seeded/<id>/detection.json and rewrites seeded/SUMMARY.md."""
import json, os, re, subprocess, sys, glob
VERIF = os.path.dirname(os.path.dirname(os.path.abspath(__file__)))
m = json.load(open(os.path.join(VERIF, 'MANIFEST.json')))
props = [c['property_id'] for c in m['checks']]
ids = sys.argv[1:] or sorted(os.path.basename(d) for d in glob.glob(os.path.join(VERIF, 'seeded', 'C*')))
assert subprocess.run(['git', '-C', '/repo', 'status', '--porcelain', '--untracked-files=no'], capture_output=True, text=True).stdout.strip() == '', '/repo not clean'
for sid in ids:
    d = os.path.join(VERIF, 'seeded', sid)
    if json.load(open(os.path.join(d, 'meta.json'))).get('neutralised_by'):
        print(sid, 'not evaluated: neutralised by a repair of /repo (see meta.json)', flush=True)
        continue
    patch = os.path.join(d, 'patch.diff')
    r = subprocess.run(['git', '-C', '/repo', 'apply', patch])
    if r.returncode != 0:
        print(sid, 'PATCH DOES NOT APPLY')
        continue
    det = {}
    own = json.load(open(os.path.join(d, 'meta.json')))['breaks_property']
    try:
        def one(p):
            env = dict(os.environ)
            if p != own:
                env['VERIF_STATIC_ONLY'] = '1'      # witnesses are rebuilt only for the seeded property itself
            out = subprocess.run([os.path.join(VERIF, 'check'), p, '--no-evidence'], capture_output=True, text=True, cwd=VERIF, env=env)
            lines = [l for l in out.stdout.splitlines() if l.startswith('VIOLATION')]
            rules = sorted({l.split(':')[0] for l in out.stdout.splitlines() if re.match(r'^[A-Z][A-Za-z0-9_\-()]+: ', l) and not l.startswith(('VIOLATION', 'KNOWN-FINDING', 'SELFTEST'))})
            if out.returncode == 1 and lines:
                return p, dict(exit=1, violations=len(lines), rules=rules)
            if out.returncode not in (0, 1):
                return p, dict(exit=out.returncode, note=out.stdout[-300:])
            return p, None
        # the first check extracts the facts of the patched tree (under the work-dir lock); the others then run side by side
        first = one(props[0])
        from concurrent.futures import ThreadPoolExecutor
        with ThreadPoolExecutor(6) as ex:
            rest = list(ex.map(one, props[1:]))
        for p, r in [first] + rest:
            if r is not None:
                det[p] = r
    finally:
        subprocess.run(['git', '-C', '/repo', 'checkout', '--', '.'])
    meta = json.load(open(os.path.join(d, 'meta.json')))
    res = dict(id=sid, breaks_property=meta['breaks_property'], ran='git -C /repo apply patch.diff; ./check <P> --no-evidence for P in ' + ' '.join(props) + '; git -C /repo checkout -- .',
               fired=det, caught=bool(det), caught_by_own_property=meta['breaks_property'] in det)
    json.dump(res, open(os.path.join(d, 'detection.json'), 'w'), indent=1)
    print(sid, 'CAUGHT by ' + ', '.join(f'{p}:{"/".join(v.get("rules", []))}' for p, v in det.items()) if det else 'missed', flush=True)
# restore evidence of the clean tree is not needed: --no-evidence was used
rows = []
for d in sorted(glob.glob(os.path.join(VERIF, 'seeded', 'C*'))):
    f = os.path.join(d, 'detection.json')
    if not os.path.exists(f):
        continue
    r = json.load(open(f))
    meta = json.load(open(os.path.join(d, 'meta.json')))
    if meta.get('neutralised_by'):
        continue
    rows.append((r['id'], r['breaks_property'], (meta.get('summary') or '')[:110].replace('|', '/').replace('\n', ' '),
                 '; '.join(f'{p}: {", ".join(v.get("rules", []))}' for p, v in r['fired'].items()) or '**missed**'))
with open(os.path.join(VERIF, 'seeded', 'SUMMARY.md'), 'w') as f:
    f.write('# Seeded breaking changes and the checks that report them\n\n')
    f.write(f'{sum(1 for r in rows if "missed" not in r[3])} of {len(rows)} seeded changes are reported by at least one registered quick check.\n\n')
    f.write('| id | property | change | reported by |\n|----|----------|--------|-------------|\n')
    for r in rows:
        f.write(f'| {r[0]} | {r[1]} | {r[2]} | {r[3]} |\n')
print('summary written')
