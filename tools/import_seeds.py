#!/usr/bin/env python3
"""import_seeds.py: copy the confirmed seeded changes from the scratch worktrees into /verif/seeded/<id>/ and record
what was run. Detection results are (re)computed by tools/eval_seeds.py."""
import json, os, shutil, glob, re, sys
ROUND = int(sys.argv[1]) if len(sys.argv) > 1 else 1
for d in sorted(glob.glob('/tmp/seed/C*/_seed/change*')):
    if not os.path.exists(os.path.join(d, 'meta.json')) or not os.path.exists(f'/tmp/seed/confirm_{d.split("/")[3]}.out'):
        continue        # the sub-agent has not finished (or the change has not been confirmed yet)
    prop = d.split('/')[3]
    k = d[-1]
    sid = f'{prop}-{int(k) + 2 * (ROUND - 1)}'
    dst = f'/verif/seeded/{sid}'
    shutil.rmtree(dst, ignore_errors=True)
    os.makedirs(dst)
    shutil.copy(os.path.join(d, 'patch.diff'), dst)
    shutil.copytree(os.path.join(d, 'demo'), os.path.join(dst, 'demo'))
    m = json.load(open(os.path.join(d, 'meta.json')))
    conf = ''
    for line in open(f'/tmp/seed/confirm_{prop}.out'):
        if line.startswith(f'RESULT {prop} change{k}:'):
            conf = line.strip()
    meta = dict(
        id=sid, breaks_property=prop, round=ROUND,
        summary=m.get('summary'), needs_to_manifest=m.get('what_it_needs_to_manifest'),
        files_touched=m.get('files_touched'), demo_command=m.get('demo_command'),
        produced_by='independent sub-agent given only the property record and a scratch git worktree of /repo (no access to /verif)',
        confirmed=dict(
            how='in the scratch worktree /tmp/seed/%s: (1) demo on the clean tree, (2) git apply patch.diff, cargo test --workspace '
                '--no-fail-fast --offline, (3) demo with the change, (4) git checkout' % prop,
            result=conf,
            demo_passes_without_change=' demo_without_exit=0 ' in conf + ' ',
            suite_with_change='367/0' in conf,
            demo_fails_with_change=bool(re.search(r'demo_with_exit=(1|101)\b', conf))),
        agent_reported=dict(result_with_change=m.get('result_with_change'), result_without_change=m.get('result_without_change')))
    json.dump(meta, open(os.path.join(dst, 'meta.json'), 'w'), indent=1)
    print(sid, conf)
